"""C15 — query rewriting (normalize, &, |, -, with_boost, replace, accept, copy, pickle, simplify,
estimate_size) never changes what a query means."""
import copy
import os
import pickle
import random
import sys
import traceback

sys.path.insert(0, os.path.dirname(os.path.dirname(os.path.abspath(__file__))))
from vcheck import Driver, parse_sexp  # noqa: E402
from gen import normalize as G  # noqa: E402

ID = "C15"
LEVEL = "proof"
LEAN_IMPORTS = ["WM.Props.C15"]
THEOREMS = [
    "WM.C15.normalize_sat_partial", "WM.C15.normalize_answer_partial", "WM.C15.not_normalize_sat_full",
    "WM.C15.never_raises", "WM.C15.ops_never_raise", "WM.C15.normalize_sat_plain", "WM.C15.defect_open_excl_start",
    "WM.C15.defect_and_null", "WM.C15.defect_not_null", "WM.C15.defect_and_every_field",
    "WM.C15.defect_and_range_multivalued", "WM.C15.defect_and_range_nested", "WM.C15.defect_odd_terms",
    "WM.C15.idempotent", "WM.C15.total", "WM.C15.range_merge_union", "WM.C15.range_merge_inter_partial",
    "WM.C15.with_boost_sat", "WM.C15.ops_and_partial", "WM.C15.ops_or_partial", "WM.C15.ops_sub_partial",
    "WM.C15.apply_id_sat", "WM.C15.replace_absent", "WM.C15.replace_absent_sat",
    "WM.C15.simplify_sat_partial", "WM.C15.estimate_ge", "WM.C15.estimate_total", "WM.C15.estimate_total_ge",
    "WM.C15.eq_iff", "WM.C15.eq_same_meaning", "WM.C15.dedupe_sat",
    "WM.C15.dedupe_by_sound", "WM.C15.dedupe_by_sound_of_eq", "WM.C15.dedupe_by_unsound", "WM.C15.dedupe_is_dedupe_by",
    "WM.C15.nested_parent_normalize_answer_partial", "WM.C15.nested_parent_normalize_idempotent",
    "WM.C15.nested_boost_answer",
]
_DEFECTS = ("the pinned tree's CompoundQuery.normalize/Not.normalize are not meaning preserving on trees outside "
            "WM.Clean.clean (And drops NullQuery clauses, Not(NullQuery) becomes NullQuery, And drops clauses next to "
            "Every(field), And merges overlapping TermRanges), nor on documents holding a term >= U+FFFF "
            "(Doc.BelowMax), nor -- only on an index that holds the empty term -- on trees with a TermRange whose "
            "start is exclusive and open/empty where normalize() rewrites or merges it (hypothesis EOk = "
            "WM.Clean.emptyOk q or no document holds the empty term; witness defect_open_excl_start); "
            "the full statement is refuted in Lean (not_normalize_sat_full, defect_*).  `clean` also "
            "excludes (clause seq-child) every Sequence/Ordered whose subqueries are changed by normalize(): the "
            "positional part of a sequence is an abstract function of the syntactic subqueries (spans are not "
            "modelled), so nothing is claimed there; `clean` is decidable but defined through normalizeList/flatten "
            "(the clause lists are those CompoundQuery.normalize works on), not a purely syntactic predicate")
PARTIAL = {
    "WM.C15.normalize_sat_partial": _DEFECTS,
    "WM.C15.normalize_answer_partial": _DEFECTS,
    "WM.C15.normalize_sat_plain": "normalize_sat_partial on indexes without the empty term (no EOk hypothesis); "
                                  "otherwise the same exclusions",
    "WM.C15.ops_and_partial": "inherits the normalize defects (hypotheses: the composed And is clean and EOk)",
    "WM.C15.ops_or_partial": "inherits the normalize defects (hypotheses: the composed Or is clean and EOk)",
    "WM.C15.ops_sub_partial": "inherits the normalize defects (hypotheses: the composed And([a, Not(b)]) is clean "
                              "and EOk)",
    "WM.C15.simplify_sat_partial": "inherits the normalize defects (hypotheses WM.Clean.cleanS and EOkS)",
    "WM.C15.range_merge_inter_partial": "RangeMixin.merge(intersect=True) returns the outer range for nested "
                                        "ranges; proved for ranges neither of which contains the other",
    "WM.C15.apply_id_sat": "hypothesis seqNotFree: the positional part of Sequence/Ordered is abstract (spans "
                           "are not modelled), so a Sequence is only known to mean the same if its subqueries "
                           "are rebuilt identically (Not.apply forgets the boost of a Not)",
    "WM.C15.replace_absent_sat": "same hypothesis as apply_id_sat",
    "WM.C15.never_raises": "normalizeE (WM/Model/NormalizeExc.lean) keeps the raising statements on the path of "
                           "normalize() as raising sites: the assert of RangeMixin.merge; the tuple comparison of "
                           "RangeMixin.overlaps between a NumericRange and a TermRange (TypeError on the pinned tree) "
                           "is repaired by a fix: commit and has no counterpart because a NumericRange is not a "
                           "range node of the model; TermRange bounds are texts in the model (a TermRange built with "
                           "non-text bounds is outside it).  The check additionally calls every rewrite on every "
                           "generated tree, ill-typed range mixes included, and reports any exception",
    "WM.C15.estimate_ge": "holds for every reader with or without deleted documents (rd.dead arbitrary: "
                          "doc_frequency counts them, doc_count() does not); estimate_size of span queries and "
                          "NumericRange is not modelled (`none` resp. a placeholder; real-code comparison only)",
    "WM.C15.estimate_total": "trees without span queries (hypothesis spanFree); NumericRange.estimate_size is a "
                             "placeholder in the model",
    "WM.C15.estimate_total_ge": "as estimate_total",
    "WM.C15.idempotent": "full for the modelled classes of WM.Normalize.Q; NestedParent.normalize is idempotent by "
                         "nested_parent_normalize_idempotent (a nested node whose sub-queries are Q trees); nested "
                         "nodes as clauses of compounds or below other nodes are real-code only, span queries are "
                         "opaque leaves",
    "WM.C15.nested_parent_normalize_answer_partial": "inherits the normalize defects for the two sub-queries "
                                                     "(hypotheses clean/EOk for parents and for the wrapped query, "
                                                     "BelowMax); `parents` given as a DocIdSet or Results object "
                                                     "and nested queries inside nested queries are outside the model; "
                                                     "NestedChildren's match set is not modelled (its normalize() "
                                                     "is the identity: nested_boost_answer)",
    "WM.C15.dedupe_by_sound": "full for the duplicate-elimination loop alone, for every clause class and equality "
                              "(NestedParent/NestedChildren included); the hypothesis 'clauses that compare equal "
                              "match the same documents' is checked on real nested queries by stream nested/eq, "
                              "not proved (their matchers are not modelled); the rest of normalize() on trees with "
                              "nested nodes stays real-code only",
}
RULE = ("random query trees (depth <= 4) over all modelled query classes incl. span queries (opaque leaves with "
        "all constructor arguments), nested same-class compounds, duplicate clauses, overlapping ranges, Null/empty "
        "clauses and Every, near-duplicate clauses (a copy with exactly one constructor argument of one node "
        "changed), Sequence/Ordered nested in Sequence/Ordered (mixed classes, equal and different slop/ordered; "
        "a 'positional' profile with few words and longer documents); pairs (tree, near-duplicate) for the "
        "equality/hash stream; pairs of TermRanges for overlaps/merge called directly; "
        "20 % of the end-to-end trees come from QueryParser.parse(normalize=False); a third "
        "stream runs NestedParent/NestedChildren trees on three-level grouped indexes (near-duplicate nested clauses "
        "that differ in one constructor argument, mostly the parent filter; equality pairs; duplicate elimination "
        "against the Lean loop); non-trivial = the rewrite changed the "
        "tree (correspondence) resp. the rewritten tree differs from the original and the original matches at least "
        "one and not all documents (end-to-end); distinct = distinct (operation, serialized tree[, index])")
ASSUMPTIONS = [
    "model mirrors whoosh.query rewriting code: sampled on every run (serialized result trees compared node for "
    "node), not proved",
    "Python's `s in seenqs` (hash + eq) is modelled as structural equality of the attributes that take part in "
    "__eq__ or __hash__ (WM.C15.eq_iff); compared on every run with the real `b in {a}` on copies and on "
    "near-duplicate pairs that differ in exactly one constructor argument of one node (stream eq; pairs that "
    "differ in boosts of Not nodes only, which Not.__eq__ ignores and Not.__hash__ reads, are only required to "
    "be == and the model keeps them apart), and real "
    "pairs with a == b are searched and must match the same documents; hash collisions of unequal queries and the "
    "falsy-empty-compound quirk (an empty compound has len 0, so `other and ...` in __eq__ is falsy and it never "
    "equals a copy of itself) are not modelled: the generator produces no empty Sequence and no empty compound "
    "below a ConstantScoreQuery, and the eq stream skips trees with an empty compound",
    "the positional part of Sequence/Ordered is an abstract parameter of the spec (spans are not modelled); the "
    "oracle tabulates it from the real search of the Sequence node",
    "FuzzyTerm/Variations/Regex/NumericRange expansions are an arbitrary term predicate in the theorems; the "
    "oracle tabulates them from whoosh's own per-segment expansion; trees whose FuzzyTerm expands differently on the "
    "whole reader and per segment (property C19) are skipped",
    "NumericRange.simplify/estimate_size (tiered byte ranges, property C13) are not mirrored; compared on real "
    "objects only",
    "Otherwise(a, b) is decided per segment by whoosh; the spec's whole-index reading is compared on single-segment "
    "indexes only",
    "docs_for_query results are restricted to live documents (InverseMatcher of the pinned tree can yield a deleted "
    "document: matcher defect, counted as a statistic)",
    "span queries (query/spans.py) are opaque leaves of the model (canonical text of class, every constructor "
    "argument and subqueries; field() as SpanQuery/WrappingSpan define it): normalize/simplify/with_boost leave "
    "them alone, apply-based rewrites must rebuild them identically; the oracle tabulates their match set from "
    "the real search of the leaf; their estimate_size is not modelled; subqueries of generated span queries "
    "contain no Not (Not.apply resets the boost)",
    "NestedParent/NestedChildren (query/nested.py) are structured nodes of a separate small model "
    "(WM.NormalizeNested: constructor arguments, NestedParent.normalize/with_boost, NestedChildren.normalize, and "
    "the parent documents NestedParentMatcher returns per segment, incl. its stop when a match has no parent at or "
    "before it) whose sub-queries are trees of the query model: NestedParent.normalize is compared node for node "
    "on random sub-query trees, and the Lean reading of NestedParent is the oracle for the real search of the "
    "query and of its normalize() on grouped multi-segment indexes without deletions.  Nested nodes are not "
    "constructors of the Lean query type itself (not clauses of modelled compounds): a separate real-code stream on "
    "three-level grouped indexes (kind g > p > c, parent filters on either level or both) checks that every "
    "rewrite neither raises nor changes the match set nor loses a constructor argument, and estimate_size >= "
    "count; trees hold pairs of nested clauses around equal sub-queries that differ in exactly one constructor "
    "argument (parents, per_parent_limit, score_fn, boost, sub-query) or in none, as clauses of one compound "
    "and as the operands of &, |, -; two nested queries that compare equal (== or `in` a set) must match the "
    "same documents (hypothesis of WM.C15.dedupe_by_sound); the duplicate elimination of compounds of "
    "nested/ConstantScore/Term/Not clauses is compared with WM.NormalizeDedupe.dedupeBy run on the table of the "
    "real membership tests (which clauses survive, in which order)",
    "for &, |, - the expected answer is set algebra on the two answers, and a case is only judged if the "
    "un-normalized And/Or of the operands follows set algebra itself (nested and span matchers break the matcher "
    "contract in some combinations: property C01/C11); searches that raise inside whoosh/matching or do not "
    "return within 5 s are counted, not judged",
    "documents: fields f, g whitespace-tokenised with positions, k one token (ID), n NUMERIC; boosts are dyadic "
    "floats, so products and max are exact",
]
TRUSTED = [
    "fnmatch.translate + re.match are modelled by WM.Sat.parseGlob/gmatch: `*` and `?` exactly, `[...]` through the "
    "parameter `bracket` (theorems hold for every reading of brackets; the driver instantiates it with a mirror of "
    "fnmatch's bracket scanner, checked end-to-end)",
    "copy.deepcopy and pickle round-trips are structural identity (checked on the real objects only)",
    "replace() of a term that occurs in the tree is outside the property's equivalence claim (the meaning changes); "
    "the model function is compared node for node there as well, and the receiver must not be modified",
]
MANIFEST = {
    "level_text": "Lean 4 theorems over an executable mirror of the rewrite methods of whoosh.query (normalize of "
                  "every class, &, |, -, with_boost, replace, accept, simplify, estimate_size, RangeMixin.overlaps/"
                  "merge): normalize preserves `sat` on every index for all trees outside six recorded defects "
                  "(decidable predicate WM.Clean.clean; each defect refuted on a concrete witness in Lean), "
                  "normalize is idempotent for every tree (normal-form proof, no hypothesis), with_boost/replace-"
                  "absent/accept-identity preserve `sat`, union merging of overlapping ranges is exact, simplify "
                  "preserves `sat` on its reader, estimate_size >= |answer| on readers with deleted documents and "
                  "never raises (no span leaf), normalize/&/|/- never raise (exception-monad mirror normalizeE with "
                  "the assert of RangeMixin.merge as raising site), equality as used by the de-duplication is "
                  "equality of trees.  Tied to the code on every run by "
                  "node-for-node comparison of the real rewritten trees with the model's (a differing tree is "
                  "accepted only if it returns the same documents with the same scores on generated indexes), and "
                  "by an end-to-end run "
                  "(docs_for_query before/after every rewrite on generated multi-segment indexes with deletions, "
                  "Lean `sat` as oracle, failing inputs minimised and classified by the violated clause of "
                  "WM.Clean).",
    "level_note": "Query classes: every class of whoosh.query is modelled except ColumnQuery; NestedParent/"
                  "NestedChildren only as top-level nodes over modelled sub-queries (WM.NormalizeNested; inside "
                  "compounds: real-code stream plus the generic duplicate-elimination theorem dedupe_by_sound); span queries are opaque leaves; copy/pickle are checked "
                  "on real objects only.  Partial theorems: normalize_sat/ops/simplify carry the hypothesis WM.Clean.clean(S) and "
                  "Doc.BelowMax / EOk because the pinned tree (with its test-suite) is not meaning preserving there "
                  "(findings/C15.json); apply_id/replace_absent assume no Not below a Sequence (spans not "
                  "modelled).  Trusted: Lean kernel, the hand-written model (sampled), CPython re/fnmatch/copy/"
                  "pickle, the harness.  Nine `fix:` commits (branch fam-normalize) are part of the tree the model "
                  "mirrors.",
}

ABSENT = u"qq"


def _reset_null():
    from whoosh.query import qcore
    qcore.NullQuery.boost = 1.0


# ------------------------------------------------------------------------------------------------
# the rewrites under test, on real objects

def _rewrites(rng, q, q2, reader):
    """name -> callable producing the rewritten real query"""
    b = rng.choice([2.0, 0.5, 1.0, 4.0])
    fld = rng.choice(["f", "g", "k"])
    return [
        ("normalize", lambda: q.normalize(), None),
        ("and", lambda: q & q2, None),
        ("or", lambda: q | q2, None),
        ("sub", lambda: q - q2, None),
        ("boost", lambda: q.with_boost(b), b),
        ("replace", lambda: q.replace(fld, ABSENT, u"a"), fld),
        ("accept", lambda: q.accept(lambda x: x), None),
        ("apply", lambda: q.apply(lambda x: x), None),
        ("copy", lambda: copy.deepcopy(q), None),
        ("pickle", lambda: pickle.loads(pickle.dumps(q, 2)), None),
    ]


def _model_request(name, qs, q2s_, arg):
    if name == "normalize":
        return "c15 norm %s" % qs
    if name in ("and", "or", "sub"):
        return "c15 op %s %s %s" % (name, qs, q2s_)
    if name == "boost":
        return "c15 boost %s %s" % (qs, G.r2s(arg))
    if name == "replace":
        return "c15 replace %d %s %s %s" % (G.FIELDS[arg], G.t2s(ABSENT), G.t2s(u"a"), qs)
    if name == "accept":
        return "c15 accept %s" % qs
    if name == "apply":
        return "c15 applyid %s" % qs
    return None  # copy / pickle: structural identity, checked on the real objects only


def _excname(e):
    return type(e).__name__


# ------------------------------------------------------------------------------------------------
# equality and hash of query objects: what `s in seenqs` of CompoundQuery.normalize decides

def _nested_seq(qs):
    """a Sequence/Ordered node with a Sequence/Ordered member somewhere in the tree (text form)"""
    if qs.count("(seq ") < 2:
        return False
    return any(n != "null" and n[0] == "seq" and any(c != "null" and c[0] == "seq" for c in n[2])
               for n in G.walk(G.parse1(qs)))


def _erase_not_boost(x):
    if isinstance(x, str):
        return x
    if x and x[0] == "not":
        return ["not", _erase_not_boost(x[1]), "1"]
    return [_erase_not_boost(y) for y in x]


def _eq_pairs(rng, q, qs, stat):
    """(text a, text b, "1"/"0" = real `b in {a}`) for the query with a copy of itself and with a
    near-duplicate (exactly one constructor argument of one node differs)."""
    x = G.parse1(qs)
    if G.has_empty_compound(x):
        # an empty compound is falsy, so `other and ...` never answers True above it (ASSUMPTIONS)
        stat("eq:skipped-empty-compound")
        return []
    res = []
    try:
        res.append((qs, qs, "1" if copy.deepcopy(q) in {q} else "0"))
        m = G.mutate_sx(rng, x)
        if m is not None:
            q2 = G.s2q(m)
            q2s_ = G.q2s(q2)
            if q2s_ != qs and not G.has_empty_compound(m):
                real = q2 in {q}
                if _erase_not_boost(m) == _erase_not_boost(x):
                    # the pair differs in boosts of Not nodes only.  Not.__eq__ ignores the boost that
                    # Not.__hash__ reads, and compounds xor the hashes of their clauses, so whether a Python
                    # set identifies the two depends on where the boosts sit; the model keeps them apart.
                    # Required of the real code here: == answers True.
                    stat("eq:differs-in-Not-boost-only")
                    if not (q == q2):
                        res.append((qs, q2s_, "0:Not.__eq__-must-ignore-the-boost"))
                else:
                    res.append((qs, q2s_, "1" if real else "0"))
                    if bool(q == q2) != real:
                        stat("eq:__eq__-true-but-hash-differs")
    except G.Unserializable:
        stat("eq:unserializable")
    finally:
        _reset_null()
    return res


_REPLACE_SIG = "Phrase.replace:rewrites-the-words-of-the-original-query(shared-list)"


def _present_term(rng, x):
    """(field id, text) of a term that replace() looks at somewhere in the tree, or None"""
    found = []
    for n in G.walk(x):
        if n == "null":
            continue
        if n[0] == "term":
            found.append((int(n[1]), G.s2t(n[2])))
        elif n[0] == "multi" and n[1] in ("0", "1"):
            found.append((int(n[2]), G.s2t(n[3])))
        elif n[0] == "phrase":
            found.extend((int(n[1]), G.s2t(w)) for w in n[2])
    found = [t for t in found if t[0] in (0, 1, 2)]
    return rng.choice(found) if found else None


def _phrase_has(x, fid, old):
    for n in G.walk(x):
        if n == "null":
            continue
        if n[0] == "phrase" and int(n[1]) == fid and any(G.s2t(w) == old for w in n[2]):
            return True
        if n[0] == "opq":
            inner = G.opq_inner(n)
            subs = [y for y in inner[1:] if isinstance(y, list)]
            for y in subs:
                ys = y if (y and isinstance(y[0], list)) else [y]
                if any(_phrase_has(z, fid, old) for z in ys):
                    return True
    return False


def _range_pair(rng, stat):
    """requests + expected real results for RangeMixin.overlaps and RangeMixin.merge (both modes) on two
    TermRanges, mostly on one field, bounds biased to touching / nested / open-ended intervals"""
    from whoosh import query as Q

    def mk(fld):
        return Q.TermRange(fld, rng.choice(G.RANGE_LO + ["a", "b"]), rng.choice(G.RANGE_HI + ["b", "c"]),
                           rng.random() < 0.4, rng.random() < 0.4, boost=rng.choice(G.BOOSTS),
                           constantscore=rng.random() < 0.7)
    fa = rng.choice(["f", "g", "k"])
    fb = fa if rng.random() < 0.85 else rng.choice(["f", "g", "k"])
    a, b = mk(fa), mk(fb)
    as_, bs_ = G.q2s(a), G.q2s(b)
    ov = bool(a.overlaps(b))
    res = [("c15 overlaps %s %s" % (as_, bs_), ("overlaps", as_, bs_, None, "1" if ov else "0"))]
    stat("range:overlaps:%s" % ov)
    for inter in (True, False):
        try:
            ms = G.q2s(a.merge(b, intersect=inter))
        except AssertionError:
            ms = "raises:AssertionError"
            stat("range:merge-raises-AssertionError(different fields)")
        except Exception as e:  # noqa
            ms = "raises:" + _excname(e)
        res.append(("c15 merge %s %s %s" % (as_, bs_, "1" if inter else "0"), ("merge", as_, bs_, inter, ms)))
    return res


# ------------------------------------------------------------------------------------------------
# stream 1: correspondence (model <-> real rewrite methods), no index involved

def _set_not_boosts(q, b, depth=0):
    from whoosh import query as Q
    if isinstance(q, Q.Not):
        q.boost = b
    if depth > 40:
        return
    try:
        kids = list(q.children())
    except Exception:  # noqa
        kids = []
    for k in kids:
        _set_not_boosts(k, b, depth + 1)


def _corr_worker(job):
    seed, n, prof = job
    rng = random.Random(seed)
    out = {"cases": [], "stats": {}, "div": [], "viol": [], "samples": []}

    def stat(k, c=1):
        out["stats"][k] = out["stats"].get(k, 0) + c
    reqs, meta = [], []
    for i in range(n):
        depth = rng.choice([1, 2, 2, 3, 3, 4])
        q = G.gen_query(rng, depth, prof)
        q2 = G.gen_query(rng, rng.choice([0, 1, 2]), prof)
        # Node-for-node stream only: all Not nodes of one case carry the same (per-case random) boost.  Two clauses
        # that differ in boosts of Not nodes only are `==` for Python (Not.__eq__ ignores the boost, compound hashes
        # xor their clauses) and distinct for the model's structural equality - the gap declared in ASSUMPTIONS;
        # such a pair inside one compound made the de-duplication differ (thorough seed 0).  The eq stream and the
        # end-to-end streams keep free Not boosts.
        nb = random.Random("%s:%d:notboost" % (seed, i)).choice(G.BOOSTS)
        _set_not_boosts(q, nb)
        _set_not_boosts(q2, nb)
        try:
            qs, q2s_ = G.q2s(q), G.q2s(q2)
        except G.Unserializable:
            stat("unserializable")
            continue
        stat("root:" + (qs.split()[0].strip("(") if qs != "null" else "null"))
        if _nested_seq(qs):
            stat("nested-sequence")
        for pair in _eq_pairs(rng, q, qs, stat):
            reqs.append("c15 beq %s %s" % (pair[0], pair[1]))
            meta.append(("eq", pair[0], pair[1], None, pair[2]))
        for name, fn, arg in _rewrites(rng, q, q2, None):
            orig = qs
            try:
                res = fn()
                rs = G.q2s(res)
                err = None
            except Exception as e:  # noqa
                rs, err = None, _excname(e)
            finally:
                _reset_null()
            # the rewrite must not have modified its argument
            try:
                after = G.q2s(q)
            except Exception:  # noqa
                after = None
            if after != orig:
                out["viol"].append(("%s:mutates-its-argument" % name, {"op": name, "q": orig, "q2": q2s_},
                                    orig, after, "the rewrite changed the original tree in place"))
            if err is not None:
                stat("raises:%s:%s" % (name, err))
                out["viol"].append(("%s:raises:%s" % (name, err), {"op": name, "q": qs, "q2": q2s_, "arg": arg},
                                    "a query", err, "%s() raised %s" % (name, err)))
                continue
            if name in ("copy", "pickle"):
                out["cases"].append(((name, qs), rs != "null"))
                if rs != qs:
                    out["viol"].append(("%s:not-structurally-equal" % name, {"op": name, "q": qs}, qs, rs, ""))
                continue
            req = _model_request(name, qs, q2s_, arg)
            reqs.append(req)
            meta.append((name, qs, q2s_, arg, rs))
            if name == "normalize":
                # idempotence on the real objects
                try:
                    rs2 = G.q2s(res.normalize())
                except Exception as e:  # noqa
                    rs2 = "raises:" + _excname(e)
                finally:
                    _reset_null()
                if rs2 != rs:
                    out["viol"].append(("normalize:not-idempotent", {"op": "normalize2", "q": qs}, rs, rs2,
                                        "normalize(normalize(q)) != normalize(q)"))
                reqs.append("c15 norm2 %s" % qs)
                meta.append(("normalize2", qs, q2s_, None, rs))
        # replace() of a term that IS in the tree (last: on the pinned tree it can damage `q`): the result
        # is the model's, and the receiver is left alone ("does not modify the original query in place")
        tgt = _present_term(rng, G.parse1(qs))
        if tgt is not None:
            fid, old = tgt
            try:
                rs = G.q2s(q.replace(G.FNAMES[fid], old, u"zz"))
                after = G.q2s(q)
            except Exception as e:  # noqa
                out["viol"].append(("replace-present:raises:%s" % _excname(e), {"op": "replace-present", "q": qs,
                                    "arg": [fid, old]}, "a query", _excname(e), ""))
                continue
            finally:
                _reset_null()
            if after != qs:
                out["viol"].append((_REPLACE_SIG if _phrase_has(G.parse1(qs), fid, old) else
                                    "replace-present:mutates-its-argument",
                                    {"op": "replace-present", "q": qs, "arg": [fid, old]}, qs, after,
                                    "replace() of a term that occurs in the query changed the original query"))
            if "(opq " in qs:
                stat("replace-present:span-leaves-are-opaque-in-the-model(receiver-check-only)")
            else:
                reqs.append("c15 replace %d %s %s %s" % (fid, G.t2s(old), G.t2s(u"zz"), qs))
                meta.append(("replace-present", qs, "", "%d:%s" % (fid, old), rs))
    # (placed after the per-tree loop)
    # RangeMixin.overlaps / merge called directly (the model functions range_merge_* speak about)
    for _ in range(max(4, n // 2)):
        for req, m in _range_pair(rng, stat):
            reqs.append(req)
            meta.append(m)
    answers = Driver().ask(reqs)
    for (name, qs, q2s_, arg, rs), ans in zip(meta, answers):
        if name in ("and", "or", "sub"):
            changed = True
        elif name in ("overlaps", "merge"):
            changed = rs not in ("0", qs, q2s_)
        elif name == "eq":
            changed = qs != q2s_      # a near-duplicate pair (one constructor argument differs)
        else:
            changed = rs != qs
        out["cases"].append(((name, qs, q2s_ if name in ("and", "or", "sub", "eq", "overlaps", "merge") else "", arg),
                             changed))
        stat("op:" + name)
        if changed:
            stat("changed:" + name)
        if ans != rs:
            out["div"].append(("query." + name, {"op": name, "q": qs, "q2": q2s_, "arg": arg}, ans, rs))
        elif len(out["samples"]) < 2 and changed and name == "normalize" and len(qs) < 300:
            out["samples"].append({"op": name, "q": qs, "result": rs})
    return out


# ------------------------------------------------------------------------------------------------
# stream 2: end-to-end on generated indexes, Lean `sat` as oracle

def _multi_row(x, reader, docs, live):
    """(K F T KEY (terms ..)) for a multi leaf: the terms of the field that the leaf expands to
    on this reader (FuzzyTerm/Variations/Regex: whoosh's own expansion = the arbitrary predicate of
    the spec; NumericRange: values in the interval, computed here)."""
    k, f, key = int(x[1]), int(x[2]), int(x[4])
    fname = G.FNAMES[f]
    terms = set()
    ambiguous = False   # FuzzyTerm: whole-reader and per-segment expansions differ (C19)
    if k == 3:
        s, e, sx, ex, _ = G._nr_unkey(key)
        for i, d in enumerate(docs):
            v = d.get("n")
            if v is None:
                continue
            if s is not None and (v < s or (sx and v == s)):
                continue
            if e is not None and (v > e or (ex and v == e)):
                continue
            terms.add(str(v))
    else:
        q = G.s2q(x)
        field = reader.schema[fname]
        # the expansion the *search* uses is computed per segment (FuzzyTerm: the per-segment and the
        # multi-reader terms_within disagree on transpositions, property C19)
        for leaf, _ in reader.leaf_readers():
            for bt in q._btexts(leaf):
                terms.add(field.from_bytes(bt) if isinstance(bt, bytes) else bt)
        top = set(field.from_bytes(bt) if isinstance(bt, bytes) else bt for bt in q._btexts(reader))
        if top != terms:
            ambiguous = True
    return "(%d %d %s %d (%s))" % (k, f, G.unparse(x[3]) if not isinstance(x[3], str) else x[3], key,
                                   " ".join(G.t2s(t) for t in sorted(terms))), ambiguous


def _collect_rows(trees, searcher, docs, live):
    """multi and seq rows for all parsed trees; returns (multirows, seqrows, unsearchable set of
    unparsed seq nodes)"""
    reader = searcher.reader()
    mrows, srows, orows, bad = {}, {}, {}, set()
    for x in trees:
        for node in G.walk(x):
            if node == "null":
                continue
            if node[0] == "multi":
                key = G.unparse(node[:5])
                if key not in mrows:
                    mrows[key], amb = _multi_row(node, reader, docs, live)
                    if amb:
                        bad.add(key)
            elif node[0] == "seq":
                key = G.unparse(node[:5])
                if key not in srows and key not in bad:
                    try:
                        ds = G.docs_of(searcher, G.s2q(node))
                        srows[key] = "(%s %s %s %s (%s))" % (node[1], node[3], node[4], G.unparse(node[2]),
                                                              " ".join(str(i) for i in ds))
                    except Exception:  # noqa
                        bad.add(key)
            elif node[0] == "opq":
                # span query: the oracle's `opq` predicate is the real search of the leaf itself
                key = G.unparse(node[:3])
                if key not in orows and key not in bad:
                    try:
                        ds = G.docs_of(searcher, G.s2q(node))
                        orows[key] = "(%s (%s))" % (G.unparse(node[2]), " ".join(str(i) for i in ds))
                    except Exception:  # noqa
                        bad.add(key)
    return list(mrows.values()), list(srows.values()) , list(orows.values()), bad


def _dead_ids(reader):
    """stored ids of the deleted documents that are still in a segment of the real reader (their
    postings still count in doc_frequency)"""
    dead = set()
    for docnum in range(reader.doc_count_all()):
        if reader.is_deleted(docnum):
            dead.add(reader.stored_fields(docnum)["id"])
    return dead


def _reader_text(reader, docs, live):
    """(reader (schema F ..) (lex (F term ..) ..) (dead doc ..)): the lexicons of the real reader and the
    deleted documents it still holds"""
    lex = []
    for fname in ("f", "g", "k"):
        field = reader.schema[fname]
        terms = [field.from_bytes(bt) for bt in reader.lexicon(fname)]
        lex.append("(%d %s)" % (G.FIELDS[fname], " ".join(G.t2s(t) for t in terms)))
    nums = sorted(set(str(d["n"]) for i, d in enumerate(docs) if d.get("n") is not None))
    lex.append("(%d %s)" % (G.FIELDS["n"], " ".join(G.t2s(t) for t in nums)))
    return "(reader (schema 0 1 2 3) (lex %s) (dead %s))" % (" ".join(lex),
                                                              " ".join(G.docs_text(docs, _dead_ids(reader))))


def _has_kind3(x):
    """NumericRange or span query somewhere: simplify/estimate_size of these are not modelled"""
    return any(n != "null" and ((n[0] == "multi" and n[1] == "3") or n[0] == "opq") for n in G.walk(x))


def _compose_real(op, q, q2):
    from whoosh import query as Q
    if op == "and":
        return Q.And([q, q2])
    if op == "or":
        return Q.Or([q, q2])
    if op == "sub":
        return Q.And([q, Q.Not(q2)])
    return q


def _raised_in_matcher(tb):
    """the innermost whoosh frame of a traceback lies in the matcher/codec/span machinery"""
    last = None
    while tb is not None:
        fn = tb.tb_frame.f_code.co_filename.replace(os.sep, "/")
        if "/whoosh/" in fn:
            last = fn
        tb = tb.tb_next
    return last is not None and ("/whoosh/matching/" in last or "/whoosh/codec/" in last
                                 or last.endswith("/query/spans.py") or last.endswith("/whoosh/reading.py"))


def _try_docs(searcher, q):
    try:
        return G.docs_of(searcher, q), None
    except G.SearchTimeout:
        return None, "matcher:SearchTimeout"
    except Exception as e:  # noqa
        where = "matcher:" if _raised_in_matcher(e.__traceback__) else ""
        return None, where + _excname(e)


def _e2e_worker(job):
    seed, nq, prof = job
    rng = random.Random(seed)
    out = {"cases": [], "stats": {}, "div": [], "viol": [], "samples": [], "failing": []}

    def stat(k, c=1):
        out["stats"][k] = out["stats"].get(k, 0) + c
    docs = G.gen_docs(rng, prof)
    layout = G.gen_layout(rng, len(docs), prof)
    ix = G.build_index(docs, layout)
    live = set(range(len(docs))) - layout[1]
    stat("segments:%d" % min(len(layout[0]), 4))
    stat("deleted:%s" % bool(layout[1]))
    with ix.searcher() as s:
        reader = s.reader()
        items = []   # (name, qs, q2s, rewritten-s, expected real docs, observed real docs)
        trees = {}
        simp, ests = [], []
        parser = None
        for i in range(nq):
            if rng.random() < 0.2:
                # a tree as the query parser builds it (normalize=False), cf. QueryParser.parse
                if parser is None:
                    from whoosh.qparser import QueryParser
                    parser = QueryParser("f", ix.schema)
                text = G.gen_query_string(rng)
                try:
                    q = parser.parse(text, normalize=False)
                    stat("parsed")
                except Exception as e:  # noqa  (parser robustness is property C16)
                    stat("parse-raises:" + _excname(e))
                    continue
            else:
                q = G.gen_query(rng, rng.choice([1, 2, 2, 3, 3, 4]), prof)
            q2 = G.gen_query(rng, rng.choice([0, 1, 2]), prof)
            try:
                qs, q2s_ = G.q2s(q), G.q2s(q2)
            except G.Unserializable:
                stat("unserializable")
                continue
            dq, e1 = _try_docs(s, q)
            dq2, e2 = _try_docs(s, q2)
            if e1:
                stat("original-unsearchable:" + e1)
            if _nested_seq(qs):
                stat("nested-sequence:" + ("unsearchable" if dq is None else "matches-nothing" if not dq
                                            else "matches-all" if len(dq) == len(live) else "matches-some"))
            for name, fn, arg in _rewrites(rng, q, q2, reader) + [("simplify", lambda: q.simplify(reader), None)]:
                try:
                    res = fn()
                    rs = G.q2s(res)
                except G.Unserializable:
                    stat("rewritten-unserializable:" + name)
                    rs = None
                except Exception as e:  # noqa
                    out["viol"].append(("%s:raises:%s" % (name, _excname(e)),
                                        {"op": name, "q": qs, "q2": q2s_}, "a query", _excname(e), ""))
                    continue
                finally:
                    _reset_null()
                if name in ("and", "or", "sub"):
                    if dq is None or dq2 is None:
                        continue
                    a, b = set(dq), set(dq2)
                    exp = sorted(a & b if name == "and" else a | b if name == "or" else a - b)
                    dcomp = _try_docs(s, _compose_real(name, q, q2))[0]
                    if dcomp is None:
                        continue
                    if dcomp != exp:
                        # the un-normalized And/Or itself does not follow set algebra on this index: a
                        # matcher defect (property C01), nothing can be said about the rewrite
                        stat("matcher-combination-differs-from-set-algebra(C01)")
                        continue
                else:
                    if dq is None:
                        continue
                    exp = dq
                if name == "simplify" and rs is not None:
                    simp.append((qs, rs))
                obs, e3 = _try_docs(s, res)
                if e3 and e3.startswith("matcher:"):
                    # e.g. AndNotMatcher reading an exhausted matcher: property C11, not a rewrite defect
                    stat("rewritten-search-raises-in-" + e3)
                    continue
                if e3:
                    out["failing"].append({"sig": "%s:rewritten-query-unsearchable:%s" % (name, e3), "op": name,
                                           "q": qs, "q2": q2s_, "expected": exp, "observed": e3})
                    continue
                items.append((name, qs, q2s_, rs, exp, obs))
                for t in (qs, q2s_, rs):
                    if t is not None and t not in trees:
                        trees[t] = G.parse1(t)
            # queries that compare equal match the same documents
            if dq is not None:
                for _ in range(3):
                    try:
                        m = G.mutate_sx(rng, G.parse1(qs))
                        qm = G.s2q(m) if m is not None else None
                        if qm is None or G.has_empty_compound(m) or not (q == qm):
                            continue
                        qms = G.q2s(qm)
                    except G.Unserializable:
                        continue
                    stat("eq:equal-pair-searched")
                    dm, em = _try_docs(s, qm)
                    out["cases"].append((("eq-e2e", qs, qms, seed), qms != qs and 0 < len(dq) < len(live)))
                    if em is None and dm != dq:
                        out["failing"].append({"sig": "__eq__:equal-queries-match-different-documents", "op": "eq",
                                               "q": qs, "q2": qms, "expected": dq, "observed": dm,
                                               "case": {"docs": docs, "layout": [layout[0], sorted(layout[1])]}})
            # estimate_size >= number of matching documents
            if dq is not None:
                try:
                    est = q.estimate_size(reader)
                    stat("estimate:checked")
                    ests.append((qs, str(est)))
                    if est < len(dq):
                        out["failing"].append({"sig": "estimate_size:below-true-count", "op": "estimate", "q": qs,
                                               "q2": "null", "expected": len(dq), "observed": est})
                except ValueError:
                    stat("estimate:raises:ValueError")
                    ests.append((qs, "err"))
                except Exception as e:  # noqa
                    stat("estimate:raises:" + _excname(e))
        mrows, srows, orows, bad = _collect_rows(trees.values(), s, docs, live)
        env = G.env_text(docs, live, mrows, srows, orows)
        order = [t for t in trees if not any(G.unparse(n[:5]) in bad for n in G.walk(trees[t])
                                               if n != "null" and n[0] in ("seq", "multi", "opq"))]
        if len(order) < len(trees):
            stat("spec-skipped:unsearchable-sequence-or-ambiguous-fuzzy(C19)", len(trees) - len(order))
        rtxt = _reader_text(reader, docs, live)
        simp = [(a, b) for a, b in simp if not _has_kind3(trees[a]) and a in order]
        ests = [(a, b) for a, b in ests if a in trees and a in order and not _has_kind3(trees[a])]
        if layout[1]:
            stat("corr:estimate:index-with-deletions", len(ests))
        replies = Driver().ask(["c15 answers %s (%s)" % (env, " ".join(order)),
                                "c15 simplify %s %s (%s)" % (env, rtxt, " ".join(a for a, _ in simp)),
                                "c15 estimate %s %s (%s)" % (env, rtxt, " ".join(a for a, _ in ests))])
        ans = replies[0]
        for (qs_, real), model in zip(simp, parse_sexp(replies[1])[0]):
            model = G.unparse(model)
            out["cases"].append((("simplify-corr", qs_, seed), model != qs_))
            stat("corr:simplify")
            if model != real:
                out["div"].append(("query.simplify", {"op": "simplify", "q": qs_, "docs": docs,
                                                      "layout": [layout[0], sorted(layout[1])]}, model, real))
        for (qs_, real), model in zip(ests, parse_sexp(replies[2])[0]):
            out["cases"].append((("estimate-corr", qs_, seed), model not in ("0", "err")))
            stat("corr:estimate")
            if model != real:
                out["div"].append(("query.estimate_size", {"op": "estimate", "q": qs_, "docs": docs,
                                                           "layout": [layout[0], sorted(layout[1])]}, model, real))
        spec = {}
        for t, a in zip(order, parse_sexp(ans)[0]):
            spec[t] = sorted(int(v) for v in a)
        if G.LEAKS["deleted"]:
            stat("search-yields-deleted-document(C01)", G.LEAKS["deleted"])
            G.LEAKS["deleted"] = 0
        oset = set(order)
        items = [it for it in items if it[0] != "simplify" or it[1] in oset]
        casemeta = {"docs": docs, "layout": [layout[0], sorted(layout[1])]}
        has_empty = any(d.get("k") == "" and i in live for i, d in enumerate(docs))
        for name, qs, q2s_, rs, exp, obs in items:
            nontriv = (rs is not None and rs != qs) and 0 < len(exp) < len(live)
            out["cases"].append(((name, qs, q2s_ if name in ("and", "or", "sub") else "", seed), nontriv))
            stat("e2e:" + name)
            # the property itself: same documents before and after
            if obs != exp:
                out["failing"].append({"sig": None, "op": name, "q": qs, "q2": q2s_, "expected": exp,
                                       "observed": obs, "rewritten": rs, "case": casemeta})
            # oracle: the Lean spec on the original and on the rewritten tree
            perseg = len(layout[0]) > 1 and ("(otherwise " in qs or (name in ("and", "or", "sub")
                                                                     and "(otherwise " in q2s_))
            if perseg:
                stat("spec-skipped:Otherwise-is-decided-per-segment")
            if not perseg and qs in spec and (name not in ("and", "or", "sub") or q2s_ in spec):
                if name in ("and", "or", "sub"):
                    a, b = set(spec[qs]), set(spec[q2s_])
                    sexp_ = sorted(a & b if name == "and" else a | b if name == "or" else a - b)
                else:
                    sexp_ = spec[qs]
                if sexp_ != exp:
                    stat("search-differs-from-spec:original")
                    if len(out["samples"]) < 3:
                        out["samples"].append({"spec-vs-search": qs, "q2": q2s_, "op": name, "spec": sexp_,
                                               "search": exp, "docs": docs, "layout": casemeta["layout"]})
                if rs is not None and rs in spec:
                    if has_empty:
                        stat("spec-oracle-on-index-with-the-empty-term")
                    if spec[rs] != sexp_ and obs == exp:
                        # the rewrite changed the meaning (per spec) although the searches agree
                        out["failing"].append({"sig": None, "op": name, "q": qs, "q2": q2s_, "expected": sexp_,
                                               "observed": spec[rs], "rewritten": rs, "case": casemeta,
                                               "by": "spec"})
                    if spec[rs] != obs:
                        stat("search-differs-from-spec:rewritten")
    return out


# ------------------------------------------------------------------------------------------------
# stream 3: nested queries (query/nested.py) on grouped indexes; real code only: the rewrites must not
# raise, must keep the match set and must keep every constructor argument

def _nested_params(x):
    """(tag, constructor arguments other than the two subqueries) of every nested node, in preorder"""
    return [(n[0],) + tuple(n[3:]) for n in G.walk(x) if n != "null" and n[0] in ("nestedparent", "nestedchildren")]


NEST_WORDS = G.ALPHA[:6]
NEST_TIMEOUT = 1.5    # seconds for one search of a few dozen documents (a hanging matcher combination is counted)
_EQ_NESTED_SIG = "nested:__eq__:equal-queries-match-different-documents"


def _nested_index(groups, segs):
    """RAM index of three-level document groups (kind g > p > c; g documents carry field v, p documents u,
    c documents t).  `groups`: one list of document dicts per start_group()/end_group(); `segs`: number of
    groups per commit(merge=False)."""
    from whoosh import fields
    from whoosh.analysis import SpaceSeparatedTokenizer
    from whoosh.filedb.filestore import RamStorage
    schema = fields.Schema(id=fields.STORED, kind=fields.ID,
                           t=fields.TEXT(analyzer=SpaceSeparatedTokenizer(), phrase=True),
                           u=fields.TEXT(analyzer=SpaceSeparatedTokenizer(), phrase=True),
                           v=fields.TEXT(analyzer=SpaceSeparatedTokenizer(), phrase=True))
    G._IXCOUNT += 1
    ix = RamStorage().create_index(schema, indexname="c15n%dn%d" % (os.getpid(), G._IXCOUNT))
    it = iter(groups)
    for n in segs:
        w = ix.writer()
        for _ in range(n):
            w.start_group()
            for d in next(it):
                w.add_document(**dict((str(k), v) for k, v in d.items()))
            w.end_group()
        w.commit(merge=False)
    return ix


def _nested_groups(rng):
    def text():
        return u" ".join(rng.choice(NEST_WORDS) for _ in range(rng.randint(1, 3)))
    groups, segs, n = [], [], 0
    for _ in range(rng.choice([1, 1, 2])):
        ng = rng.randint(1, 3)
        segs.append(ng)
        for _ in range(ng):
            grp = [{"id": n, "kind": u"g", "v": text()}]
            n += 1
            for _ in range(rng.randint(1, 2)):
                grp.append({"id": n, "kind": u"p", "u": text()})
                n += 1
                for _ in range(rng.randint(0, 3)):
                    grp.append({"id": n, "kind": u"c", "t": text()})
                    n += 1
            groups.append(grp)
    return groups, segs


def _nested_rewrite_table(q, q2, b, reader):
    return [
        ("normalize", lambda: q.normalize()), ("boost", lambda: q.with_boost(b)),
        ("replace", lambda: q.replace("t", ABSENT, u"a")), ("accept", lambda: q.accept(lambda x: x)),
        ("apply", lambda: q.apply(lambda x: x)), ("copy", lambda: copy.deepcopy(q)),
        ("pickle", lambda: pickle.loads(pickle.dumps(q, 2))), ("simplify", lambda: q.simplify(reader)),
        ("and", lambda: q & q2), ("or", lambda: q | q2), ("sub", lambda: q - q2)]


def _nested_judge(s, name, fn, q, q2, qs, dq, dq2):
    """one rewrite of a tree with nested nodes on one searcher -> (verdict, signature, expected, observed,
    rewritten text); verdict: "ok" | "skip" (signature = reason, not judged) | "viol" """
    try:
        res = fn()
        rs = G.q2s(res)
        obs = set(G.docs_of(s, res, NEST_TIMEOUT))
    except G.Unserializable:
        return "skip", "rewritten-unserializable:" + name, None, None, None
    except G.SearchTimeout:
        return "skip", "rewritten-search-hangs-in-matcher", None, None, None
    except Exception as e:  # noqa
        if _raised_in_matcher(e.__traceback__):
            return "skip", "rewritten-search-raises-in-matcher:" + _excname(e), None, None, None
        return "viol", "nested:%s:raises:%s" % (name, _excname(e)), "a query", _excname(e), None
    finally:
        _reset_null()
    exp = dq & dq2 if name == "and" else dq | dq2 if name == "or" else dq - dq2 if name == "sub" else dq
    if name in ("and", "or", "sub"):
        try:
            dcomp = set(G.docs_of(s, _compose_real(name, q, q2), NEST_TIMEOUT))
        except (Exception, G.SearchTimeout):  # noqa
            dcomp = None
        if dcomp != exp:
            return "skip", "matcher-combination-differs-from-set-algebra(C01)", None, None, None
    if obs != exp:
        return "viol", "nested:%s:changes-matching-documents" % name, sorted(exp), sorted(obs), rs
    if name not in ("and", "or", "sub"):
        a, c = _nested_params(G.parse1(qs)), _nested_params(G.parse1(rs))
        if name in ("replace", "accept", "apply", "copy", "pickle"):
            lost = rs != qs
        else:
            lost = len(a) == len(c) and a != c
        if lost:
            return "viol", "nested:%s:constructor-argument-lost" % name, qs, rs, rs
    return "ok", None, sorted(exp), sorted(obs), rs


def _nested_eq_judge(s, q, q2):
    """two nested queries that compare equal (== or membership in a set, which is what the duplicate
    elimination of CompoundQuery.normalize asks) must match the same documents -> (verdict, expected, observed)"""
    try:
        same = bool(q == q2) or (q2 in {q})
    finally:
        _reset_null()
    if not same:
        return "unequal", None, None
    try:
        a, b = G.docs_of(s, q, NEST_TIMEOUT), G.docs_of(s, q2, NEST_TIMEOUT)
    except (Exception, G.SearchTimeout):  # noqa
        return "unsearchable", None, None
    finally:
        _reset_null()
    return ("viol" if a != b else "equal-same-documents"), a, b


def _nested_worker(job):
    seed, nq = job
    from whoosh import query as Q
    from whoosh.query import nested as NS
    rng = random.Random(seed)
    out = {"cases": [], "stats": {}, "div": [], "viol": [], "samples": [], "failing": []}

    def stat(k, c=1):
        out["stats"][k] = out["stats"].get(k, 0) + c
    groups, segs = _nested_groups(rng)
    ndocs = sum(len(g) for g in groups)
    ix = _nested_index(groups, segs)
    words = NEST_WORDS
    # the parent filters: each level of the hierarchy alone, both levels together
    PARENTS = {"p": lambda: Q.Term("kind", u"p"), "g": lambda: Q.Term("kind", u"g"),
               "gp": lambda: Q.Or([Q.Term("kind", u"g"), Q.Term("kind", u"p")])}

    def simple(fld):
        r = rng.random()
        if r < 0.5:
            return Q.Term(fld, rng.choice(words), boost=rng.choice(G.BOOSTS))
        if r < 0.7:
            return Q.Or([Q.Term(fld, rng.choice(words)), Q.Term(fld, rng.choice(words))])
        if r < 0.8:
            return Q.And([Q.Term(fld, rng.choice(words)), Q.Term(fld, rng.choice(words))])
        if r < 0.9:
            return Q.Prefix(fld, rng.choice(["a", "b", "c"]))
        return Q.Phrase(fld, [rng.choice(words), rng.choice(words)], slop=rng.randint(1, 2))

    def spec():
        """constructor arguments of one nested node; the sub-query is kept as text so that a near-duplicate gets
        an equal but distinct object"""
        if rng.random() < 0.55:
            pk = rng.choice(["p", "p", "g", "gp"])
            fld = "t" if pk != "g" else rng.choice("tu")
            return {"cls": "parent", "pk": pk, "fld": fld, "child": G.q2s(simple(fld)),
                    "limit": rng.choice([None, 1, 2]), "fn": rng.choice(["sum", "max"])}
        pk = rng.choice(["p", "p", "g", "gp"])
        fld = {"p": "u", "g": "v", "gp": rng.choice("uv")}[pk]
        return {"cls": "children", "pk": pk, "fld": fld, "child": G.q2s(simple(fld)), "boost": rng.choice(G.BOOSTS)}

    def build(sp):
        child = G.s2q(G.parse1(sp["child"]))
        if sp["cls"] == "parent":
            return NS.NestedParent(PARENTS[sp["pk"]](), child, per_parent_limit=sp["limit"],
                                   score_fn={"sum": sum, "max": max}[sp["fn"]])
        return NS.NestedChildren(PARENTS[sp["pk"]](), child, boost=sp["boost"])

    def neardup(sp):
        """the same node with exactly one constructor argument changed (mostly the parent filter: the same
        sub-query asked about another level of the hierarchy)"""
        sp2 = dict(sp)
        r = rng.random()
        if r < 0.6:
            sp2["pk"] = G._other(rng, sp["pk"], ["p", "g", "gp"])
            what = "parents"
        elif r < 0.8:
            if sp["cls"] == "parent":
                if rng.random() < 0.5:
                    sp2["limit"] = G._other(rng, sp["limit"], [None, 1, 2])
                    what = "per_parent_limit"
                else:
                    sp2["fn"] = G._other(rng, sp["fn"], ["sum", "max"])
                    what = "score_fn"
            else:
                sp2["boost"] = G._other(rng, sp["boost"], [1.0, 2.0, 0.5])
                what = "boost"
        else:
            for _ in range(5):
                sp2["child"] = G.q2s(simple(sp["fld"]))
                if sp2["child"] != sp["child"]:
                    break
            what = "subquery"
        return sp2, what

    def nested():
        sp = spec()
        return build(sp), sp["fld"]

    def wrapped():
        """(tree, second operand or None, description)"""
        sp = spec()
        x, fld = build(sp), sp["fld"]
        r = rng.randrange(16)
        other = Q.Term(rng.choice("tuv"), rng.choice(words))
        if r >= 9:
            # two clauses that wrap equal sub-queries and differ in one constructor argument (or in none)
            if rng.random() < 0.12:
                sp2, what = dict(sp), "nothing"
            else:
                sp2, what = neardup(sp)
            y = build(sp2)
            stat("near-duplicate-clauses:differ-in:" + what)
            if r == 9:
                return Q.Or([x, y]), None
            if r == 10:
                return Q.DisjunctionMax([y, x]), None
            if r == 11:
                return Q.Or([other, x, y], boost=rng.choice(G.BOOSTS)), None
            if r == 12:
                return Q.Or([Q.Or([x, other]), y]), None
            if r == 13:
                return Q.And([x, y]), None
            if r == 14:
                return Q.AndMaybe(Q.Or([x, y]), other), None
            return x, y                              # the operators x | y, x & y, x - y
        if r == 0:
            return x, None
        if r == 1:
            return Q.Or([x, other], boost=rng.choice(G.BOOSTS)), None
        if r == 2:
            return Q.Or([Q.Every(fld), x]), None       # field(): the nested query must not be absorbed
        if r == 3:
            return Q.And([x, Q.Term("kind", rng.choice([u"p", u"c", u"g"]))]), None
        if r == 4:
            return Q.Not(x), None
        if r == 5:
            return Q.AndNot(x, other), None
        if r == 6:
            return Q.Or([Q.Or([x, other], boost=2.0), nested()[0]]), None
        if r == 7:
            return Q.DisjunctionMax([other, x]), None
        return Q.AndMaybe(x, other), None
    # correspondence of the duplicate elimination for clause classes outside the Lean query model:
    # WM.NormalizeDedupe.dedupeBy on clause numbers, with the real membership test as a table
    reqs, meta = [], []
    for _ in range(nq):
        pool = []
        for _ in range(rng.randint(1, 3)):
            sp = spec()
            pool.append(lambda sp=sp: build(sp))
            for _ in range(rng.randint(0, 2)):
                sp2 = neardup(sp)[0] if rng.random() < 0.7 else dict(sp)
                pool.append(lambda sp2=sp2: build(sp2))
        for _ in range(rng.randint(0, 2)):
            tq = (rng.choice("tuv"), rng.choice(words[:3]))
            kind = rng.randrange(3)
            for bst in [rng.choice([1.0, 2.0]) for _ in range(rng.randint(1, 2))]:
                if kind == 0:
                    pool.append(lambda tq=tq, bst=bst: Q.Term(tq[0], tq[1], boost=bst))
                elif kind == 1:
                    pool.append(lambda tq=tq, bst=bst: Q.ConstantScoreQuery(Q.Term(tq[0], tq[1]), score=bst))
                else:
                    pool.append(lambda tq=tq: Q.Not(Q.Term(tq[0], tq[1])))
        rng.shuffle(pool)
        pool = pool[:6]
        cls = rng.choice([Q.Or, Q.And, Q.DisjunctionMax])
        try:
            clauses = [mk() for mk in pool]
            subs_n = [mk().normalize() for mk in pool]
            if any(x is Q.NullQuery for x in subs_n):
                stat("dedupeby:skipped-null-clause")
                continue
            pairs = [(i, j) for i in range(len(subs_n)) for j in range(len(subs_n))
                     if i != j and subs_n[i] in {subs_n[j]}]
            r = cls(clauses).normalize()
            texts = [G.q2s(x) for x in subs_n]
            if isinstance(r, cls):
                real = [G.q2s(x) for x in r.subqueries]
            else:
                # one clause left: the compound is unwrapped, `sub.with_boost(sub.boost * boost)` unless both
                # boosts are 1 (a later step; the clause is recognised up to that re-boosting)
                rs1 = G.q2s(r)
                real = [([t for x, t in zip(subs_n, texts)
                          if t == rs1 or (getattr(x, "boost", 1.0) != 1.0
                                          and G.q2s(x.with_boost(x.boost)) == rs1)] + [rs1])[0]]
            case = {"op": "dedupeby", "q": G.q2s(cls(clauses)), "stream": "nested-dedupe"}
        except G.Unserializable:
            stat("dedupeby:unserializable")
            continue
        finally:
            _reset_null()
        reqs.append("c15 dedupeby %d (%s)" % (len(subs_n), " ".join("(%d %d)" % pr for pr in pairs)))
        meta.append((case, texts, real, len(pairs)))
    for (case, texts, real, npairs), ans in zip(meta, Driver().ask(reqs) if reqs else []):
        try:
            if not (ans.startswith("(") and ans.endswith(")")):
                raise ValueError(ans)
            kept = [int(a) for a in ans[1:-1].split()]
            model = [texts[i] for i in kept]
        except Exception:  # noqa
            model = ans
        stat("dedupeby:clauses-dropped:%d" % (len(texts) - len(real)))
        out["cases"].append((("nested", "dedupeby", case["q"], seed), npairs > 0 and len(real) < len(texts)))
        if model != real:
            out["div"].append(("CompoundQuery.normalize:duplicate-elimination", case, model, real))
    # correspondence of NestedParent.normalize with WM.NormalizeNested.NParent.normalize: random model trees
    # as parent filter and wrapped query (NullQuery and empty compounds included)
    nreqs, nmeta = [], []
    for i in range(nq):
        prof = PROFILES[i % 2]
        try:
            pq, cq = G.gen_query(rng, rng.choice([0, 1, 2]), prof), G.gen_query(rng, rng.choice([1, 2, 2, 3]), prof)
            ps_, cs_ = G.q2s(pq), G.q2s(cq)
            lim, fn = rng.choice([None, 1, 2]), rng.choice([sum, max])
            r = NS.NestedParent(pq, cq, per_parent_limit=lim, score_fn=fn).normalize()
            if r is Q.NullQuery:
                real = "null"
            elif type(r) is NS.NestedParent and r.per_parent_limit == lim and r.score_fn is fn:
                real = "(%s %s)" % (G.q2s(r.parents), G.q2s(r.child))
            else:
                real = "lost-a-constructor-argument:" + repr(r)
        except G.Unserializable:
            stat("nparentnorm:unserializable")
            continue
        except Exception as e:  # noqa
            real = "raises:" + _excname(e)
        finally:
            _reset_null()
        nreqs.append("c15 nparentnorm %s %s" % (ps_, cs_))
        nmeta.append(({"op": "nparentnorm", "q": cs_, "q2": ps_, "stream": "nested-normalize"}, real))
    for (case, real), ans in zip(nmeta, Driver().ask(nreqs) if nreqs else []):
        stat("nparentnorm:" + ("null" if real == "null" else "changed" if real != "(%s %s)" % (case["q2"], case["q"])
                               else "unchanged"))
        out["cases"].append((("nested", "nparentnorm", case["q2"], case["q"]),
                             real != "(%s %s)" % (case["q2"], case["q"])))
        if ans != real:
            out["div"].append(("NestedParent.normalize", case, ans, real))
    with ix.searcher() as s:
        reader = s.reader()
        # end to end with the Lean reading of NestedParent as oracle (WM.NormalizeNested.parentAnswer on the
        # segments of this index): the query and its normalize() must return the parent documents of the spec
        flat = [d for grp in groups for d in grp]
        dtxt = []
        for d in flat:
            toks = [(G.FIELDS["kind"], [d["kind"]])] + [(G.FIELDS[f], d[f].split()) for f in "tuv" if d.get(f)]
            dtxt.append("(%d %s)" % (d["id"], " ".join("(%d %s)" % (f, " ".join(G.t2s(t) for t in ts))
                                                      for f, ts in toks)))
        env = "(env (docs %s) (multi ) (seq ) (opq ))" % " ".join(dtxt)
        seglens, gi = [], 0
        for n in segs:
            seglens.append(sum(len(g) for g in groups[gi:gi + n]))
            gi += n
        sreqs, smeta = [], []
        for _ in range(nq):
            pk = rng.choice(["p", "p", "g", "gp"])
            fld = "t" if pk != "g" else rng.choice("tu")
            c = simple(fld)
            v = rng.randrange(7)
            cq = (c if v == 0 else Q.Or([c, copy.deepcopy(c)]) if v == 1 else Q.Or([c, simple(fld)]) if v == 2
                  else Q.Or([c], boost=2.0) if v == 3 else Q.Or([c, Q.NullQuery]) if v == 4
                  else Q.Or([]) if v == 5 else Q.And([Q.Every(), c]))
            pq = PARENTS[pk]() if rng.random() < 0.7 else Q.Or([PARENTS[pk](), PARENTS[pk]()], boost=2.0)
            nq_ = NS.NestedParent(pq, cq, per_parent_limit=rng.choice([None, 1, 2]))
            try:
                ps_, cs_ = G.q2s(pq), G.q2s(cq)
                d0 = G.docs_of(s, nq_, NEST_TIMEOUT)
                d1 = G.docs_of(s, nq_.normalize(), NEST_TIMEOUT)
            except (Exception, G.SearchTimeout) as e:  # noqa
                stat("nparentanswer:unsearchable:" + _excname(e))
                continue
            finally:
                _reset_null()
            sreqs.append("c15 nparentanswer %s (%s) %s %s" % (env, " ".join(map(str, seglens)), ps_, cs_))
            smeta.append(({"op": "normalize", "q": G.q2s(nq_), "q2": "null", "groups": groups, "segs": segs,
                           "stream": "nested"}, d0, d1))
        for (case, d0, d1), ans in zip(smeta, Driver().ask(sreqs) if sreqs else []):
            try:
                spec_ = sorted(int(a) for a in ans[1:-1].split()) if ans.startswith("(") else ans
            except ValueError:
                spec_ = ans
            stat("nparentanswer:" + ("empty" if not d0 else "some"))
            out["cases"].append((("nested", "nparentanswer", case["q"], seed), bool(d0) and len(d0) < ndocs))
            if spec_ != d0:
                out["div"].append(("NestedParent.matcher<->WM.NormalizeNested.parentAnswer", case, spec_, d0))
            elif spec_ != d1:
                out["viol"].append(("nested:normalize:changes-matching-documents", case, spec_, d1,
                                    "NestedParent.normalize() returns other parent documents than the Lean "
                                    "reading of the original query"))
        # equality of nested queries: a node and its near-duplicate / an equal copy
        for _ in range(nq):
            sp = spec()
            sp2, what = neardup(sp) if rng.random() < 0.85 else (dict(sp), "nothing")
            a, b_ = build(sp), build(sp2)
            verdict, exp, obs = _nested_eq_judge(s, a, b_)
            stat("eq:%s:differ-in:%s" % (verdict, what))
            as_, bs_ = G.q2s(a), G.q2s(b_)
            out["cases"].append((("nested", "eq", as_, bs_, seed), what == "parents" and exp != [] and as_ != bs_))
            if verdict == "viol":
                out["viol"].append((_EQ_NESTED_SIG, {"op": "eq", "q": as_, "q2": bs_, "groups": groups, "segs": segs,
                                                     "stream": "nested"}, exp, obs,
                                    "two nested queries that compare equal (== / membership in a set) match "
                                    "different documents"))
        for _ in range(nq):
            q, q2 = wrapped()
            if q2 is None:
                q2 = rng.choice([Q.Term("kind", u"c"), Q.Term("t", rng.choice(words)), Q.Term("u", rng.choice(words))])
            else:
                stat("operands-are-near-duplicate-nested-queries")
            qs, q2s_ = G.q2s(q), G.q2s(q2)
            try:
                dq, dq2 = set(G.docs_of(s, q, NEST_TIMEOUT)), set(G.docs_of(s, q2, NEST_TIMEOUT))
            except (Exception, G.SearchTimeout) as e:  # noqa
                stat("original-unsearchable:" + _excname(e))
                continue
            b = rng.choice([2.0, 0.5, 4.0])
            for name, fn in _nested_rewrite_table(q, q2, b, reader):
                case = {"op": name, "q": qs, "q2": q2s_, "groups": groups, "segs": segs, "b": b, "stream": "nested"}
                verdict, sig, exp, obs, rs = _nested_judge(s, name, fn, q, q2, qs, dq, dq2)
                if verdict == "skip":
                    stat(sig)
                    continue
                if verdict == "viol":
                    desc = {"changes-matching-documents": "docs_for_query differs between the query and its rewrite",
                            "constructor-argument-lost": "a constructor argument of a nested query did not survive "
                                                         "the rewrite"}.get(sig.rsplit(":", 1)[-1],
                                                                            "rewriting a tree with a NestedParent/"
                                                                            "NestedChildren node raised")
                    out["viol"].append((sig, dict(case, rewritten=rs) if rs else case, exp, obs, desc))
                    if sig.endswith(":raises:" + str(obs)):
                        continue
                out["cases"].append((("nested", name, qs, q2s_, seed), rs != qs and 0 < len(exp) < ndocs))
                stat("nested:" + name)
                if len(_nested_params(G.parse1(qs))) > len(_nested_params(G.parse1(rs))) and name == "normalize":
                    stat("normalize-removed-a-nested-clause")
            try:
                est = q.estimate_size(reader)
                stat("nested:estimate")
                if est < len(dq):
                    out["viol"].append(("nested:estimate_size:below-true-count",
                                        {"op": "estimate", "q": qs, "groups": groups, "segs": segs, "stream": "nested"},
                                        len(dq), est, "estimate_size() below the number of matching documents"))
            except Exception as e:  # noqa
                stat("nested:estimate-raises:" + _excname(e))
    return out


def _run_nested_record(case):
    """re-execute one stored case of the nested stream -> (failed, signature, expected, observed)"""
    op = case["op"]
    try:
        q, q2 = G.s2q(G.parse1(case["q"])), G.s2q(G.parse1(case.get("q2", "null")))
        ix = _nested_index(case["groups"], case["segs"])
    finally:
        _reset_null()
    with ix.searcher() as s:
        if op == "eq":
            verdict, exp, obs = _nested_eq_judge(s, q, q2)
            return verdict == "viol", _EQ_NESTED_SIG, exp, obs
        if op == "estimate":
            dq = G.docs_of(s, q, NEST_TIMEOUT)
            est = q.estimate_size(s.reader())
            return est < len(dq), "nested:estimate_size:below-true-count", len(dq), est
        dq, dq2 = set(G.docs_of(s, q, NEST_TIMEOUT)), set(G.docs_of(s, q2, NEST_TIMEOUT))
        table = dict(_nested_rewrite_table(q, q2, case.get("b", 2.0), s.reader()))
        verdict, sig, exp, obs, _ = _nested_judge(s, op, table[op], q, q2, case["q"], dq, dq2)
        return verdict == "viol", sig, exp, obs


# ------------------------------------------------------------------------------------------------
# classification and shrinking of failing end-to-end cases

EVAL_ERRORS = []


def _eval_case(op, qx, q2x, docs, layout):
    """Re-run one (op, tree) on a fresh index; returns (expected, observed, rewritten) of the real code or
    None if it cannot be evaluated."""
    q, q2 = G.s2q(qx), G.s2q(q2x)
    ix = G.build_index(docs, (layout[0], set(layout[1])))
    with ix.searcher() as s:
        reader = s.reader()
        rng = random.Random(0)
        table = {n: (fn, arg) for n, fn, arg in _rewrites(rng, q, q2, reader)}
        table["simplify"] = (lambda: q.simplify(reader), None)
        if op == "replace":
            table["replace"] = (lambda: q.replace("f", ABSENT, u"a"), "f")
        if op == "boost":
            table["boost"] = (lambda: q.with_boost(2.0), 2.0)
        try:
            dq = G.docs_of(s, q)
            if op in ("and", "or", "sub"):
                dq2 = G.docs_of(s, q2)
                a, b = set(dq), set(dq2)
                exp = sorted(a & b if op == "and" else a | b if op == "or" else a - b)
                if G.docs_of(s, _compose_real(op, q, q2)) != exp:
                    return None   # matcher defect on the un-normalized tree (see _e2e_worker)
            else:
                exp = dq
            res = table[op][0]()
            obs = G.docs_of(s, res)
            return exp, obs, G.q2s(res)
        except Exception as e:  # noqa
            EVAL_ERRORS.append("%s: %s" % (_excname(e), str(e)[:200]))
            return None
        finally:
            _reset_null()


def _eval_case_spec(op, qx, q2x, docs, layout):
    """Like _eval_case, but `expected`/`observed` are what the Lean spec says about the original and
    about the (real) rewritten tree."""
    q, q2 = G.s2q(qx), G.s2q(q2x)
    ix = G.build_index(docs, (layout[0], set(layout[1])))
    live = set(range(len(docs))) - set(layout[1])
    with ix.searcher() as s:
        reader = s.reader()
        table = {n: (fn, arg) for n, fn, arg in _rewrites(random.Random(0), q, q2, reader)}
        table["simplify"] = (lambda: q.simplify(reader), None)
        if op == "replace":
            table["replace"] = (lambda: q.replace("f", ABSENT, u"a"), "f")
        if op == "boost":
            table["boost"] = (lambda: q.with_boost(2.0), 2.0)
        try:
            res = table[op][0]()
            rs = G.q2s(res)
            trees = [qx, q2x, G.parse1(rs)]
            mrows, srows, orows, bad = _collect_rows(trees, s, docs, live)
            if bad:
                return None
            env = G.env_text(docs, live, mrows, srows, orows)
            ans = Driver().ask(["c15 answers %s (%s %s %s)" % (env, G.unparse(qx), G.unparse(q2x), rs)])[0]
            a, b, c = [sorted(int(v) for v in x) for x in parse_sexp(ans)[0]]
            if op in ("and", "or", "sub"):
                sa, sb = set(a), set(b)
                exp = sorted(sa & sb if op == "and" else sa | sb if op == "or" else sa - sb)
            else:
                exp = a
            return exp, c, rs
        except Exception:  # noqa
            return None
        finally:
            _reset_null()


def _shrink(fail):
    """Greedy delta-debugging on the query tree(s) and the documents; keeps `expected != observed`
    (of the searches, or of the Lean spec for failures found by the spec only)."""
    op = fail["op"]
    ev = _eval_case_spec if fail.get("by") == "spec" else _eval_case
    qx, q2x = G.parse1(fail["q"]), G.parse1(fail["q2"])
    docs = [dict(d) for d in fail["case"]["docs"]]
    layout = fail["case"]["layout"]

    def bad(qx_, q2x_, docs_, layout_):
        r = ev(op, qx_, q2x_, docs_, layout_)
        return r is not None and r[0] != r[1]
    if not bad(qx, q2x, docs, layout):
        return None
    budget = [400 if ev is _eval_case else 150]

    def shrink_docs():
        nonlocal docs, layout
        changed = False
        # single segment without deletions first; then drop documents one by one
        if layout != [[len(docs)], []] and bad(qx, q2x, docs, [[len(docs)], []]):
            layout = [[len(docs)], []]
            changed = True
        if layout[1] == [] and len(layout[0]) == 1:
            i = 0
            while i < len(docs):
                cand = docs[:i] + docs[i + 1:]
                if cand and bad(qx, q2x, cand, [[len(cand)], []]):
                    docs = cand
                    layout = [[len(cand)], []]
                    changed = True
                else:
                    i += 1
        return changed

    def shrink_tree():
        nonlocal qx, q2x
        changed = False
        progress = True
        while progress and budget[0] > 0:
            progress = False
            for cand in G.shrink_candidates(qx):
                budget[0] -= 1
                if budget[0] <= 0:
                    break
                if bad(cand, q2x, docs, layout):
                    qx = cand
                    progress = changed = True
                    break
            if op in ("and", "or", "sub") and not progress:
                for cand in G.shrink_candidates(q2x):
                    budget[0] -= 1
                    if budget[0] <= 0:
                        break
                    if bad(qx, cand, docs, layout):
                        q2x = cand
                        progress = changed = True
                        break
        return changed
    shrink_docs()
    for _ in range(3):
        if not shrink_tree():
            break
        if not shrink_docs():
            break
    r = ev(op, qx, q2x, docs, layout)
    small = {"op": op, "q": G.unparse(qx), "q2": G.unparse(q2x), "docs": docs, "layout": layout,
             "expected": r[0], "observed": r[1], "rewritten": r[2], "by": fail.get("by", "search")}
    if "(opq " in small["q"] or "(opq " in (small["rewritten"] or ""):
        small["readable"] = {"q": G.pretty(small["q"]), "rewritten": G.pretty(small["rewritten"] or "")}
    if EVAL_ERRORS:
        small["evaluation_errors_while_shrinking"] = sorted(set(EVAL_ERRORS))[:5]
        del EVAL_ERRORS[:]
    return small


def _focus_worker(job):
    """A divergence names a tree on which model and code disagree: look for an index on which the
    disagreement changes the answer."""
    op, qs, q2s_, seed = job
    rng = random.Random(seed)
    qx, q2x = G.parse1(qs), G.parse1(q2s_)
    for _ in range(4):
        docs = G.gen_docs(rng, {"maxdocs": 12})
        layout = [[len(docs)], []]
        r = _eval_case(op, qx, q2x, docs, layout)
        if r is not None and r[0] != r[1]:
            return {"sig": None, "op": op, "q": qs, "q2": q2s_, "expected": r[0], "observed": r[1],
                    "rewritten": r[2], "case": {"docs": docs, "layout": layout}}
    return None


def _pretag(fail):
    """defect clauses of the unshrunk failing case (cheap; used to group the cases)"""
    try:
        small = {"op": fail["op"], "q": fail["q"], "q2": fail["q2"], "docs": fail["case"]["docs"],
                 "layout": fail["case"]["layout"]}
        tags = _tags_of(Driver(), small)
        return tuple(tags) if tags is not None else ("?",)
    except Exception:  # noqa
        return ("?",)


def _shrink_classify(fail):
    try:
        small = _shrink(fail)
        if small is None:
            return None
        return _classify(Driver(), small), small
    except Exception as e:  # noqa
        return "harness-error:%s" % _excname(e), {"op": fail["op"], "q": fail["q"], "q2": fail["q2"],
                                                   "error": traceback.format_exc()[-600:]}


def _composed(op, qs, q2s_):
    """the tree whose normalize() the operator computes"""
    if op == "and":
        return "(and (%s %s) 1)" % (qs, q2s_)
    if op == "or":
        return "(or (%s %s) 1)" % (qs, q2s_)
    if op == "sub":
        return "(and (%s (not %s 1)) 1)" % (qs, q2s_)
    return qs


def _odd_terms(docs):
    kinds = set()
    for d in docs:
        k = d.get("k")
        if k == "":
            kinds.add("empty-term")
        elif k is not None and k >= u"\uffff":
            kinds.add("term-at-or-above-U+FFFF")
    return sorted(kinds)


SIGNATURES = {
    "and-null": "CompoundQuery.normalize:And-drops-NullQuery-clause",
    "not-null": "Not.normalize:Not-of-NullQuery-becomes-NullQuery",
    "and-every-field": "CompoundQuery.normalize:And-drops-clause-next-to-Every(field)",
    "and-range-overlap": "CompoundQuery.normalize:And-merges-overlapping-TermRanges",
    "seq-child": "Sequence.normalize:rewritten-subquery-changes-the-sequence",
    # only on an index that holds the empty term (the tag is dropped otherwise, see _tags_of)
    "open-excl-start": "TermRange.normalize/merge:exclusive-open-start-forgets-to-exclude-the-empty-term",
}


def _tags_of(driver, small):
    """defect clauses (WM.Clean) of the tree that the failing operation hands to normalize()"""
    op = small["op"]
    if op == "simplify":
        docs, layout = small["docs"], small["layout"]
        ix = G.build_index(docs, (layout[0], set(layout[1])))
        live = set(range(len(docs))) - set(layout[1])
        with ix.searcher() as s:
            reader = s.reader()

            def nr(x):
                # NumericRange.simplify compiles the range (property C13, not modelled); an empty
                # range compiles to NullQuery, which is what the enclosing normalize() then sees
                if x != "null" and x[0] == "multi" and x[1] == "3":
                    from whoosh.query import qcore
                    if isinstance(G.s2q(x).simplify(reader), qcore._NullQuery):
                        return "null"
                    return x
                if isinstance(x, str):
                    return x
                cs = G.children(x)
                return G.with_children(x, [nr(c) for c in cs]) if cs else x
            tree = nr(G.parse1(small["q"]))
            mrows, srows, orows, _ = _collect_rows([tree], s, docs, live)
            env = G.env_text(docs, live, mrows, srows, orows)
            rtxt = _reader_text(reader, docs, live)
        ans = driver.ask(["c15 sdefects %s %s %s" % (env, rtxt, G.unparse(tree))])[0]
    elif op in ("normalize", "and", "or", "sub"):
        ans = driver.ask(["c15 defects %s" % _composed(op, small["q"], small["q2"])])[0]
    else:
        return None
    parsed = parse_sexp(ans)
    tags, clean = sorted(set(parsed[0])), parsed[1]
    if (clean == "1") != (not tags):
        raise RuntimeError("WM.Clean.clean and WM.Clean.defects disagree on %r" % (small,))
    if "open-excl-start" in tags and not any(d.get("k") == "" for d in small["docs"]):
        # WM.Clean.emptyOk only matters on an index that holds the empty term (hypothesis EOk)
        tags.remove("open-excl-start")
    return tags


def _classify(driver, small):
    """signature of a minimised failing case: the single defect clause of WM.Clean its tree violates
    (or the odd-term class of its documents when the tree is clean); anything else stays
    unclassified and is therefore reported as a new violation."""
    op = small["op"]
    tags = _tags_of(driver, small)
    if tags is None:
        return "%s:changes-matching-documents" % op
    if len(tags) == 1 and tags[0] in SIGNATURES:
        return SIGNATURES[tags[0]]
    if tags == ["and-null", "not-null"]:
        # `x - Not(NullQuery)` = And([x, Not(Not(NullQuery))]): both Null rules are needed
        return SIGNATURES["not-null"] + "+" + SIGNATURES["and-null"]
    if len(tags) > 1 and all(t in SIGNATURES for t in tags) and op in ("normalize", "and", "or", "sub"):
        # the minimised tree still violates several recorded clauses at once.  It is attributed to them
        # only if the real rewritten tree is exactly what the model computes: then no unmodelled
        # behaviour is involved, and the model changes the meaning of unclean trees only
        # (WM.C15.normalize_sat_partial), for which every clause is a recorded finding.
        req = ("c15 norm %s" % small["q"]) if op == "normalize" else ("c15 op %s %s %s" % (op, small["q"], small["q2"]))
        if driver.ask([req])[0] == small.get("rewritten"):
            return "CompoundQuery.normalize:several-recorded-defects-in-one-tree"
    if not tags:
        # a tree inside the theorem's hypotheses clean/emptyOk: only Doc.BelowMax is left to fail
        if _odd_terms(small["docs"]) == ["term-at-or-above-U+FFFF"]:
            return "TermRange/Wildcard.normalize:term-at-or-above-U+FFFF"
        return "%s:changes-matching-documents-of-a-clean-tree" % op
    return "%s:unclassified:%s" % (op, "+".join(tags))


# ------------------------------------------------------------------------------------------------
# a rewrite whose result differs from the model's tree: is it the same query for every search?

def _scored(searcher, q):
    with G.deadline(G.SEARCH_TIMEOUT):
        return sorted((hit["id"], hit.score) for hit in searcher.search(q, limit=None))


def _equiv_worker(job):
    """(model tree, real tree, seed) -> True iff the two trees, as real queries, return the same documents
    with the same scores on a series of generated indexes (small and larger, several segments,
    deletions) and at least four of the searches could be carried out."""
    mtxt, rtxt, seed = job
    try:
        qm, qr = G.s2q(G.parse1(mtxt)), G.s2q(G.parse1(rtxt))
    except Exception:  # noqa
        return False
    rng = random.Random(seed)
    done = 0
    for i in range(10):
        docs = G.gen_docs(rng, {"maxdocs": 9 if i < 6 else 40, "odd": 0.15 if i % 3 == 2 else 0.0})
        layout = G.gen_layout(rng, len(docs), {})
        ix = G.build_index(docs, layout)
        with ix.searcher() as s:
            try:
                a = _scored(s, qm)
            except (Exception, G.SearchTimeout) as e:  # noqa
                a = _excname(e)
            try:
                b = _scored(s, qr)
            except (Exception, G.SearchTimeout) as e:  # noqa
                b = _excname(e)
            finally:
                _reset_null()
        if isinstance(a, str) or isinstance(b, str):
            if a != b:
                return False
            continue
        if [d for d, _ in a] != [d for d, _ in b]:
            return False
        for (_, x), (_, y) in zip(a, b):
            if abs(x - y) > 1e-9 * max(1.0, abs(x), abs(y)):
                return False
        done += 1
    return done >= 4


_TREE_OPS = ("normalize", "normalize2", "and", "or", "sub", "boost", "replace", "accept", "apply", "simplify")


def _resolve_divergences(ctx, divs):
    """The correspondence compares the rewritten trees node for node.  Where the real tree differs from
    the model's, the two are compared as queries (same documents, same scores on generated indexes):
    an equivalent result is recorded as a note (the theorems speak about the model's tree; the code's
    tree is observably the same query), anything else is a divergence."""
    jobs, idx = [], []
    for i, (comp, case, model, impl) in enumerate(divs):
        if (isinstance(case, dict) and case.get("op") in _TREE_OPS and isinstance(model, str)
                and isinstance(impl, str) and not model.startswith("raises:") and not impl.startswith("raises:")
                and model != "bad-op"):
            jobs.append((model, impl, "%s:%d" % (ctx.seed, i)))
            idx.append(i)
    verdict = {}
    if jobs:
        for i, ok in zip(idx, ctx.pmap(_equiv_worker, jobs[:400])):
            verdict[i] = ok
    noted = set()
    for i, (comp, case, model, impl) in enumerate(divs):
        if verdict.get(i):
            ctx.stat("corr:tree-differs-from-model-but-equivalent-query:" + case["op"])
            if case["op"] not in noted and len(noted) < 6:
                noted.add(case["op"])
                ctx.note("%s: the real result differs from the model's tree but returns the same documents with the "
                         "same scores on generated indexes, e.g. %s -> model %s, code %s"
                         % (case["op"], G.pretty(case["q"])[:300], G.pretty(model)[:300], G.pretty(impl)[:300]))
        else:
            ctx.divergence(comp, case, model, impl)


def _focus_estimate_worker(job):
    """estimate_size of this tree differs from the model's: look for an index on which it is below the
    number of matching documents (the only thing the property demands of it)."""
    qs, seed = job
    rng = random.Random(seed)
    q = G.s2q(G.parse1(qs))
    for i in range(40):
        docs = G.gen_docs(rng, {"maxdocs": 9 if i < 30 else 30})
        layout = G.gen_layout(rng, len(docs), {})
        ix = G.build_index(docs, layout)
        with ix.searcher() as s:
            try:
                dq = G.docs_of(s, q)
                est = q.estimate_size(s.reader())
            except (Exception, G.SearchTimeout):  # noqa
                continue
            finally:
                _reset_null()
            if est < len(dq):
                return {"op": "estimate", "q": qs, "q2": "null", "docs": docs, "layout": [layout[0], sorted(layout[1])],
                        "expected": len(dq), "observed": est}
    return None


def _resolve_estimates(ctx, divs):
    """estimate_size is an estimate: the property only demands that it is never below the number of matching
    documents.  A value that differs from the model's is searched for a violation of that (40 generated
    indexes per tree); if none is found the difference is recorded as a note, not as a divergence."""
    trees = []
    for comp, case, model, impl in divs:
        if case["q"] not in trees:
            trees.append(case["q"])
    found = {}
    jobs = [(t, "%s:est:%d" % (ctx.seed, i)) for i, t in enumerate(trees[:200])]
    for (t, _), r in zip(jobs, ctx.pmap(_focus_estimate_worker, jobs)):
        if r is not None:
            found[t] = r
    for t, r in list(found.items())[:5]:
        ctx.violation("estimate_size:below-true-count", r, r["expected"], r["observed"],
                      "estimate_size() below the number of matching documents")
    noted = False
    for comp, case, model, impl in divs:
        if case["q"] in found or case["q"] not in trees[:200] or impl == "err" or model == "err":
            ctx.divergence(comp, case, model, impl)
        else:
            ctx.stat("corr:estimate-differs-from-model-but-never-below-count")
            if not noted:
                noted = True
                ctx.note("estimate_size differs from the model's value (e.g. %s: model %s, code %s) but was never below "
                         "the number of matching documents on 40 generated indexes per tree"
                         % (G.pretty(case["q"])[:300], model, impl))


def _merge(ctx, out, stream, divs=None):
    for key, nontriv in out["cases"]:
        ctx.case(key, nontrivial=nontriv)
    for k, v in out["stats"].items():
        ctx.stat(stream + ":" + k, v)
    for comp, case, model, impl in out["div"]:
        if divs is not None:
            divs.append((comp, case, model, impl))
        else:
            ctx.divergence(comp, case, model, impl)
    for sig, case, exp, obs, desc in out["viol"]:
        ctx.violation(sig, case, exp, obs, desc)
    for smp in out["samples"]:
        ctx.sample(smp)


PROFILES = [
    {"name": "all", "voids": True, "same": 0.25, "odd": 0.0},
    {"name": "novoid", "voids": False, "same": 0.3, "odd": 0.0},
    {"name": "odd-terms", "voids": False, "same": 0.2, "odd": 0.3},
    # positional: (nested) Sequence/Ordered trees over few words, documents with longer fields
    {"name": "positional", "voids": False, "same": 0.25, "odd": 0.0, "seqbias": 0.45, "seqwords": True,
     "longdocs": True, "spans": False},
]


def run(ctx):
    # corpus
    cdir = os.path.join(os.path.dirname(os.path.dirname(os.path.dirname(os.path.abspath(__file__)))), "corpus", "C15")
    if os.path.isdir(cdir):
        import json
        for n in sorted(os.listdir(cdir)):
            if n.endswith(".json"):
                rec = json.load(open(os.path.join(cdir, n)))
                ctx.stat("corpus:replayed")
                _replay_record(ctx, rec, report=True)
    # stream 1
    rng = ctx.rng("corr")
    njobs = ctx.budget(28, 200)
    per = 120 if ctx.tier == "quick" else 400   # (ctx.budget scales with ctx.boost: scale one factor only)
    jobs = [("%s:%d" % (rng.random(), i), per, dict(PROFILES[(0, 1, 0, 1, 3)[i % 5]], illtyped=True))
            for i in range(njobs)]
    divs = []
    for out in ctx.pmap(_corr_worker, jobs):
        _merge(ctx, out, "corr", divs)
    _resolve_divergences(ctx, divs)
    changed = ctx.stats.get("corr:changed:normalize", 0)
    if changed * 5 < ctx.stats.get("corr:op:normalize", 1):
        from vcheck import InfraError
        raise InfraError("C15 generator degenerated: only %d of %d generated trees are changed by normalize()"
                         % (changed, ctx.stats.get("corr:op:normalize", 0)))
    # stream 2
    rng = ctx.rng("e2e")
    njobs = ctx.budget(64, 800)
    per = 12 if ctx.tier == "quick" else 16
    jobs = [("%s:%d" % (rng.random(), i), per, PROFILES[i % 4]) for i in range(njobs)]
    failing = []
    divs = []
    for out in ctx.pmap(_e2e_worker, jobs):
        _merge(ctx, out, "e2e", divs)
        failing.extend(out["failing"])
    for d in divs:
        if d[0] != "query.estimate_size":
            ctx.divergence(*d)
    _resolve_estimates(ctx, [d for d in divs if d[0] == "query.estimate_size"])
    # stream 3
    rng = ctx.rng("nested")
    njobs = ctx.budget(24, 240)
    jobs = [("%s:%d" % (rng.random(), i), 6 if ctx.tier == "quick" else 10) for i in range(njobs)]
    for out in ctx.pmap(_nested_worker, jobs):
        _merge(ctx, out, "nested")
    _post(ctx, failing)


def _post(ctx, failing):
    """classification of the raw failing end-to-end cases"""
    ctx.stat("e2e:failing-raw", len(failing))
    # a broken correspondence gets extra budget: evaluate the diverging trees themselves
    fjobs = []
    for i, dv in enumerate(ctx.divergences[:50]):
        c = dv["case"]
        if isinstance(c, dict) and c.get("op") in ("normalize", "and", "or", "sub", "boost", "replace", "accept", "apply",
                                                      "simplify"):
            fjobs.append((c["op"], c["q"], c.get("q2", "null"), "%s:%d" % (ctx.seed, i)))
    if fjobs:
        found = [f for f in ctx.pmap(_focus_worker, fjobs) if f]
        ctx.stat("e2e:focused-search-found", len(found))
        failing.extend(found)
    todo = []
    for f in failing:
        if f.get("sig"):
            case = {"op": f["op"], "q": f["q"], "q2": f["q2"]}
            if f["op"] == "eq":
                case.update(f["case"])
            ctx.violation(f["sig"], case, f["expected"], f["observed"],
                          "two queries that compare equal (==) match different documents" if f["op"] == "eq" else "")
        else:
            todo.append(f)
    # group the raw failing cases by the defect clauses of their (unshrunk) tree, then minimise a
    # bounded number per group; groups that no recorded defect explains get the larger share
    tags = ctx.pmap(_pretag, todo, chunksize=8)
    groups = {}
    for f, t in zip(todo, tags):
        groups.setdefault((f["op"], f.get("by", "search"), t), []).append(f)
    picked = []
    for (op, by, t), fs in sorted(groups.items(), key=lambda kv: repr(kv[0])):
        explained = bool(t) and all(x in SIGNATURES for x in t)
        n = ctx.budget(1, 6) if explained else ctx.budget(6, 40)
        ctx.stat("e2e:failing-group:%s:%s:%s" % (op, by, "+".join(t) or "clean"), len(fs))
        picked.extend(fs[:n])
        if len(fs) > n:
            ctx.stat("e2e:failing-not-shrunk", len(fs) - n)
    for f, res in zip(picked, ctx.pmap(_shrink_classify, picked)):
        if res is None:
            ctx.stat("e2e:failing-not-reproducible")
            continue
        sig, small = res
        if small.get("by") == "spec":
            desc = "the Lean sat of the rewritten tree differs from that of the original (the searches agree)"
        else:
            desc = "docs_for_query differs between the query and its rewrite"
        ctx.violation(sig, small, small.get("expected"), small.get("observed"), desc)


def _run_record(case):
    """Re-execute one stored case on the current tree.  Returns (failed, signature-hint, expected,
    observed, small) where small is the case in the form _classify understands."""
    op = case["op"]
    if case.get("stream") == "nested":
        failed, sig, exp, obs = _run_nested_record(case)
        return failed, sig, exp, obs, None
    qx, q2x = G.parse1(case["q"]), G.parse1(case.get("q2", "null"))
    if op == "normalize2":
        try:
            a = G.s2q(qx).normalize()
            b = a.normalize()
            ra, rb = G.q2s(a), G.q2s(b)
        except Exception as e:  # noqa
            return True, "normalize:raises:%s" % _excname(e), "a query", _excname(e), None
        finally:
            _reset_null()
        return ra != rb, "normalize:not-idempotent", ra, rb, None
    if op == "replace-present":
        try:
            q = G.s2q(qx)
            fid, old = case["arg"]
            q.replace(G.FNAMES[int(fid)], old, u"zz")
            after = G.q2s(q)
            return after != case["q"], _REPLACE_SIG, case["q"], after, None
        except Exception as e:  # noqa
            return True, "replace-present:raises:%s" % _excname(e), "a query", _excname(e), None
        finally:
            _reset_null()
    if op == "eq":
        # two queries that compare equal must match the same documents
        try:
            q, q2 = G.s2q(qx), G.s2q(q2x)
            if not (q == q2):
                return False, None, "q != q2", "q != q2", None
            ix = G.build_index(case["docs"], (case["layout"][0], set(case["layout"][1])))
            with ix.searcher() as s:
                a, b = G.docs_of(s, q), G.docs_of(s, q2)
            return a != b, "__eq__:equal-queries-match-different-documents", a, b, None
        except Exception as e:  # noqa
            return True, "eq:raises:%s" % _excname(e), "two answers", _excname(e), None
        finally:
            _reset_null()
    if "docs" not in case:
        # a rewrite that used to raise
        try:
            q, q2 = G.s2q(qx), G.s2q(q2x)
            table = {n: fn for n, fn, _ in _rewrites(random.Random(0), q, q2, None)}
            res = G.q2s(table[op]())
            return False, None, "a query", res, None
        except Exception as e:  # noqa
            return True, "%s:raises:%s" % (op, _excname(e)), "a query", _excname(e), None
        finally:
            _reset_null()
    docs, layout = case["docs"], case["layout"]
    try:
        # the rewrite itself must not raise
        ix = G.build_index(docs, (layout[0], set(layout[1])))
        with ix.searcher() as s:
            q, q2 = G.s2q(qx), G.s2q(q2x)
            if op == "simplify":
                q.simplify(s.reader())
    except Exception as e:  # noqa
        return True, "%s:raises:%s" % (op, _excname(e)), "a query", _excname(e), None
    finally:
        _reset_null()
    ev = _eval_case_spec if case.get("by") == "spec" else _eval_case
    r = ev(op, qx, q2x, docs, layout)
    if r is None:
        return False, None, None, None, None
    small = {"op": op, "q": case["q"], "q2": case.get("q2", "null"), "docs": docs, "layout": layout,
             "expected": r[0], "observed": r[1], "rewritten": r[2]}
    return r[0] != r[1], None, r[0], r[1], small


def _replay_record(ctx, rec, report=False):
    case = rec.get("case", rec)
    failed, sig, exp, obs, small = _run_record(case)
    if failed and report:
        if sig is None:
            sig = _classify(ctx.driver, small)
        ctx.violation(sig, small or case, exp, obs, "corpus case fails")
    return failed


def replay(ctx, rec):
    case = rec.get("case", rec)
    failed, sig, exp, obs, small = _run_record(case)
    print("operation:", case["op"], " query:", G.pretty(case["q"]), " second operand:", G.pretty(case.get("q2", "null")))
    if small:
        print("documents:", small["docs"], "layout:", small["layout"])
        print("rewritten tree:", G.pretty(small["rewritten"]))
    print("expected:", exp)
    print("observed:", obs)
    return bool(failed)
