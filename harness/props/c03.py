"""C03 — readers are snapshots; new readers and refresh() see exactly the last commit."""
import os
import random
import shutil
import tempfile
import threading
import time

from vcheck import parse_sexp
from gen import tracefs as T

ID = "C03"
LEVEL = "proof"
LEAN_IMPORTS = ["WM.Props.C03"]
THEOREMS = ["WM.C03.snapshot_partial", "WM.C03.snapshot_full_false", "WM.C03.fresh", "WM.C03.fresh_interleaved",
            "WM.C03.refresh_eq_fresh", "WM.C03.up_to_date_partial", "WM.C03.up_to_date_full_false",
            "WM.C03.safe_freshNames", "WM.C03.holds_at", "WM.FS.open_linearizable",
            "WM.C03.refresh_interleaved", "WM.FS.refresh_linearizable", "WM.FS.searcher_refresh_linearizable",
            "WM.C03.same_is_fresh", "WM.C03.snapshot", "WM.C03.snapshot_after_commit",
            "WM.FS.eagerHandles_fresh", "WM.FS.readerOK_fresh"]
PARTIAL = {
    "WM.C03.snapshot_partial": "the general lemma, for any reader value with hypothesis EagerHandles; C03.snapshot is the "
                               "full statement for the readers ix.reader()/refresh() really build (every file of every segment "
                               "opened by the constructor since the round-3 fix of W3PerDocReader: FS.eagerHandles_fresh); "
                               "snapshot_full_false stays as the Lean witness of why a lazily opening reader is not a snapshot. "
                               "Which files the running constructor opens is observed per run (EagerTrace on every held "
                               "reader's storage trace; the step-machine requests carry the observed file classes)",
    "WM.C03.refresh_eq_fresh": "this statement evaluates refresh on one directory (atomic); the interleaved versions are "
                               "C03.refresh_interleaved / FS.refresh_linearizable (ix.reader(reuse) step by step with recycling "
                               "and retry) and FS.searcher_refresh_linearizable (up-to-date check + recycling open). "
                               "Full for searchers obtained from the index (readers built from a TOC); a searcher handed out by "
                               "BufferedWriter has an unversioned in-memory leaf that _reader(reuse) carries over (required by "
                               "tests/test_searching.py::test_buffered_refresh): after the buffer is flushed its refresh shows "
                               "the buffered documents twice (recorded finding, buffered-refresh stream)",
    "WM.C03.up_to_date_partial": "hypothesis: the index has at least one segment; EmptyReader.generation() is None, so "
                                 "up_to_date() is False on an index without segments (up_to_date_full_false)",
}
RULE = ("deterministic schedule enumeration: at every storage-event boundary of real writer transactions a held "
        "searcher, a long-held searcher, a freshly opened searcher and a refreshed searcher are dumped through the "
        "public read API and up_to_date() is read; configurations compound/loose x mmap on/off x File/RAM; one case = "
        "(configuration, canonical trace prefix, role); non-trivial = the boundary lies strictly inside a committing "
        "transaction or the probed reader is older than the newest generation; _reader(reuse=...) is additionally "
        "compared with the Lean mirror on every refresh; race-open stream: whole commits (1-2, every merge policy) are run "
        "at boundary b=0..6 *inside* the storage-call sequence of one ix.reader() call so that its retry loop runs, and "
        "the Lean step machines mrun / xmrun (with recycling) predict generation, segments and the files "
        "(re)opened (non-trivial = the commits fired); a cold searcher (opened before, first read after each "
        "transaction) exercises lazily opened files; searcher-api stream: sorted / reversed / grouped / term searches "
        "(fields with and without a column) on a held searcher, a refresh chain whose per-searcher caches are warm, and "
        "a fresh searcher, against the dictionary model, over random histories that include count-preserving commits "
        "(replace k documents and merge)")
ASSUMPTIONS = [
    "POSIX unlink-while-open / mmap keep the data of an open file readable (handles pin inodes)",
    "single-process schedules: reader steps run between two storage events of the writer, not inside one (true "
    "pre-emption inside a read call is only soaked with threads in the thorough tier)",
    "a segment id names one immutable set of files; generations are never re-used (C04.generation)",
    "the file set of a loose segment is only recorded in the directory: the constructor finds column/vector files in a "
    "listing, the model takes them from the TOC's SegRef.files; they agree unless the listing is taken while another "
    "process is half-way through clean_files' deletions of that very segment (true pre-emption between two os.remove calls)",
]
TRUSTED = ["harness-side TracingFileStorage / TracingRamStorage subclasses"]
MANIFEST = {
    "level_text": "Lean theorems over the abstract file system with inode handles: a reader that pinned its files is a "
                  "snapshot under all writer events that never re-bind a name (every protocol-following commit/cancel "
                  "trace is such); a reader opened at any point of a commit (or after a crash there) is exactly the reader "
                  "of old or new; FileIndex._reader(reuse=...) (mirrored line by line, as repaired) returns exactly the "
                  "fresh reader; ix.reader() interleaved step by step with a commit (TOC read, one file open at a time, retry) is "
                  "linearizable at its TOC read; up_to_date() <-> no newer generation. Tied to the code by comparing the Lean mirror of "
                  "_reader(reuse) with the real one on every refresh and by probing held/fresh/refreshed searchers at "
                  "every storage-event boundary of real commits in 8 storage configurations.",
    "level_note": "partial: OS handle semantics assumed; up_to_date needs a non-empty index (recorded finding). Loose segments "
                  "opened their column/vector files lazily (repaired in round 3; snapshot no longer needs EagerHandles). Thread "
                  "pre-emption inside one read call is not modelled.",
    "technique": "machine-checked proof in Lean 4 over an executable model + differential correspondence + schedule enumeration",
}

IX = T.INDEXNAME
LAZY_ERRORS = ("TypeError", "NameError", "FileNotFoundError", "OSError", "IOError", "KeyError", "ValueError",
               "error", "IndexError")


def _leaves(reader):
    return [r for r, _ in reader.leaf_readers()]


def _describe(reader):
    """(kind, generation, [(sid, deleted, gen, schema_id, obj id, closed)])"""
    kind = type(reader).__name__
    leaves = []
    for r in _leaves(reader):
        seg = r.segment()
        if seg is None:
            continue
        leaves.append((seg.segment_id(), sorted(seg.deleted_docs()), r.generation(),
                       T.schema_id(r.schema), id(r), bool(getattr(r, "is_closed", False))))
    sc = T.schema_id(reader.schema) if getattr(reader, "schema", None) is not None else None
    return (kind, reader.generation(), leaves, sc)


def _safe_dump(searcher):
    try:
        return ("ok", T.dump_reader(searcher.reader()))
    except Exception as e:  # noqa
        return ("err", "%s: %s" % (T.errname(e), str(e)[:120]))


def history_job(job):
    try:
        return _history_job(job)
    except Exception as e:  # noqa
        import traceback
        return {"seed": job["seed"], "config": job["config"], "txns": [],
                "fatal": "%s: %s" % (T.errname(e), str(e)[:200]), "tb": traceback.format_exc()[-1500:]}


def _history_job(job):
    from whoosh import index
    compound, mmap, ram = job["config"]
    rng = random.Random(job["seed"])
    base = tempfile.mkdtemp(prefix="c03-", dir=job["scratch"])
    out = {"seed": job["seed"], "config": job["config"], "txns": []}
    searchers = []
    try:
        if ram:
            st = T.TracingRamStorage()
            st.tmpbase = base
        else:
            d = os.path.join(base, "ix")
            os.makedirs(d)
            st = T.TracingFileStorage(d, supports_mmap=mmap)
        tr = st.tracer
        tr.enabled = False
        index.FileIndex.create(st, T.make_schema(), IX)
        ix = index.FileIndex(st, indexname=IX)   # no schema override: the TOC's schema is used
        docs = {}
        state = {"next": 0, "live": []}
        longheld = None     # (searcher, dump at open time, generation, txn index, listing at open)
        lag = [None]        # a searcher that is refreshed only now and then, across several generations
        for ti in range(job["ntxn"]):
            if job.get("deadline") and time.time() > job["deadline"] and ti > 0:
                out["stopped"] = True
                break
            if job.get("script"):
                txn = dict(job["script"][ti], compound=compound)
                txn["ops"] = [list(op) if op[0] == "undelete" else (op[0], dict(op[1]) if isinstance(op[1], dict) else op[1])
                              for op in txn["ops"]]
            else:
                txn = T.gen_txn(rng, state, force={"compound": compound})
            gen_old = ix.latest_generation()
            # a searcher that is opened now but not read from before the transaction is over: whatever
            # it opens lazily is opened after the commit's clean-up
            cold = ix.searcher()
            searchers.append(cold)
            cold_desc = _describe(cold.reader())
            tr.enabled = True
            tr.events[:] = []
            tr.actor = "rc:held"
            held = ix.searcher()
            tr.actor = "rc:third"
            third = [ix.searcher()]
            tr.enabled = False
            searchers += [held, third[0]]
            st_d0, dump_old = _safe_dump(held)
            listing0 = sorted(st.list())
            held_desc = _describe(held.reader())
            if longheld is None and gen_old >= 1 and rng.random() < 0.7:
                lh = ix.searcher()
                searchers.append(lh)
                longheld = (lh, _safe_dump(lh), gen_old, ti, listing0, _describe(lh.reader()))
            probes = []
            refreshes = []
            construct_events = list(tr.events)

            wcount = [0, 0]   # events scanned, writer events among them
            finishing = [False]

            def hook(tracer, k):
                evs = tracer.events
                while wcount[0] < len(evs):
                    if evs[wcount[0]][0] == "w":
                        wcount[1] += 1
                    wcount[0] += 1
                if job.get("stride") and wcount[1] % job["stride"] and not finishing[0]:
                    return
                rec = {"k": wcount[1]}
                tracer.actor = "rp:held"
                rec["held"] = _safe_dump(held)
                try:
                    rec["held_utd"] = held.up_to_date()
                except Exception as e:  # noqa
                    rec["held_utd"] = T.errname(e)
                rec["listing"] = sorted(st.list())
                if longheld is not None:
                    tracer.actor = "rp:long"
                    rec["long"] = _safe_dump(longheld[0])
                    rec["long_utd"] = longheld[0].up_to_date()
                tracer.actor = "rc:fresh"
                try:
                    f = ix.searcher()
                    try:
                        tracer.actor = "rp:fresh"
                        rec["fresh"] = _safe_dump(f)
                        rec["fresh_utd"] = f.up_to_date()
                        rec["fresh_desc"] = _describe(f.reader())[:2]
                        rec["fresh_gen"] = f.reader().generation()
                    finally:
                        f.close()
                except Exception as e:  # noqa
                    rec["fresh"] = ("err", "open: %s: %s" % (T.errname(e), str(e)[:120]))
                # refresh chain
                tracer.actor = "rc:third"
                old = third[0]
                before = _describe(old.reader())
                old_leaves = _leaves(old.reader())
                try:
                    latest = ix.latest_generation()
                    toc = T.toc_info(st, IX, latest) if latest >= 0 else None
                    new = old.refresh()
                    third[0] = new
                    if new is not old:
                        searchers.append(new)
                    after = _describe(new.reader())
                    closed = [r.segment().segment_id() for r in old_leaves
                              if r.segment() is not None and getattr(r, "is_closed", False)]
                    refreshes.append({"k": k, "before": before, "after": after, "toc": toc, "closed": sorted(closed),
                                      "same": new is old, "listing": rec["listing"], "latest": latest})
                    tracer.actor = "rp:third"
                    rec["third"] = _safe_dump(new)
                    rec["third_utd"] = new.up_to_date()
                    rec["third_kind"] = after[0]
                except Exception as e:  # noqa
                    import traceback
                    rec["third"] = ("err", "refresh: %s: %s" % (T.errname(e), str(e)[:120]))
                probes.append(rec)

            tr.enabled = True
            tr.actor = "w"
            tr.hook = hook
            err = None
            try:
                outcome = T.run_txn(ix, txn)
            except Exception as e:  # noqa
                outcome = "error"
                err = "%s: %s" % (T.errname(e), str(e)[:200])
            finishing[0] = True
            tr.finish()
            tr.hook = None
            tr.enabled = False
            events = list(tr.events)
            wevents = [e for e in events if e[0] == "w"]
            r1 = ix.reader()
            dump_new = T.dump_reader(r1)
            r1.close()
            docs_new = T.model_apply(docs, txn)
            cold_dump = _safe_dump(cold)
            listing_end = sorted(st.list())
            lagrec = None
            if lag[0] is None:
                lag[0] = ix.searcher()
                searchers.append(lag[0])
            elif rng.random() < 0.5:
                old = lag[0]
                before = _describe(old.reader())
                old_leaves = _leaves(old.reader())
                try:
                    latest = ix.latest_generation()
                    toc = T.toc_info(st, IX, latest)
                    new = old.refresh()
                    lag[0] = new
                    if new is not old:
                        searchers.append(new)
                    closed = [r.segment().segment_id() for r in old_leaves
                              if r.segment() is not None and getattr(r, "is_closed", False)]
                    refreshes.append({"k": -1, "before": before, "after": _describe(new.reader()), "toc": toc,
                                      "closed": sorted(closed), "same": new is old, "listing": sorted(st.list()),
                                      "latest": latest})
                    lagrec = {"dump": _safe_dump(new), "utd": new.up_to_date(), "kind": type(new.reader()).__name__,
                              "from_gen": before[1]}
                except Exception as e:  # noqa
                    lagrec = {"dump": ("err", "refresh: %s: %s" % (T.errname(e), str(e)[:120])), "utd": None,
                              "kind": "?", "from_gen": before[1]}
            # reader-side events for EagerTrace: construction vs later, per role
            roles = {}
            for e in construct_events + events:
                if e[0].startswith(("rc:", "rp:")) and e[1] in ("open", "stat", "exists"):
                    if e[1] == "exists" and not e[3]:
                        continue
                    phase, role = e[0].split(":")
                    roles.setdefault(role, {"rc": set(), "rp": set()})[phase].add(e[2])
            out["txns"].append({
                "txn": txn, "outcome": outcome, "error": err, "gen_old": gen_old,
                "gen_new": ix.latest_generation(), "wevents": wevents,
                "dump_old": (st_d0, dump_old), "dump_new": dump_new, "probes": probes, "refreshes": refreshes,
                "model_new": T.stored_of_model(docs_new), "listing0": listing0, "held_desc": held_desc,
                "lag": lagrec, "cold": (cold_dump, cold_desc, listing_end),
                "long": None if longheld is None else {"dump": longheld[1], "gen": longheld[2], "since": longheld[3],
                                                       "listing": longheld[4], "desc": longheld[5]},
                "eager": {role: (sorted(v["rc"]), sorted(v["rp"])) for role, v in roles.items()
                          if role in ("held",)},
            })
            docs = docs_new
            state["live"] = sorted(int(k[1:]) for k in docs)
    finally:
        for s in searchers:
            try:
                s.close()
            except Exception:
                pass
        shutil.rmtree(base, ignore_errors=True)
    return out


# ------------------------------------------------------------------------------------------------

def _rename_index(wevents_all_boundaries, events):
    for i, e in enumerate(events):
        if e[1] == "rename":
            return i
    return None


def _lost_files(desc, listing):
    """segment ids of the described reader some of whose files (as listed at open time) are gone"""
    return desc


def _judge_history(ctx, h, reqs):
    from props.c02 import canon_events
    cfg = tuple(h["config"])
    cfgname = "%s/%s/%s" % ("compound" if cfg[0] else "loose", "mmap" if cfg[1] else "nommap", "ram" if cfg[2] else "file")
    if h.get("fatal"):
        ctx.violation("harness-step-raises", {"seed": h["seed"], "config": cfgname}, "history runs", h["fatal"], h["tb"])
        return
    for ti, t in enumerate(h["txns"]):
        ctx.stat("config:" + cfgname)
        ctx.stat("outcome:" + t["outcome"])
        ctx.stat("merge:" + t["txn"]["merge"])
        for op in t["txn"]["ops"]:
            if op[0] == "undelete":
                ctx.stat("op:undelete+delete-in-same-segment" if op[1] else "op:undelete-not-applicable")
            else:
                ctx.stat("op:" + op[0])
        if t["txn"].get("schema"):
            ctx.stat("op:schema-" + t["txn"]["schema"])
        if t["error"]:
            ctx.violation("writer-transaction-raises", {"seed": h["seed"], "txn": ti, "config": cfgname},
                          "completes", t["error"])
            continue
        case0 = {"seed": h["seed"], "txn": ti, "config": cfgname, "spec": t["txn"]}
        if t["dump_new"]["stored"] != t["model_new"]:
            ctx.violation("commit-result!=dictionary-model", case0, t["model_new"], t["dump_new"]["stored"])
        # boundary index of the rename among *writer* events: probes are indexed by the global
        # event counter, so locate it through the hook records
        wev = t["wevents"]
        canon = canon_events(wev)
        committed = t["gen_new"] != t["gen_old"]
        st_old, dump_old = t["dump_old"]
        for p in t["probes"]:
            latest_is_new = committed and ("_%s_%d.toc" % (IX, t["gen_new"])) in p["listing"]
            want = t["dump_new"] if latest_is_new else dump_old
            wgen = t["gen_new"] if latest_is_new else t["gen_old"]
            case = dict(case0, boundary=p["k"], after_rename=latest_is_new)
            inside = committed and 0 < p["k"]
            # --- held searcher (opened on the old generation)
            ctx.case(("held", cfg, canon[:p["k"]], ti > 0), nontrivial=inside)
            ctx.stat("probe:held")
            _judge_held(ctx, "held", p["held"], (st_old, dump_old), t["held_desc"], t["listing0"], p["listing"],
                        cfg, case)
            exp_utd = not latest_is_new
            if p["held_utd"] != exp_utd:
                if t["held_desc"][0] == "EmptyReader" and exp_utd:
                    ctx.violation("Searcher.up_to_date:EmptyReader.generation-is-None", case, True, p["held_utd"],
                                  "up_to_date() is False on an index without segments although no newer generation exists")
                else:
                    ctx.violation("Searcher.up_to_date:held", case, exp_utd, p["held_utd"])
            # --- long-held searcher
            if "long" in p and t["long"] is not None:
                ctx.case(("long", cfg, canon[:p["k"]], t["long"]["since"], ti), nontrivial=True)
                ctx.stat("probe:long")
                _judge_held(ctx, "long-held", p["long"], t["long"]["dump"], t["long"]["desc"], t["long"]["listing"],
                            p["listing"], cfg, case)
                exp = (wgen == t["long"]["gen"])
                if p["long_utd"] != exp:
                    if t["long"]["desc"][0] == "EmptyReader" and exp:
                        ctx.violation("Searcher.up_to_date:EmptyReader.generation-is-None", case, True, p["long_utd"])
                    else:
                        ctx.violation("Searcher.up_to_date:long-held", case, exp, p["long_utd"])
            # --- fresh searcher
            ctx.case(("fresh", cfg, canon[:p["k"]]), nontrivial=inside)
            ctx.stat("probe:fresh")
            fr = p["fresh"]
            if fr[0] != "ok":
                ctx.violation("fresh-searcher-raises", case, "opens", fr[1])
            else:
                if fr[1] != want:
                    which = "old" if fr[1] == dump_old else "new" if fr[1] == t["dump_new"] else "neither"
                    ctx.violation("fresh-searcher-content-is-" + which, case, T.dump_keys(want), T.dump_keys(fr[1]),
                                  "a searcher opened at this point does not show the committed state")
                if p.get("fresh_utd") is not True:
                    if p.get("fresh_desc", ("",))[0] == "EmptyReader":
                        ctx.violation("Searcher.up_to_date:EmptyReader.generation-is-None", case, True, p.get("fresh_utd"))
                    else:
                        ctx.violation("Searcher.up_to_date:fresh", case, True, p.get("fresh_utd"))
            # --- refreshed searcher
            ctx.case(("refresh", cfg, canon[:p["k"]]), nontrivial=inside)
            ctx.stat("probe:refresh")
            th = p.get("third")
            if th is None or th[0] != "ok":
                ctx.violation("refreshed-searcher-raises", case, "refresh works", th and th[1])
            else:
                if th[1] != want:
                    got, exp = T.dump_keys(th[1]), T.dump_keys(want)
                    if sorted(set(got)) == sorted(exp) and len(got) > len(exp) or \
                            any(len(v) > 1 for _k, v in th[1]["stored"]):
                        sig = "Searcher.refresh:duplicates(merged-away-segments-resurrected)"
                    elif set(exp) < set(got):
                        sig = "Searcher.refresh:deleted-or-replaced-documents-still-visible"
                    else:
                        sig = "Searcher.refresh:content-differs-from-fresh"
                    ctx.violation(sig, case, exp, got, "refreshed searcher differs from a freshly opened one")
                if p.get("third_utd") is not True:
                    if p.get("third_kind") == "EmptyReader":
                        ctx.violation("Searcher.up_to_date:EmptyReader.generation-is-None", case, True, p.get("third_utd"))
                    else:
                        ctx.violation("Searcher.up_to_date:after-refresh", case, True, p.get("third_utd"),
                                      "a refreshed searcher does not report being up to date")
        # --- the cold searcher: opened before the transaction, first read after it
        if t.get("cold") and st_old == "ok":
            cold_dump, cold_desc, listing_end = t["cold"]
            case = dict(case0, boundary="end", role="cold-held")
            ctx.case(("cold", cfg, canon, ti > 0), nontrivial=committed)
            ctx.stat("probe:cold")
            _judge_held(ctx, "cold-held", cold_dump, (st_old, dump_old), cold_desc, t["listing0"], listing_end,
                        cfg, case)
        # --- the lagging searcher, refreshed after the transaction across one or more generations
        lg = t.get("lag")
        if lg is not None:
            case = dict(case0, boundary="end", lag_from_generation=lg["from_gen"])
            ctx.case(("lag", cfg, lg["from_gen"], t["gen_new"], canon), nontrivial=lg["from_gen"] != t["gen_new"])
            ctx.stat("probe:lag-refresh")
            if lg["dump"][0] != "ok":
                ctx.violation("refreshed-searcher-raises", case, "refresh works", lg["dump"][1])
            else:
                if lg["dump"][1] != t["dump_new"]:
                    got, exp = T.dump_keys(lg["dump"][1]), T.dump_keys(t["dump_new"])
                    if any(len(v) > 1 for _k, v in lg["dump"][1]["stored"]):
                        sig = "Searcher.refresh:duplicates(merged-away-segments-resurrected)"
                    elif set(exp) < set(got):
                        sig = "Searcher.refresh:deleted-or-replaced-documents-still-visible"
                    else:
                        sig = "Searcher.refresh:content-differs-from-fresh"
                    ctx.violation(sig, case, exp, got, "refreshed searcher differs from a freshly opened one")
                if lg["utd"] is not True:
                    if lg["kind"] == "EmptyReader":
                        ctx.violation("Searcher.up_to_date:EmptyReader.generation-is-None", case, True, lg["utd"])
                    else:
                        ctx.violation("Searcher.up_to_date:after-refresh", case, True, lg["utd"])
        # --- correspondence requests
        for rf in t["refreshes"]:
            reqs.append(("refresh", (h, ti, cfgname, rf), _refresh_request(rf)))
        for role, (cons, later) in t["eager"].items():
            reqs.append(("eager", (h, ti, cfgname, cfg, role, cons, later),
                         "c03 eager (%s) (%s)" % (" ".join(T.name_sexp(n) for n in cons),
                                                  " ".join(T.name_sexp(n) for n in later))))
    ctx.sample({"seed": h["seed"], "config": cfgname, "txns": len(h["txns"]),
                "probes": sum(len(t["probes"]) for t in h["txns"])}, cap=6)


def _judge_held(ctx, role, got, expected, desc, listing_open, listing_now, cfg, case):
    st0, d0 = expected
    if st0 != "ok":
        return
    sids = [l[0] for l in desc[2]]
    gone = [n for n in listing_open if any(n.startswith(s + ".") for s in sids) and n not in listing_now]
    loose = not cfg[0]
    if got[0] == "ok":
        if got[1] != d0:
            parts = sorted(k for k in d0 if d0[k] != got[1].get(k))
            if loose and gone and not (set(p for p in parts if not p.startswith("column_")) - {"vectors", "lexicon"}):
                # has_column()/has_vector() look the file name up at call time: once the loose
                # segment's files are unlinked, columns and vectors silently disappear
                ctx.violation("held-reader:lazy-lookup-of-unlinked-file:loose-segment:columns-or-vectors-vanish",
                              dict(case, gone=gone[:4], parts=parts), "unchanged", parts,
                              "a held searcher on loose segments silently loses its column / vector data after "
                              "a merging commit unlinked the files (W3PerDocReader.has_column -> file_exists)")
            else:
                ctx.violation("%s-searcher-content-changed" % role, dict(case, parts=parts, gone=gone[:4], loose=loose),
                              T.dump_keys(d0), T.dump_keys(got[1]),
                              "a held searcher returns something else than when it was opened")
        return
    # raised: classify
    etype = got[1].split(":")[0]
    if loose and gone and etype in LAZY_ERRORS:
        ctx.violation("held-reader:lazy-open-of-unlinked-file:loose-segment", dict(case, gone=gone[:4]),
                      T.dump_keys(d0), got[1],
                      "W3PerDocReader opens column / vector files of a loose segment on first use; after a merging "
                      "commit unlinked them the held searcher raises")
    else:
        ctx.violation("%s-searcher-raises" % role, dict(case, gone=gone[:4], loose=loose), T.dump_keys(d0), got[1])


def _leaf_sexp(tab, leaf, fake):
    sid, deleted, gen, schema, oid, _closed = leaf
    return "(%d () (%s) %s %d ((%d %d)))" % (tab(sid), " ".join(map(str, deleted)),
                                             "-" if gen is None else gen, schema, tab(sid + ".h"), fake)


def _refresh_request(rf):
    """Mirror one real `FileIndex._reader(..., reuse=old)` call.  Every segment is given exactly one
    file `<sid>.h` whose inode in the model directory is its index; the recycled leaves hold
    handles numbered from 1000 so that recycled and re-opened readers can be told apart."""
    tab = T.NameTable()
    kind, gen, leaves, _sc = rf["before"]
    toc = rf["toc"]
    segs = toc[2] if toc else []
    fsent = []
    for s in segs:
        fsent.append("(%d c 1 -)" % tab(s[0] + ".h"))
    segtxt = " ".join("(%d (%d) (%s))" % (tab(s[0]), tab(s[0] + ".h"), " ".join(map(str, s[3]))) for s in segs)
    ltxt = [_leaf_sexp(tab, l, 1000 + i) for i, l in enumerate(leaves)]
    if kind == "EmptyReader" or not leaves and kind != "MultiReader":
        rd = "(e 0)"
    elif kind == "SegmentReader":
        rd = "(s %s)" % ltxt[0]
    else:
        rd = "(m %s %s)" % ("-" if gen is None else gen, " ".join(ltxt))
    return "c03 mkreader %s (%s) %d %d (%s) %s" % ("%s", " ".join(fsent), toc[1] if toc else 0,
                                                    toc[0] if toc else 0, segtxt, rd), tab


def _judge_refresh(ctx, payload, ans):
    h, ti, cfgname, rf = payload
    ctx.stat("refresh-calls")
    case = {"seed": h["seed"], "txn": ti, "config": cfgname, "boundary": rf["k"]}
    kind, gen, leaves, _sc = rf["after"]
    if rf["same"]:
        ctx.stat("refresh:up-to-date")
        # Searcher.refresh returned self: it must have been up to date
        if rf["before"][1] != rf["latest"]:
            ctx.violation("Searcher.refresh:returns-self-though-outdated", case, rf["latest"], rf["before"][1])
        return
    old_ids = {l[4]: 1000 + i for i, l in enumerate(rf["before"][2])}
    toc = rf["toc"]
    segidx = {s[0]: i for i, s in enumerate(toc[2])} if toc else {}
    impl_kind = {"EmptyReader": "e", "SegmentReader": "s", "MultiReader": "m"}.get(kind, kind)
    impl = [impl_kind, None if impl_kind != "m" else gen,
            [(l[0], l[1], l[2], l[3], "reused" if l[4] in old_ids else "opened") for l in leaves],
            rf["closed"]]
    if ans.startswith("err") or ans == "bad-op":
        ctx.divergence("FileIndex._reader(reuse)", case, ans, impl)
        return
    parsed = parse_sexp(ans)
    rd, closed = parsed[0], parsed[1]
    mk = rd[0]
    mleaves = []
    mgen = None
    body = []
    if mk == "s":
        body = [rd[1]]
    elif mk == "m":
        mgen = None if rd[1] == "none" else int(rd[1])
        body = rd[2:]
    for lf in body:
        sid = "".join(chr(int(c)) for c in lf[0])
        hs = [int(x) for x in lf[4]]
        mleaves.append((sid, [int(x) for x in lf[1]], None if lf[2] == "none" else int(lf[2]), int(lf[3]),
                        "reused" if hs and hs[0] >= 1000 else "opened"))
    mclosed = sorted("".join(chr(int(c)) for c in n) for n in closed)
    model = [mk, mgen, mleaves, mclosed]
    n_reused = sum(1 for l in impl[2] if l[4] == "reused")
    ctx.stat("refresh:leaves-reused", n_reused)
    ctx.stat("refresh:leaves-opened", len(impl[2]) - n_reused)
    ctx.case(("reuse", tuple(x[1:] for x in impl[2]), tuple(sorted(len(c) for c in impl[3]))), nontrivial=n_reused > 0 or bool(impl[3]))
    if model != impl:
        ctx.divergence("FileIndex._reader(reuse)", case, model, impl)


def _doc(i, **kw):
    d = {"k": u"k%d" % i, "t": u"alfa bravo" if i % 2 else u"charlie", "g": u"alfa", "n": i}
    d.update(kw)
    return d


def _scripts():
    """Hand-written histories aimed at what decides whether a sub-reader may be recycled: the
    deletion *set* of a surviving segment (second deletion on a segment that already has one;
    a deletion taken back while another document of the segment is deleted: same count, other
    set) and the schema (field added / removed while an older segment survives)."""
    def txn(ops, merge="nomerge", schema=None, outcome="commit"):
        return {"ops": ops, "merge": merge, "schema": schema, "outcome": outcome, "compound": True}
    a = [txn([("add", _doc(i)) for i in range(6)]),
         txn([("delete", u"k1")]),
         txn([("delete", u"k2"), ("add", _doc(6))]),
         txn([["undelete", None]]),
         txn([("add", _doc(7))], schema="add"),
         txn([("delete", u"k3"), ["undelete", None]]),
         txn([("add", _doc(8))], schema="remove")]
    b = [txn([("add", _doc(i)) for i in range(4)]),
         txn([("add", _doc(4))], schema="add"),
         txn([("delete", u"k0")]),
         txn([("delete", u"k4")]),
         txn([["undelete", None], ("update", _doc(2))]),
         txn([["undelete", None]], merge="default"),
         txn([("add", _doc(5))], merge="optimize")]
    return {"deletion-sets": a, "schema-then-deletions": b}


def _run_histories(ctx, stream, scratch, per_config, ntxn, seeds=None, deadline=None):
    jobs = []
    configs = [(c, m, r) for c in (True, False) for m in (True, False) for r in (False, True)]
    i = 0
    if stream == "main" and not seeds:
        for name, script in sorted(_scripts().items()):
            for cfg in [(True, True, False), (False, True, False), (True, False, True), (False, False, True)]:
                jobs.append({"seed": "%s:%s:script:%s:%d" % (ID, ctx.seed, name, i), "config": cfg,
                             "ntxn": len(script), "scratch": scratch, "script": script, "stride": 4})
                i += 1
    for rep in range(per_config):
        for cfg in configs:
            jobs.append({"seed": "%s:%s:%s:%d" % (ID, ctx.seed, stream, i), "config": cfg, "ntxn": ntxn,
                         "scratch": scratch, "deadline": deadline})
            i += 1
    if seeds:
        jobs = seeds
    results = ctx.pmap(history_job, jobs)
    done = sum(len(h["txns"]) for h in results)
    ctx.stat("%s:transactions-planned" % stream, sum(j["ntxn"] for j in jobs) if not seeds else done)
    ctx.stat("%s:transactions-done" % stream, done)
    cut = sum(1 for h in results if h.get("stopped"))
    if cut:
        ctx.note("%s stream: wall-clock bound reached, %d histories cut short (%d transactions done)" % (stream, cut, done))
    reqs = []
    for h in results:
        _judge_history(ctx, h, reqs)
    lines = []
    for kind, payload, req in reqs:
        if kind == "refresh":
            txt, tab = req
            lines.append(txt % tab.sexp())
        else:
            lines.append(req)
    answers = ctx.driver.ask_parallel(lines)
    for (kind, payload, _req), ans in zip(reqs, answers):
        if kind == "refresh":
            _judge_refresh(ctx, payload, ans)
        elif kind == "eager":
            h, ti, cfgname, cfg, role, cons, later = payload
            ctx.stat("eager:" + ("1" if ans == "1" else "0") + ":" + ("compound" if cfg[0] else "loose"))
            if ans != "1":
                lazy = [n for n in later if n not in cons]
                if not cfg[0]:
                    ctx.violation("EagerHandles:loose-segment-files-opened-lazily",
                                  {"seed": h["seed"], "txn": ti, "config": cfgname, "lazy": lazy[:6]}, "1", ans,
                                  "the held reader opened files after its construction (W3PerDocReader column / "
                                  "vector files of a loose segment)")
                else:
                    ctx.violation("EagerHandles:compound", {"seed": h["seed"], "txn": ti, "config": cfgname,
                                                             "lazy": lazy[:6]}, "1", ans)
    return results


# ------------------------------------------------------------------------------------------------
# thorough: real threads (soak; every observed dump must be one of the committed states)

def soak_job(job):
    from whoosh import index
    compound, mmap, ram = job["config"]
    rng = random.Random(job["seed"])
    base = tempfile.mkdtemp(prefix="c03s-", dir=job["scratch"])
    bad = []
    n_obs = [0]
    try:
        if ram:
            st = T.TracingRamStorage()
            st.tmpbase = base
        else:
            st = T.TracingFileStorage(os.path.join(base, "ix"), supports_mmap=mmap)
            os.makedirs(st.folder)
        st.tracer.enabled = False
        index.FileIndex.create(st, T.make_schema(), IX)
        ix = index.FileIndex(st, indexname=IX)   # no schema override: the TOC's schema is used
        states = {}        # generation -> sorted keys
        states[0] = []
        stop = threading.Event()
        lock = threading.Lock()

        def reader_loop(mode):
            s = None
            try:
                while not stop.is_set():
                    try:
                        if mode == "fresh" or s is None:
                            if s is not None:
                                s.close()
                            s = ix.searcher()
                        else:
                            s = s.refresh()
                        g = s.reader().generation()
                        keys = sorted(sf["k"] for sf in s.reader().all_stored_fields())
                        with lock:
                            n_obs[0] += 1
                            known = dict(states)
                        # the generation may have been published a moment before the writer thread
                        # recorded it: wait for the record
                        t0 = time.time()
                        while g is not None and g not in known and time.time() - t0 < 2:
                            time.sleep(0.01)
                            with lock:
                                known = dict(states)
                        if g is None:
                            if keys:
                                bad.append(("generation None with documents", mode, keys))
                        elif g not in known:
                            bad.append(("unknown generation", mode, g))
                        elif known[g] != keys:
                            bad.append(("content of generation %d" % g, mode, known[g], keys))
                    except Exception as e:  # noqa
                        bad.append(("raises", mode, "%s: %s" % (T.errname(e), str(e)[:100])))
                        s = None
            finally:
                if s is not None:
                    try:
                        s.close()
                    except Exception:
                        pass

        threads = [threading.Thread(target=reader_loop, args=(m,), daemon=True) for m in ("fresh", "refresh", "refresh")]
        for t in threads:
            t.start()
        docs = {}
        state = {"next": 0, "live": []}
        for i in range(job["ntxn"]):
            txn = T.gen_txn(rng, state, force={"compound": compound, "outcome": "commit", "schema": None})
            with lock:
                # published under the lock so readers never see a generation we have not recorded
                T.run_txn(ix, txn)
                # (the model is applied after the run: an undelete operation records what it did)
                new = T.model_apply(docs, txn)
                states[ix.latest_generation()] = sorted(new)
            docs = new
            state["live"] = sorted(int(k[1:]) for k in docs)
            time.sleep(0.002)
        stop.set()
        for t in threads:
            t.join(10)
    finally:
        shutil.rmtree(base, ignore_errors=True)
    return {"seed": job["seed"], "config": job["config"], "bad": bad[:5], "nbad": len(bad), "observations": n_obs[0]}


def _soak(ctx, scratch):
    jobs = []
    i = 0
    for cfg in [(True, True, False), (True, False, False), (True, False, True)]:
        for rep in range(ctx.budget(0, 4)):
            jobs.append({"seed": "%s:%s:soak:%d" % (ID, ctx.seed, i), "config": cfg, "ntxn": 25, "scratch": scratch})
            i += 1
    for r in ctx.pmap(soak_job, jobs):
        ctx.stat("soak:observations", r["observations"])
        ctx.case(("soak", r["seed"]), nontrivial=r["observations"] > 10, n=r["observations"])
        if r["nbad"]:
            ctx.violation("thread-soak:reader-sees-unknown-state", {"seed": r["seed"], "config": r["config"]},
                          "every observation equals a committed generation", r["bad"])


# ------------------------------------------------------------------------------------------------
# ix.reader() racing with commits: writer transactions are run at a chosen boundary *inside* the
# reader's open sequence (between its TOC read and its file opens), so that the retry loop of
# FileIndex.reader really runs; the Lean step machine `mrun` predicts where the reader ends up.

def race_job(job):
    if job.get("deadline") and time.time() > job["deadline"]:
        return {"seed": job["seed"], "config": job["config"], "skipped": True}
    try:
        return _race_job(job)
    except Exception as e:  # noqa
        import traceback
        return {"seed": job["seed"], "config": job["config"], "fatal": "%s: %s" % (T.errname(e), str(e)[:200]),
                "tb": traceback.format_exc()[-1500:]}


def _entries(st, ram):
    if not ram:
        return T.dir_entries(st, IX)
    import re
    pat = re.compile("^_%s_([0-9]+)\\.toc$" % IX)
    names = sorted(st.list())
    res = []
    for n in names:
        m = pat.match(n)
        ti = T.toc_info(st, IX, int(m.group(1)), names) if m else None
        res.append((n, "c", len(st.files[n]), ti))
    return res


_CTOR_ORDER = None


def _file_class(name):
    """coarse class of a segment file: the per-document files (columns, vectors) form one group"""
    if name.endswith(".col") or name.endswith(".vps"):
        return "perdoc"
    return name[name.rfind("."):]


def _ctor_order():
    """Which classes of segment files a `SegmentReader` constructor opens, and in which order: read
    off the running code (one tiny compound and one tiny loose index on a tracing storage), so that
    nothing about the codec's laziness is hard-coded in the step-machine requests."""
    global _CTOR_ORDER
    if _CTOR_ORDER is None:
        from whoosh import index
        order = []
        for compound in (True, False):
            st = T.TracingRamStorage()
            st.tracer.enabled = False
            index.FileIndex.create(st, T.make_schema(), IX)
            ix = index.FileIndex(st, indexname=IX)
            w = ix.writer(compound=compound)
            w.add_document(k=u"k0", t=u"alfa bravo", g=u"alfa", n=1)
            w.commit(merge=False)
            st.tracer.events[:] = []
            st.tracer.enabled = True
            r = ix.reader()
            st.tracer.enabled = False
            r.close()
            for ev in st.tracer.events:
                if ev[1] == "open" and not ev[2].startswith("_"):
                    c = _file_class(ev[2])
                    if c not in order:
                        order.append(c)
        _CTOR_ORDER = order
    return _CTOR_ORDER


def _order_files(info):
    """The files of each segment that the reader's constructor opens, in the order it opens them
    (within a class: by name)."""
    gen, sid, segs = info
    order = _ctor_order()

    def key(n):
        return (order.index(_file_class(n)), n)
    return (gen, sid, [(s, c, sorted((f for f in fl if _file_class(f) in order), key=key), d)
                       for s, c, fl, d in segs])


def _race_job(job):
    from whoosh import index
    import re
    compound, mmap, ram = job["config"]
    rng = random.Random(job["seed"])
    base = tempfile.mkdtemp(prefix="c03r-", dir=job["scratch"])
    try:
        if ram:
            st = T.TracingRamStorage()
            st.tmpbase = base
        else:
            d = os.path.join(base, "ix")
            os.makedirs(d)
            st = T.TracingFileStorage(d, supports_mmap=mmap)
        tr = st.tracer
        tr.enabled = False
        index.FileIndex.create(st, T.make_schema(), IX)
        ix = index.FileIndex(st, indexname=IX)
        docs = {}
        state = {"next": 0, "live": []}
        for _ in range(rng.randint(1, 3)):
            txn = T.gen_txn(rng, state, force={"compound": compound, "outcome": "commit", "merge": "nomerge",
                                               "schema": None})
            if not any(op[0] == "add" for op in txn["ops"]):
                txn["ops"].append(("add", T.gen_doc(rng, state["next"])))
                state["next"] += 1
            T.run_txn(ix, txn)
            docs = T.model_apply(docs, txn)
            state["live"] = sorted(int(k[1:]) for k in docs)
        mode = job.get("mode", "open")
        s0 = None
        toc_open = None
        if mode == "refresh":
            # a searcher that is one generation behind when the traced refresh() starts
            s0 = ix.searcher()
            toc_open = _order_files(T.toc_info(st, IX, ix.latest_generation()))
            txn = T.gen_txn(rng, state, force={"compound": compound, "outcome": "commit", "merge": "nomerge",
                                               "schema": None})
            txn["ops"].append(("add", T.gen_doc(rng, state["next"])))
            state["next"] += 1
            T.run_txn(ix, txn)
            docs = T.model_apply(docs, txn)
            state["live"] = sorted(int(k[1:]) for k in docs)
        entries0 = _entries(st, ram)
        states = {}

        def snap():
            r = ix.reader()
            try:
                g = ix.latest_generation()
                states[g] = {"dump": T.dump_reader(r), "toc": _order_files(T.toc_info(st, IX, g))}
            finally:
                r.close()
        snap()
        at = job["boundary"]
        ncommits = rng.choice([1, 1, 2])
        fired = [False]
        rcount = [0, 0]
        txns = []

        def hook(tracer, k):
            evs = tracer.events
            while rcount[0] < len(evs):
                if evs[rcount[0]][0] == "rd" and evs[rcount[0]][1] in ("open", "list"):
                    rcount[1] += 1
                rcount[0] += 1
            if fired[0] or rcount[1] < at:
                return
            fired[0] = True
            for _ in range(ncommits):
                txn = T.gen_txn(rng, state, force={"compound": compound, "outcome": "commit", "schema": None,
                                                   "merge": rng.choice(["optimize", "optimize", "default", "clear", "nomerge"])})
                if txn["merge"] == "clear" and not any(op[0] == "add" for op in txn["ops"]):
                    txn["ops"].append(("add", T.gen_doc(rng, state["next"])))
                    state["next"] += 1
                tracer.actor = "w"
                T.run_txn(ix, txn)
                txns.append(txn["merge"])
                tracer.enabled = False
                try:
                    snap()
                finally:
                    tracer.enabled = True
            tracer.actor = "rd"

        tr.events[:] = []
        tr.enabled = True
        tr.actor = "rd"
        tr.hook = hook
        err = None
        got = None
        try:
            if mode == "refresh":
                s1 = s0.refresh()
                rd = s1.reader()
            else:
                rd = ix.reader()
            try:
                tr.hook = None
                tr.enabled = False
                got = {"gen": rd.generation(), "dump": T.dump_reader(rd), "kind": type(rd).__name__,
                       "leaves": [l[0] for l in _describe(rd)[2]]}
            finally:
                rd.close()
        except Exception as e:  # noqa
            err = "%s: %s" % (T.errname(e), str(e)[:160])
        tr.hook = None
        tr.enabled = False
        return {"seed": job["seed"], "config": job["config"], "boundary": at, "events": list(tr.events), "mode": mode,
                "toc_open": toc_open, "leaves": None if got is None else got.get("leaves"),
                "entries0": entries0, "states": states, "got": got, "error": err, "fired": fired[0], "txns": txns}
    finally:
        shutil.rmtree(base, ignore_errors=True)


def _race_request(r):
    import re
    tab = T.NameTable()
    fs = T.fs_sexp(tab, [(n, st_, ln, (_order_files(ti) if ti else None)) for n, st_, ln, ti in r["entries0"]])
    tmppat = re.compile(r"^_%s_([0-9]+)\.toc\." % IX)
    tocpat = re.compile(r"^_%s_([0-9]+)\.toc$" % IX)
    steps = []
    opened = []
    for ev in r["events"]:
        if ev[0] == "rd":
            if ev[1] == "open":
                steps.append("r")
                if tocpat.match(ev[2]):
                    opened = []
                else:
                    opened.append(ev[2])
        elif ev[0] == "w":
            txt, _ = T.events_sexp(tab, [ev])
            steps.append(txt[1:-1])
            if ev[1] == "create":
                m = tmppat.match(ev[2])
                if m and int(m.group(1)) in r["states"]:
                    steps.append("(t %d %s)" % (tab(ev[2]), T.toc_sexp(tab, r["states"][int(m.group(1))]["toc"])))
    steps += ["r", "r"]
    if r.get("mode") == "refresh":
        line = "c03 xmrun %s %s %s %s 10 (%s)" % (T.name_sexp(IX), "%s", fs, T.toc_sexp(tab, r["toc_open"]),
                                                  " ".join(steps))
    else:
        line = "c03 mrun %s %s %s 10 (%s)" % (T.name_sexp(IX), "%s", fs, " ".join(steps))
    return line % tab.sexp(), sorted(opened)


def _races(ctx, scratch, only=None, deadline=None):
    jobs = []
    configs = [(c, m, r) for c in (True, False) for m in (True, False) for r in (False, True)]
    i = 0
    for rep in range(ctx.budget(3, 20)):
        for cfg in configs:
            for b in range(0, 7):
                jobs.append({"seed": "%s:%s:race:%d" % (ID, ctx.seed, i), "config": cfg, "boundary": b,
                             "scratch": scratch, "mode": "open"})
                i += 1
            for b in range(1, 9):
                jobs.append({"seed": "%s:%s:race:%d" % (ID, ctx.seed, i), "config": cfg, "boundary": b,
                             "scratch": scratch, "mode": "refresh"})
                i += 1
    if only is not None:
        names = {"%s/%s/%s" % ("compound" if c else "loose", "mmap" if m else "nommap", "ram" if r else "file"): (c, m, r)
                 for (c, m, r) in configs}
        jobs = [{"seed": only["seed"], "config": names[only["config"]], "boundary": only["reader_boundary"],
                 "scratch": scratch, "mode": only.get("mode", "open")}]
    else:
        # interleave the boundaries / modes so that a run cut by the wall-clock bound still covers all
        order = ctx.rng("race-order")
        order.shuffle(jobs)
        for j in jobs:
            j["deadline"] = deadline
    results = [r for r in ctx.pmap(race_job, jobs, chunksize=4) if not r.get("skipped")]
    ctx.stat("race:jobs-planned", len(jobs))
    ctx.stat("race:jobs-done", len(results))
    lines, keep = [], []
    for r in results:
        cfg = r["config"]
        cfgname = "%s/%s/%s" % ("compound" if cfg[0] else "loose", "mmap" if cfg[1] else "nommap", "ram" if cfg[2] else "file")
        case = {"seed": r["seed"], "config": cfgname, "reader_boundary": r.get("boundary"), "stream": "race-open",
                "mode": r.get("mode", "open")}
        if r.get("fatal"):
            ctx.violation("harness-step-raises", case, "runs", r["fatal"], r["tb"])
            continue
        mode = r["mode"]
        ctx.stat("race-%s:fired" % mode if r["fired"] else "race-%s:not-fired" % mode)
        if r["error"]:
            if mode == "refresh":
                ctx.violation("Searcher.refresh()-raises-while-a-commit-completes", dict(case, commits=r["txns"]),
                              "a refreshed searcher", r["error"],
                              "refresh() (ix.reader(reuse=...)) did not survive a commit that completed during its open")
            else:
                ctx.violation("ix.reader()-raises-while-a-commit-completes", dict(case, commits=r["txns"]), "a reader",
                              r["error"], "FileIndex.reader() did not survive a commit that completed during its open")
            continue
        g = r["got"]["gen"]
        retried = sum(1 for e in r["events"] if e[0] == "rd" and e[1] == "open" and
                      e[2].startswith("_%s_" % IX)) > 1
        ctx.case(("race-" + mode, cfg, r["boundary"], tuple(r["txns"]), retried), nontrivial=r["fired"])
        ctx.stat("race-%s:retried" % mode if retried else "race-%s:first-try" % mode)
        if r["got"]["kind"] != "EmptyReader":
            if g not in r["states"]:
                ctx.violation("ix.reader():unknown-generation", case, sorted(r["states"]), g)
            elif r["got"]["dump"] != r["states"][g]["dump"]:
                ctx.violation("ix.reader():mixture-of-generations", dict(case, commits=r["txns"]),
                              T.dump_keys(r["states"][g]["dump"]), T.dump_keys(r["got"]["dump"]),
                              "a reader opened while a commit completed shows neither the old nor the new state")
        line, opened = _race_request(r)
        lines.append(line)
        keep.append((r, case, opened))
    answers = ctx.driver.ask(lines)
    for (r, case, opened), ans in zip(keep, answers):
        p = parse_sexp(ans)
        if p[0] != "done":
            ctx.divergence("FileIndex.reader (step machine)", case, ans, [r["got"]["gen"], opened])
            continue
        mgen = int(p[1])
        if r.get("mode") == "refresh":
            # recycling open: generation, the segments in order, and which files the last attempt
            # opened (= the segments that were not recycled)
            ctx.stat("race-refresh:compared-with-recycling-machine")
            ctx.stat("race-refresh:files-reopened", len(opened))
            msids = ["".join(chr(int(c)) for c in n) for n in p[2]]
            mnames = sorted("".join(chr(int(c)) for c in n) for n in p[3])
            impl_gen = r["got"]["gen"]
            if r["got"]["kind"] == "EmptyReader":
                impl_gen = mgen
            if mgen != impl_gen or msids != r["leaves"] or mnames != opened:
                ctx.divergence("FileIndex.reader(reuse) (step machine with recycling)", dict(case, commits=r["txns"]),
                               [mgen, msids, mnames], [r["got"]["gen"], r["leaves"], opened])
            continue
        mnames = sorted("".join(chr(int(c)) for c in n) for n in p[2])
        impl_gen = r["got"]["gen"]
        if r["got"]["kind"] == "EmptyReader":
            impl_gen = mgen if not mnames else impl_gen
        if mgen != impl_gen or mnames != opened:
            ctx.divergence("FileIndex.reader (step machine)", dict(case, commits=r["txns"]), [mgen, mnames],
                           [r["got"]["gen"], opened])


def _buffered_refresh(ctx, scratch):
    """Searchers handed out by BufferedWriter: refresh() before a flush must keep the buffered
    documents (tests/test_searching.py::test_buffered_refresh), refresh() after the flush must
    show every document once."""
    from whoosh import index, writing
    rng = ctx.rng("buffered")
    for i in range(ctx.budget(4, 20)):
        base = tempfile.mkdtemp(prefix="c03b-", dir=scratch)
        try:
            st = T.TracingRamStorage()
            st.tmpbase = base
            st.tracer.enabled = False
            index.FileIndex.create(st, T.make_schema(), IX)
            ix = index.FileIndex(st, indexname=IX)
            npre = rng.randint(0, 2)
            if npre:
                w = ix.writer()
                for j in range(npre):
                    w.add_document(**T.gen_doc(rng, 100 + j))
                w.commit()
            bw = writing.BufferedWriter(ix, period=None, limit=100)
            try:
                n = rng.randint(1, 4)
                for j in range(n):
                    bw.add_document(**T.gen_doc(rng, j))
                s = bw.searcher()
                want = sorted([u"k%d" % (100 + j) for j in range(npre)] + [u"k%d" % j for j in range(n)])
                got0 = sorted(sf["k"] for sf in s.reader().all_stored_fields())
                s1 = s.refresh()
                got1 = sorted(sf["k"] for sf in s1.reader().all_stored_fields())
                bw.commit()
                s2 = s1.refresh()
                got2 = sorted(sf["k"] for sf in s2.reader().all_stored_fields())
            finally:
                bw.close()
            case = {"seed": "buffered:%d" % i, "committed_before": npre, "buffered": n}
            ctx.case(("buffered-refresh", npre, n), nontrivial=True)
            ctx.stat("buffered-refresh")
            if got0 != want or got1 != want:
                ctx.violation("BufferedWriter.searcher():refresh-before-flush-loses-buffered-documents", case, want,
                              [got0, got1])
            if got2 != want:
                if sorted(set(got2)) == want and len(got2) > len(want):
                    ctx.violation("BufferedWriter.searcher().refresh():buffered-documents-twice-after-flush", case, want,
                                  got2, "the in-memory segment of the recycled reader is carried over although the "
                                        "flush has written the same documents to a stored segment")
                else:
                    ctx.violation("BufferedWriter.searcher().refresh():content-after-flush", case, want, got2)
        finally:
            shutil.rmtree(base, ignore_errors=True)


# ------------------------------------------------------------------------------------------------
# searcher-level read API (sorted / grouped / term searches) of held, refreshed and fresh searchers.
# The history streams above dump the *reader*; whatever a Searcher keeps per instance on top of its
# reader (e.g. the document orders sorting.PostingCategorizer caches for fields without a column)
# is only observable through Searcher.search().  Every searcher is probed (= its caches are warm)
# before the commit, and the commits include count-preserving ones (replace k documents and merge:
# the same doc_count()/doc_count_all(), other documents and another numbering).

SEARCH_PROBES = ("sorted k", "sorted k reversed", "sorted g,k", "sorted n,k", "grouped g", "term g", "doc_count")


def _search_probe(s):
    from whoosh import query
    every = query.Every()

    def keys(res):
        return [h["k"] for h in res]
    out = {}
    out["sorted k"] = keys(s.search(every, sortedby="k", limit=None))
    out["sorted k reversed"] = keys(s.search(every, sortedby="k", reverse=True, limit=None))
    out["sorted g,k"] = keys(s.search(every, sortedby=["g", "k"], limit=None))
    out["sorted n,k"] = keys(s.search(every, sortedby=["n", "k"], limit=None))
    res = s.search(every, groupedby="g", limit=None)
    out["grouped g"] = sorted([g, sorted(s.stored_fields(d)["k"] for d in dl)] for g, dl in res.groups("g").items())
    out["term g"] = [[g, sorted(keys(s.search(query.Term("g", g), limit=None)))] for g in T.WORDS[:3]]
    out["doc_count"] = [s.doc_count(), len(out["sorted k"])]
    return out


def _search_model(docs):
    ks = sorted(docs)
    out = {}
    out["sorted k"] = ks
    out["sorted k reversed"] = ks[::-1]
    out["sorted g,k"] = sorted(ks, key=lambda k: (docs[k]["g"], k))
    out["sorted n,k"] = sorted(ks, key=lambda k: (docs[k]["n"], k))
    groups = {}
    for k in ks:
        groups.setdefault(docs[k]["g"], []).append(k)
    out["grouped g"] = sorted([g, v] for g, v in groups.items())
    out["term g"] = [[g, groups.get(g, [])] for g in T.WORDS[:3]]
    out["doc_count"] = [len(ks), len(ks)]
    return out


def _replace_txn(rng, state, compound, merge):
    """A commit that keeps the number of documents: every operation replaces one live document
    (update_document, or delete + add of a new key)."""
    live = list(state["live"])
    rng.shuffle(live)
    ops = []
    for k in live[:rng.randint(1, 3)]:
        if rng.random() < 0.7:
            ops.append(("update", T.gen_doc(rng, k)))
        else:
            ops.append(("delete", u"k%d" % k))
            ops.append(("add", T.gen_doc(rng, state["next"])))
            state["next"] += 1
    if merge in ("optimize",):
        state["tomb"] = []
    return {"ops": ops, "merge": merge, "compound": compound, "outcome": "commit", "schema": None}


def search_job(job):
    try:
        return _search_job(job)
    except Exception as e:  # noqa
        import traceback
        return {"seed": job["seed"], "config": job["config"], "steps": 0, "bad": [
            {"sig": "harness-step-raises", "txn": -1, "history": [], "expected": "history runs",
             "observed": "%s: %s" % (T.errname(e), str(e)[:200]), "desc": traceback.format_exc()[-1500:]}]}


def _search_job(job):
    from whoosh import index
    compound, mmap, ram = job["config"]
    rng = random.Random(job["seed"])
    base = tempfile.mkdtemp(prefix="c03q-", dir=job["scratch"])
    bad = []
    history = []
    keys = []
    searchers = []
    try:
        if ram:
            st = T.TracingRamStorage()
            st.tmpbase = base
        else:
            d = os.path.join(base, "ix")
            os.makedirs(d)
            st = T.TracingFileStorage(d, supports_mmap=mmap)
        st.tracer.enabled = False
        index.FileIndex.create(st, T.make_schema(), IX)
        ix = index.FileIndex(st, indexname=IX)
        docs = {}
        state = {"next": 0, "live": []}
        chain = ix.searcher()       # refreshed after every transaction
        searchers.append(chain)
        for ti in range(job["ntxn"]):
            if ti == 0:
                txn = T.gen_txn(rng, state, force={"compound": compound, "outcome": "commit", "schema": None,
                                                   "merge": rng.choice(["nomerge", "default"]), "min_adds": 4})
            elif ti % 2 == 1 and state["live"]:
                merge = job["merge1"] if ti == 1 else rng.choice(["optimize", "default", "nomerge"])
                txn = _replace_txn(rng, state, compound, merge)
            else:
                txn = T.gen_txn(rng, state, force={"compound": compound, "schema": None})
            held = ix.searcher()
            searchers.append(held)
            held_before = _search_probe(held)
            if ti:
                _search_probe(chain)            # (a searcher in use: its caches are warm)
            counts_old = (chain.doc_count_all(), chain.doc_count())
            outcome = T.run_txn(ix, txn)
            history.append(txn)
            docs = T.model_apply(docs, txn)
            state["live"] = sorted(int(k[1:]) for k in docs)
            want = _search_model(docs)
            held_after = _search_probe(held)
            new = chain.refresh()
            if new is not chain:
                searchers.append(new)
            chain = new
            got = _search_probe(chain)
            utd = chain.up_to_date()
            with ix.searcher() as f:
                fresh = _search_probe(f)
            counts_new = (chain.doc_count_all(), chain.doc_count())
            same_counts = outcome == "commit" and counts_new == counts_old and bool(txn["ops"])
            keys.append((tuple(job["config"]), outcome, txn["merge"], same_counts, len(docs),
                         tuple(op[0] for op in txn["ops"])))

            def report(sig, expected, observed, desc=""):
                bad.append({"sig": sig, "txn": ti, "history": list(history), "expected": expected,
                            "observed": observed, "desc": desc})
            for name in SEARCH_PROBES:
                if fresh[name] != want[name]:
                    report("ix.searcher():search-differs-from-committed-state:" + name.split()[0], want[name],
                           fresh[name])
                elif got[name] != want[name]:
                    report("Searcher.refresh():search-differs-from-fresh-searcher:" + name.split()[0], want[name],
                           got[name], "a searcher refreshed after the commit (up_to_date() = %r; document counts "
                           "%r -> %r) answers %r differently from ix.searcher() on the same generation and from "
                           "the committed documents" % (utd, counts_old, counts_new, name))
                if held_after[name] != held_before[name]:
                    report("held-searcher:search-changes-under-commit:" + name.split()[0], held_before[name],
                           held_after[name])
            if not utd and docs:
                report("Searcher.refresh():not-up-to-date", True, utd)
            held.close()
            if bad:
                break
    finally:
        for s in searchers:
            try:
                s.close()
            except Exception:
                pass
        shutil.rmtree(base, ignore_errors=True)
    return {"seed": job["seed"], "config": job["config"], "steps": len(history), "bad": bad, "keys": keys}


def _searcher_api(ctx, scratch, only=None):
    configs = [(c, m, r) for r in (False, True) for c in (True, False) for m in (True, False)]
    jobs = []
    if only is not None:
        jobs.append({"seed": only["seed"], "config": tuple(only["config"]), "ntxn": only.get("txn", 4) + 1,
                     "merge1": only.get("merge1", "optimize"), "scratch": scratch})
    else:
        for i in range(ctx.budget(8, 48)):
            jobs.append({"seed": "%s:%s:searcher-api:%d" % (ID, ctx.seed, i), "config": configs[i % len(configs)],
                         "ntxn": 5, "merge1": "default" if i % 4 == 3 else "optimize", "scratch": scratch})
    for job, res in zip(jobs, ctx.pmap(search_job, jobs)):
        ctx.stat("searcher-api:transactions", res["steps"])
        for key in res.get("keys", []):
            # non-trivial: the transaction committed operations (the refreshed searcher is a new object)
            ctx.case(("searcher-api",) + key, nontrivial=key[1] == "commit" and bool(key[5]))
            if key[3]:
                ctx.stat("searcher-api:count-preserving-commits")
        for b in res["bad"]:
            cfg = job["config"]
            case = {"stream": "searcher-api", "seed": job["seed"], "config": list(cfg), "merge1": job["merge1"],
                    "txn": b["txn"], "history": b["history"]}
            ctx.violation(b["sig"], case, b["expected"], b["observed"], b["desc"])


def run(ctx):
    _corpus(ctx)
    with ctx.scratch() as scratch:
        quick = ctx.tier == "quick"
        # wall-clock bounds (from the start of the check): boosted budgets or a loaded machine mean
        # fewer cases, not a longer run
        _buffered_refresh(ctx, scratch)
        _searcher_api(ctx, scratch)
        _races(ctx, scratch, deadline=ctx.t0 + (25 if quick else 200))
        _run_histories(ctx, "main", scratch, per_config=ctx.budget(2, 12), ntxn=4 if quick else 6,
                       deadline=ctx.t0 + (55 if quick else 480))
        if ctx.tier == "thorough":
            _soak(ctx, scratch)
        unexpected = [v for v in ctx.violations if not _is_listed(v["signature"])]
        if ctx.divergences or unexpected:
            _run_histories(ctx, "search", scratch, per_config=ctx.budget(2, 6), ntxn=5,
                           deadline=time.time() + (15 if quick else 120))


def _is_listed(sig):
    import json
    root = os.path.dirname(os.path.dirname(os.path.dirname(os.path.abspath(__file__))))
    for p in [os.path.join(root, "known_findings.json"), os.path.join(root, "findings", "%s.json" % ID)]:
        if os.path.exists(p):
            for k in json.load(open(p)):
                if k.get("signature") == sig and k.get("status") == "finding":
                    return True
    return False


def _corpus(ctx):
    import json
    root = os.path.dirname(os.path.dirname(os.path.dirname(os.path.abspath(__file__))))
    cdir = os.path.join(root, "corpus", ID)
    if not os.path.isdir(cdir):
        return
    with ctx.scratch() as scratch:
        for n in sorted(os.listdir(cdir)):
            if n.endswith(".json"):
                ctx.stat("corpus-replayed")
                _replay_case(ctx, json.load(open(os.path.join(cdir, n))), scratch)


def _replay_case(ctx, rec, scratch):
    case = rec.get("case", rec)
    if "seed" not in case or "config" not in case:
        return False
    if case.get("stream") == "race-open":
        before = len(ctx.violations) + len(ctx.divergences)
        _races(ctx, scratch, only=case)
        return len(ctx.violations) + len(ctx.divergences) > before
    if case.get("stream") == "searcher-api":
        before = len(ctx.violations) + len(ctx.divergences)
        _searcher_api(ctx, scratch, only=case)
        return len(ctx.violations) + len(ctx.divergences) > before
    cfgs = {"%s/%s/%s" % ("compound" if c else "loose", "mmap" if m else "nommap", "ram" if r else "file"): (c, m, r)
            for c in (True, False) for m in (True, False) for r in (False, True)}
    cfg = cfgs.get(case["config"], None) if isinstance(case["config"], str) else tuple(case["config"])
    before = len(ctx.violations) + len(ctx.divergences)
    job = {"seed": case["seed"], "config": cfg, "ntxn": case.get("txn", 0) + 1, "scratch": scratch}
    _run_histories(ctx, "replay", scratch, 0, 0, seeds=[job])
    return len(ctx.violations) + len(ctx.divergences) > before


def replay(ctx, rec):
    with ctx.scratch() as scratch:
        hit = _replay_case(ctx, rec, scratch)
    want = rec.get("signature")
    for v in ctx.violations:
        print("expected:", v["expected"], "observed:", v["observed"], v["signature"])
    for dv in ctx.divergences[:3]:
        print("divergence:", dv["component"], dv["model"], dv["impl"])
    if want:
        return any(v["signature"] == want for v in ctx.violations)
    return hit
