"""C17 — index- and query-time analysis agree: documents are findable by their own words."""
import re
import sys

ID = "C17"
LEVEL = "other"
LEAN_IMPORTS = ["WM.Props.C17"]
THEOREMS = ["WM.C17.positions", "WM.C17.offsets", "WM.C17.mode_agree_chain", "WM.C17.mode_agree_ngrams",
            "WM.C17.findable", "WM.C17.findable_chain", "WM.C17.findable_ngramwords", "WM.C17.highlight",
            "WM.C17.findable_postings", "WM.C17.findable_postings_chain", "WM.C17.findable_postings_ngramwords",
            "WM.C17.mode_agree_multi", "WM.C17.findable_multi", "WM.C17.offsets_delimited"]
_MODELLED = (
    "holds for the modelled components only: regular-expression tokenizers (default pattern, space- and "
    "comma-separated, \\S+), IDTokenizer, NgramTokenizer and the Lowercase/Strip/Pass/Stop/Ngram/BiWord filters, the "
    "text-rewriting filters Charset/ReverseText/Substitution (string function as parameter), StemFilter (stemming "
    "function as parameter), MultiFilter and DelimitedAttributeFilter (text and character range; any delimiter) - "
    "not 'all shipped analyzers/filters': the stemming algorithms themselves, "
    "intraword/compound/shingle/tee/metaphone components and the language analyzers are decided by the "
    "end-to-end relation test only (exploration)")
PARTIAL = {
    "WM.C17.positions": _MODELLED + "; stated for a .regex tokenizer followed by Lowercase/Strip/Pass/Stop/text-rewriting/"
                        "Stem filters and MultiFilters of those "
                        "(ngram and biword chains also preserve offsets but are not covered by the theorem)",
    "WM.C17.offsets": _MODELLED + "; stated for a .regex tokenizer followed by Lowercase/Strip/Pass/Stop/text-rewriting "
                      "filters (the token's text is the chain's text function applied to text[startchar:endchar])",
    "WM.C17.offsets_delimited":
        "DelimitedAttributeFilter directly behind a .regex tokenizer, followed by Lowercase/Strip/Pass/Stop/text-rewriting "
        "filters (a text-changing filter *before* it is excluded: the cut is made in the changed text, the range is "
        "reduced by a count of changed characters); the attribute value the filter sets (and the exception its "
        "conversion may raise: recorded finding for the default float type) is not in the model; `startchar <= endchar` "
        "only: a token that begins with the delimiter is left empty",
    "WM.C17.mode_agree_chain":
        "for chains without n-gram filters and without MultiFilter (hypothesis `modeFree`): for those the model's "
        "`runFilter` does not read `mode`, as the code of these filters does not, so the statement is close to true by "
        "construction; the mode-dependent shipped components are covered by mode_agree_ngrams and mode_agree_multi. "
        "`removestops` is a constant of the filter, not a per-call flag: index and query calls with different "
        "removestops are excluded by the model, not proved (correspondence-tested in both modes with and without "
        "removestops on every run, relation-tested end to end). " + _MODELLED,
    "WM.C17.mode_agree_multi":
        "MultiFilter really selects its branch by the stream's mode in the model; the theorem needs `hbr` (the query "
        "branch only yields texts the index branch yields from the same tokens - true of two equal NgramFilters, meant "
        "to be true of the IntraWordFilter pair of the documentation, which is not modelled) and text-wise filters after "
        "it (Lowercase/Strip/Pass/Stop/text-rewriting; Stem, Ngram, BiWord after a MultiFilter are not covered)",
    "WM.C17.findable_multi": "see mode_agree_multi and findable",
    "WM.C17.mode_agree_ngrams": _MODELLED,
    "WM.C17.findable":
        "a statement about the token list (`termMatches`/`phraseMatches` are defined on it): it does not reach the "
        "observable search(Term/And/Phrase). `findable_postings*` carry it to the posting lists C10 specifies "
        "(`WM.Codec.specPostings`); from posting lists to matching documents is C01's denotation of Term/And/Phrase "
        "and is not composed here - the end-to-end run checks the observable (own tokens, query-time conjunction, "
        "parser term, consecutive-position phrases all find the document) for every shipped analyzer",
    "WM.C17.findable_chain": "see findable; mode-free chains of modelled components only",
    "WM.C17.findable_ngramwords": "see findable; modelled NgramFilter chains only",
    "WM.C17.findable_postings":
        "reaches C10's specification of the posting lists (which C10 proves the codec stores and reads back), under "
        "the hypothesis that the posting writer receives exactly the analysed tokens (`hix`; stop-word removal and "
        "the per-field token boosts of SegmentWriter.add_document are not modelled here); the step from posting lists "
        "to search results (C01) is not composed",
    "WM.C17.findable_postings_chain": "see findable_postings; mode-free chains of modelled components only",
    "WM.C17.findable_postings_ngramwords": "see findable_postings; modelled NgramFilter chains only",
    "WM.C17.highlight":
        "covers Formatter.format_fragment only: the excerpt without markup is one slice of the text and every marked "
        "span is text[startchar:endchar] of one of the *supplied* matches `ms`. Nothing ties `ms` to the query's terms: "
        "the fragmenters, Highlighter._merge_matched_tokens, re-tokenisation, GenshiFormatter.format_fragment, the "
        "`startchar is None` skip and highlight_hit's filtering of matched_terms() by field are not modelled; the half "
        "'marked spans are matched query terms' is only relation-tested end to end (5 fragmenters x 3 formatters, and a "
        "multi-field stream with terms=True/False)",
}
RULE = ("case = (analyzer or field type, text); texts are generated from a multi-script pool (plain/stop words, "
        "dots/underscores/hyphens, digits, accented/CJK/RTL/astral characters, URLs, very long and one-letter "
        "tokens, boost syntax) glued with varied separators; non-trivial = the index-time analysis yields at "
        "least two tokens; distinct = distinct (analyzer, text)")
ASSUMPTIONS = []
TRUSTED = []

SEP = "␞"   # between-fragments marker that cannot occur in the generated texts


def _work(args):
    """Worker: one analyzer (three TEXT field variants) or one built-in field type, many texts."""
    kind, name, texts = args
    from gen import analysis as A
    from whoosh import fields, query, highlight, qparser
    from whoosh.filedb.filestore import RamStorage
    from whoosh.query import QueryError
    import html
    out = {"kind": kind, "name": name, "cases": [], "viol": []}
    import time
    out["t0"] = time.time()

    def viol(sig, text, expected, observed, desc=""):
        out["viol"].append((sig, {"analyzer": name, "kind": kind, "text": text}, expected, observed, desc))

    if kind == "analyzer":
        ana = A.get_analyzer(name)
        if isinstance(ana, Exception):
            out["skipped"] = repr(ana)
            return out
        fdict = A.make_fields(name)
        rel, onepos = A.CATALOGUE[name][1], A.CATALOGUE[name][2]
        if name in A.NO_CHARS:
            del fdict["c"]
    else:
        fdict = {"x": A.BUILTIN_FIELDS[name]()}
        rel, onepos = "none", False
    base = ("c" if "c" in fdict else "p") if kind == "analyzer" else "x"
    schema = fields.Schema(id=fields.ID(stored=True), **fdict)
    # --- token-level checks (index mode, query mode)
    toks = {}
    for ti, text in enumerate(texts):
        per = {}
        for fname, field in fdict.items():
            if fname != base:
                continue
            ana = field.analyzer
            try:
                itoks = A.capture(ana, text, positions=True, chars=True, mode="index")
                qtoks = A.capture(ana, text, positions=True, chars=True, mode="query")
            except Exception as e:
                viol("analyze:%s:%s" % A.exc_signature(e, sys.exc_info()[2]), text, "tokens", repr(e)[:200],
                     "the analyzer raised on this text")
                itoks = qtoks = None
            per[fname] = (itoks, qtoks)
            if itoks is None:
                continue
            out["cases"].append((text, len(itoks)))
            # positions
            poses = [t[1] for t in itoks]
            if any(b < a for a, b in zip(poses, poses[1:])):
                viol("positions:decrease", text, "non-decreasing positions", poses[:40], "")
            elif onepos and any(b <= a for a, b in zip(poses, poses[1:])):
                viol("positions:not-strictly-increasing", text, "strictly increasing positions", poses[:40], "")
            # offsets
            n = len(text)
            for (tt, pos, sc, ec, boost, stopped) in itoks:
                if sc is None or ec is None:
                    continue
                if not (0 <= sc <= ec <= n):
                    cause = "out-of-range"
                    if any(len(ch.lower()) != 1 for ch in text):
                        cause += ":length-changing-lowercase"
                    viol("offsets:" + cause, text, "0 <= start <= end <= %d" % n, (tt, sc, ec), "")
                    break
                src = text[sc:ec]
                ok = True
                if callable(rel):
                    ok = rel(src, tt)
                elif rel == "exact":
                    ok = tt == src
                elif rel == "lower":
                    ok = tt == src.lower()
                elif rel == "strip":
                    ok = tt == src.strip()
                elif rel == "striplower":
                    ok = tt == src.strip().lower()
                if not ok:
                    cause = rel if isinstance(rel, str) else rel.name
                    if any(len(ch.lower()) != 1 for ch in text):
                        cause = cause + ":length-changing-lowercase"
                    viol("offsets:text-mismatch:" + cause, text, src, (tt, sc, ec),
                         "text[startchar:endchar] is not the token's source text")
                    break
            if onepos and rel != "none":
                spans = [(t[2], t[3]) for t in itoks if t[2] is not None]
                if any(b[0] < a[1] for a, b in zip(spans, spans[1:])):
                    viol("offsets:overlap", text, "non-overlapping", spans[:20], "")
        toks[ti] = per
    # --- index
    import os
    st = RamStorage()
    # (RamStorage keeps its temporary files under <tmp>/<indexname>.tmp: the name must be unique)
    ix = st.create_index(schema, indexname="c17x%dx%s" % (os.getpid(), re.sub(r"\W", "", name)))
    w = ix.writer()
    indexed = set()
    for ti, text in enumerate(texts):
        try:
            w.add_document(id=u"%d" % ti, **dict((fn, text) for fn in fdict))
            indexed.add(ti)
        except Exception as e:
            viol("index:%s:%s" % A.exc_signature(e, sys.exc_info()[2]), text, "document indexed", repr(e)[:200], "")
            w.cancel()
            w = ix.writer()
            for tj in sorted(indexed):
                w.add_document(id=u"%d" % tj, **dict((fn, texts[tj]) for fn in fdict))
    w.commit()
    parser_cache = {}
    with ix.searcher() as s:
        docnum = {}
        for dn, stored in s.iter_docs():
            docnum[int(stored["id"])] = dn

        def matches(q, ti):
            return docnum[ti] in set(s.docs_for_query(q))
        for ti in sorted(indexed):
            text = texts[ti]
            for fname, field in fdict.items():
                itoks, qtoks = toks[ti][base]
                if itoks is None:
                    continue
                try:
                    # what is actually indexed (stop words removed)
                    words = [t[0] for t in A.capture(field.analyzer, text, positions=True, chars=True, mode="index")]
                    for wd in sorted(set(words))[:40]:
                        if not matches(query.Term(fname, wd), ti):
                            viol("findable:own-token", text, "Term(%r) matches" % wd, "no match",
                                 "a token produced at index time does not find the document")
                            break
                    # query-time analysis of the same text
                    qwords = list(field.process_text(text, mode="query"))
                    # each distinct token once, at most 300 of them: And builds a left-deep chain of
                    # IntersectionMatchers (one level per clause), ~1000 clauses exhaust the recursion
                    # limit; QueryParser output is normalized (duplicates merged) anyway
                    qwords = sorted(set(qwords))[:300]
                    if words and not qwords:
                        viol("findable:query-time-no-tokens", text, "query-time tokens", [],
                             "the text yields tokens at index time (%r...) but none under query-time analysis: "
                             "the query built from the document's own text is empty" % words[:3])
                    if qwords and not matches(query.And([query.Term(fname, x) for x in qwords]), ti):
                        missing = [x for x in qwords if not matches(query.Term(fname, x), ti)]
                        viol("findable:query-time-conjunction", text, "And(query-time tokens) matches",
                             {"missing": missing[:10]},
                             "the conjunction of the tokens the text yields under query-time analysis does not "
                             "find the document")
                    # what the parser does with user text for that field
                    if fname not in parser_cache:
                        parser_cache[fname] = qparser.QueryParser(fname, schema)
                    qp = parser_cache[fname]
                    pieces = [text]
                    # (not for a tokenizer whose expression looks around - the URL pattern ends a URL
                    # "at a dot followed by the end": where such a match ends depends on what follows
                    # it, so a source word typed on its own is legitimately cut differently)
                    tkz = getattr(field.analyzer, "items", [field.analyzer])[0]
                    pat = getattr(getattr(tkz, "expression", None), "pattern", "") or ""
                    lookaround = any(x in pat for x in ("(?=", "(?!", "(?<=", "(?<!"))
                    if kind == "analyzer" and onepos and name not in A.NO_CHARS and not lookaround:
                        # word-by-word analyzers: also single source words, as a user would type them
                        # (the first, the last and some in between: a word must be analysed the same
                        # way wherever it stands in the text)
                        srcs = [text[t[2]:t[3]] for t in itoks if t[2] is not None and t[3] > t[2]]
                        pieces += srcs[:4] + srcs[-2:]
                    for piece in pieces:
                        q = qp.term_query(fname, piece, query.Term)
                        if q is None or (hasattr(q, "subqueries") and not q.subqueries):
                            continue   # no tokens: the empty conjunction claims nothing
                        q = q.normalize()   # as parse() does: merges the duplicate clauses
                        if hasattr(q, "subqueries") and len(q.subqueries) > 300:
                            continue   # see above: one matcher level per clause
                        try:
                            okm = matches(q, ti)
                        except QueryError:
                            continue
                        if not okm:
                            viol("findable:parser-term", text, "term_query(%r) matches" % piece[:80], repr(q)[:200],
                                 "the query the parser builds for the document's own text (or one of its words) "
                                 "does not find the document")
                            break
                    # phrases of consecutive positions
                    if field.format is not None and field.format.supports("positions") and len(itoks) >= 2:
                        bypos = {}
                        freq = {}
                        for t in A.capture(field.analyzer, text, positions=True, chars=True, mode="index"):
                            bypos.setdefault(t[1], t[0])
                            freq[t[0]] = freq.get(t[0], 0) + 1
                        ps = sorted(bypos)
                        runs = 0
                        for a in range(len(ps) - 1):
                            for k in (2, 3):
                                run = ps[a:a + k]
                                if any(freq[bypos[x]] > 12 for x in run):
                                    # a phrase of words that each occur very often ("abababab...") makes
                                    # the span matcher enumerate a quadratic number of spans: minutes
                                    continue
                                if len(run) == k and all(y == x + 1 for x, y in zip(run, run[1:])):
                                    q = query.Phrase(fname, [bypos[x] for x in run])
                                    runs += 1
                                    if not matches(q, ti):
                                        viol("findable:phrase", text, "%r matches" % q, "no match",
                                             "the phrase of tokens at consecutive positions does not find the document")
                                        break
                            if runs > 8:
                                break
                except Exception as e:
                    viol("search:%s:%s" % A.exc_signature(e, sys.exc_info()[2]), text, "results", repr(e)[:200], "")
        # --- highlighting
        frags = [("whole", highlight.WholeFragmenter()), ("sentence", highlight.SentenceFragmenter(maxchars=60)),
                 ("context", highlight.ContextFragmenter(maxchars=50, surround=10)),
                 ("pinpoint", highlight.PinpointFragmenter(maxchars=50, surround=10)),
                 ("pinpoint-autotrim", highlight.PinpointFragmenter(maxchars=50, surround=10, autotrim=True))]
        fmts = [("null", highlight.NullFormatter()), ("html", highlight.HtmlFormatter(between=SEP)),
                ("upper", highlight.UppercaseFormatter(between=SEP))]
        fmts[0][1].between = SEP
        for ti in sorted(indexed)[:40]:
            text = texts[ti]
            for fname, field in fdict.items():
                if fname == "f" or name in A.NO_CHARS:
                    continue
                itoks, _ = toks[ti][base]
                if not itoks:
                    continue
                words = sorted(set(t[0] for t in itoks if not t[5]))
                pick = words[:: max(1, len(words) // 3)][:3]
                q = query.Or([query.Term(fname, x) for x in pick])
                try:
                    res = s.search(q, terms=True, limit=None)
                    hit = [h for h in res if h.docnum == docnum[ti]]
                    if not hit:
                        continue
                    hit = hit[0]
                    spans_ok = set((t[2], t[3]) for t in itoks if t[0] in pick)
                    for fgn, fg in frags:
                        for fmn, fm in fmts:
                            res.fragmenter, res.formatter = fg, fm
                            o = hit.highlights(fname, top=3)
                            if fmn == "upper":
                                continue   # the marks cannot be told from the text
                            marked = []
                            if fmn == "html":
                                marked = [html.unescape(m) for m in re.findall(r"<strong class=\"match term\d+\">(.*?)</strong>", o, re.S)]
                                o = html.unescape(re.sub(r"</?strong[^>]*>", "", o))
                            for piece in o.split(SEP):
                                if piece not in text:
                                    viol("highlight:not-a-substring:%s:%s" % (fgn, fmn), text, "a substring of the text",
                                         piece[:120], "the excerpt stripped of markup is not a substring of the text")
                                    break
                            spans = sorted(x for x in spans_ok if x[0] is not None)
                            for m in marked:
                                if not _covered(text, m, spans):
                                    viol("highlight:marked-span-not-a-matched-term:%s" % fgn, text,
                                         [text[a:b] for a, b in spans][:10], m,
                                         "a highlighted span is not the source text of matched terms")
                                    break
                except Exception as e:
                    viol("highlight:%s:%s" % A.exc_signature(e, sys.exc_info()[2]), text, "an excerpt", repr(e)[:200], "")
    out["secs"] = time.time() - out.pop("t0")
    return out


def _covered(text, m, spans):
    """Is `m` an occurrence in `text` that starts at the start of a matched token, ends at the end
    of one, and is covered by matched tokens that touch or overlap (what
    Highlighter._merge_matched_tokens joins into one highlighted run)?"""
    starts = set(a for a, _ in spans)
    ends = set(b for _, b in spans)
    i = text.find(m)
    while i != -1:
        a, b = i, i + len(m)
        if a in starts and b in ends:
            reach = a
            for x, y in spans:
                if x <= reach and y > reach and x >= a:
                    reach = y
                elif x <= reach < y:
                    reach = y
            if reach >= b or a == b:
                return True
        i = text.find(m, i + 1)
    return False


def _e2e(ctx):
    from gen import analysis as A
    rng = ctx.rng("texts")
    n = ctx.budget(94, 400)
    texts = [u"alfa bravo charlie", u"The quick brown fox", u"", u" ", u"a", u"x" * 300, u"big-time under_score 3.141 e.g. Wi-Fi"]
    import json
    import os
    cpath = os.path.join(os.path.dirname(os.path.dirname(os.path.dirname(os.path.abspath(__file__)))),
                         "corpus", "C17", "cases.json")
    if os.path.exists(cpath):   # minimised past failures: replayed on every analyzer
        texts += [c["text"] for c in json.load(open(cpath)) if c["text"] not in texts]
    texts += [A.gen_text(rng) for _ in range(n)]
    jobs = [("analyzer", name, texts) for name in A.CATALOGUE] + [("field", name, texts) for name in A.BUILTIN_FIELDS]
    results = ctx.pmap(_work, jobs)
    slow = sorted(((r.get("secs", 0), r["name"]) for r in results), reverse=True)[:3]
    ctx.note("end-to-end: slowest jobs " + ", ".join("%s %.1fs" % (nm, s) for s, nm in slow))
    for r in results:
        r.pop("t0", None)
        if "skipped" in r:
            ctx.note("analyzer %s could not be built: %s" % (r["name"], r["skipped"]))
            continue
        for text, ntok in r["cases"]:
            ctx.case((r["name"], text), nontrivial=ntok >= 2)
            if ntok >= 3 and len(text) < 40 and r["name"] in ("stemming", "intraword", "language-de"):
                ctx.sample({"end_to_end": r["name"], "text": text, "index_tokens": ntok,
                            "checked": "own tokens, query-time conjunction, parser term, phrases, offsets, "
                                       "5 fragmenters x 3 formatters"}, cap=6)
        ctx.stat("analyzers-run")
        seen = {}
        for sig, case, exp, obs, desc in r["viol"]:
            # report per signature the shortest text
            key = sig
            if key not in seen or len(case["text"]) < len(seen[key][1]["text"]):
                seen[key] = (sig, case, exp, obs, desc)
            ctx.stat("viol:%s:%s" % (r["name"], sig))
        for sig, case, exp, obs, desc in seen.values():
            if sig.startswith("offsets:") and "length-changing-lowercase" in sig and r["name"].startswith("ngramword"):
                # one known cause, whatever its symptom (shifted or overrunning offsets) and whichever
                # of the LowercaseFilter | NgramFilter chains shows it
                ctx.violation("offsets:length-changing-lowercase:ngram-filter-after-lowercase", case, exp, obs, desc)
            else:
                ctx.violation(sig + ":" + r["name"], case, exp, obs, desc)


def _corr_work(args):
    name, texts = args
    from gen import analysis as A
    out = []
    for text in texts:
        for mode in ("index", "query"):
            for rs in (True, False):
                try:
                    real = A.real_tokens_sexp(name, text, mode, rs)
                except Exception as e:
                    real = "raised %s" % type(e).__name__
                out.append((name, text, mode, rs, A.model_request(name, text, mode, rs), real))
    return out


class _MarkFormatter(object):
    pass


def _format_work(cases):
    """Real Formatter.format_fragment on random fragments, with a formatter whose format_token wraps
    the source text in \x01 .. \x02."""
    from whoosh import highlight

    class Tok(object):
        def __init__(self, s, e):
            self.startchar, self.endchar, self.text = s, e, u"?"

    class Fm(highlight.Formatter):
        def format_token(self, text, token, replace=False):
            return u"\x01" + highlight.get_text(text, token, replace) + u"\x02"
    fm = Fm()
    out = []
    for text, spans, a, b in cases:
        frag = highlight.Fragment(text, [Tok(s, e) for s, e in spans], a, b)
        o = fm.format_fragment(frag)
        pieces = []
        for part in re.split(u"(\x01[^\x02]*\x02)", o):
            if part.startswith(u"\x01"):
                pieces.append("(m (%s))" % " ".join(str(ord(c)) for c in part[1:-1]))
            elif part:
                pieces.append("(p (%s))" % " ".join(str(ord(c)) for c in part))
        out.append("(" + " ".join(pieces) + ")")
    return out


def _correspondence(ctx):
    from gen import analysis as A
    rng = ctx.rng("corr")
    n = ctx.budget(208, 2500)
    texts = [u"", u" ", u"a", u"The a.b x", u"a..b .c. d.e.f_g", u"x,y , z,,", u"  lead and trail  "]
    texts += [A.gen_text(rng) for _ in range(n)]
    # the per-character lower-casing of the model is str.lower() except for the final-sigma rule
    texts = [t for t in texts if u"Σ" not in t]
    jobs = []
    for name in A.MODELLED:
        for a in range(0, len(texts), 60):
            jobs.append((name, texts[a:a + 60]))
    rows = [r for part in ctx.pmap(_corr_work, jobs) for r in part]
    answers = ctx.driver.ask([r[4] for r in rows])
    for (name, text, mode, rs, _req, real), ans in zip(rows, answers):
        ctx.case(("corr", name, text, mode, rs), nontrivial=real.count("(") > 4)
        ctx.stat("corr:" + name)
        if ans != real:
            ctx.divergence("analyze:" + name, {"analyzer": name, "text": text, "mode": mode, "removestops": rs}, ans, real)
        elif real.count("(") > 6 and len(text) < 40 and name in ("standard", "ngramword", "keyword-commas-lower"):
            ctx.sample({"analyzer": name, "mode": mode, "removestops": rs, "text": text, "tokens": real}, cap=3)
    # format_fragment
    cases = []
    for _ in range(ctx.budget(4000, 40000)):
        text = A.gen_text(rng)[:rng.choice((5, 20, 60))]
        k = rng.choice((0, 1, 2, 3, 5))
        spans = []
        for _ in range(k):
            s_ = rng.randint(0, len(text) + 2)
            spans.append((s_, s_ + rng.choice((0, 1, 2, 3, 7))))
        if rng.random() < 0.7:
            spans.sort()
        a = rng.randint(0, len(text) + 1)
        b = rng.randint(a, len(text) + 3)
        cases.append((text, spans, a, b))
    chunks = [cases[i:i + 500] for i in range(0, len(cases), 500)]
    real = [x for part in ctx.pmap(_format_work, chunks) for x in part]
    lines = ["c17 format (%s) (%s) %d %d" % (" ".join(str(ord(c)) for c in t),
                                            " ".join("(%d %d)" % sp for sp in spans), a, b)
             for t, spans, a, b in cases]
    for (t, spans, a, b), ans, r in zip(cases, ctx.driver.ask(lines), real):
        # the model does not emit empty plain pieces' boundaries differently: compare piece lists with
        # empty plain pieces dropped
        got = ans.rsplit(" (", 1)[0].replace("(p ()) ", "").replace(" (p ())", "").replace("(p ())", "")
        ctx.case(("format", t, tuple(spans), a, b), nontrivial=len(spans) >= 2)
        ctx.stat("corr:format_fragment")
        if got != r:
            ctx.divergence("format_fragment", {"text": t, "spans": spans, "start": a, "end": b}, got, r)


MF_WORDS = ["alfa", "bravo", "charlie", "delta", "echo", "foxtrot", "golf", "hotel", "india", "juliet"]


def _mf_work(args):
    """Worker: multi-field highlighting.  Documents with three stored text fields (one recording
    characters), queries that ask different words of different fields, search with terms=True and
    without; in the excerpt of a field only words asked *of that field* may be marked."""
    seed, ndocs, nqueries = args
    import random
    import html
    import os
    from whoosh import fields, query, highlight, qparser
    from whoosh.filedb.filestore import RamStorage
    rng = random.Random(seed)
    schema = fields.Schema(id=fields.ID(stored=True), title=fields.TEXT(stored=True),
                           body=fields.TEXT(stored=True, chars=True), note=fields.KEYWORD(stored=True, lowercase=True))
    ix = RamStorage().create_index(schema, indexname="c17mf%dx%d" % (os.getpid(), seed))
    w = ix.writer()
    docs = []
    for i in range(ndocs):
        d = {f: u" ".join(rng.choice(MF_WORDS) for _ in range(rng.randint(2, 7))) for f in ("title", "body", "note")}
        docs.append(d)
        w.add_document(id=u"%d" % i, **d)
    w.commit()
    out, ncases = [], 0
    frags = [("context", highlight.ContextFragmenter(maxchars=40, surround=8)),
             ("pinpoint", highlight.PinpointFragmenter(maxchars=40, surround=8)),
             ("whole", highlight.WholeFragmenter())]
    qp = qparser.QueryParser("body", schema)
    with ix.searcher() as s:
        for _ in range(nqueries):
            fs = rng.sample(["title", "body", "note"], rng.choice((2, 2, 3)))
            words = rng.sample(MF_WORDS, len(fs) + rng.choice((0, 1)))
            asked = {}
            parts = []
            for j, wd in enumerate(words):
                f = fs[j % len(fs)]
                asked.setdefault(f, set()).add(wd)
                parts.append("%s:%s" % (f, wd))
            text = (" OR " if rng.random() < 0.7 else " ").join(parts)
            q = qp.parse(text)
            for terms in (True, False):
                res = s.search(q, terms=terms, limit=None)
                for fgn, fg in frags:
                    res.fragmenter = fg
                    res.formatter = highlight.HtmlFormatter(between=SEP)
                    for hit in res:
                        for f in fs:
                            ncases += 1
                            try:
                                o = hit.highlights(f, top=5)
                            except Exception as e:
                                out.append(("highlight-multifield:%s" % type(e).__name__, text, f, fgn, terms, repr(e)[:100]))
                                continue
                            marked = [html.unescape(m).lower() for m in
                                      re.findall(r"<strong class=\"match term\d+\">(.*?)</strong>", o, re.S)]
                            allowed = asked.get(f, set())
                            bad = []
                            for m in marked:
                                # adjacent matched words are merged into one marked run
                                if not all(x in allowed for x in m.split()):
                                    bad.append(m)
                            if bad:
                                out.append(("highlight:marks-word-asked-of-another-field", text, f, fgn, terms,
                                            {"marked": bad, "asked_of_field": sorted(allowed), "excerpt": o[:200],
                                             "stored": hit[f]}))
    return ncases, out


def _multifield(ctx):
    jobs = [(ctx.seed * 1000 + i, 12, ctx.budget(6, 60)) for i in range(16)]
    seen = {}
    for ncases, out in ctx.pmap(_mf_work, jobs):
        ctx.stat("multifield-highlight:cases", ncases)
        ctx.case(("mf", ncases, len(out)), nontrivial=True, n=ncases)
        for sig, text, f, fgn, terms, obs in out:
            ctx.stat("viol:" + sig)
            if sig not in seen or len(text) < len(seen[sig][0]):
                seen[sig] = (text, f, fgn, terms, obs)
    for sig, (text, f, fgn, terms, obs) in seen.items():
        ctx.violation(sig, {"query": text, "field": f, "fragmenter": fgn, "terms": terms},
                      "only words the query asks of the highlighted field are marked", obs,
                      "Hit.highlights(field) marks a word that the query asked only of another field")


_SYLL = ["ka", "re", "mi", "to", "su", "ne", "lo", "vi", "da", "po", "che", "gu", "sti", "bra", "fle", "on"]
_SUFF = ["", "s", "ing", "ed", "er", "en", "es", "ung", "ly", "ation"]


def _filler(i):
    """The i-th of an unbounded supply of distinct alphabetic words."""
    w, k = [], i
    while True:
        w.append(_SYLL[k % 16])
        k //= 16
        if k == 0:
            break
    return u"q" + u"".join(w) + _SUFF[i % len(_SUFF)] + u"z" * (i % 3 == 0)


def _hist_work(args):
    """Worker: an analyzer object has a history.  One *fresh* analyzer object of the catalogue:
    analyse texts (both modes), index them, then let the same object process more distinct words than
    any cache of its filters holds (`cachesize` attributes; at least 400), then
      - the same object must analyse every text exactly as before (both modes),
      - a pickled-and-reloaded copy (what a re-opened index uses) must agree with the used object,
      - the documents indexed before must still be found by what the parser builds from their words."""
    name, texts = args
    import os
    import pickle
    import time
    from gen import analysis as A
    from whoosh import fields, qparser, query
    from whoosh.filedb.filestore import RamStorage
    out = {"name": name, "viol": [], "ncases": 0, "nfill": 0}
    t0 = time.time()
    try:
        ana = A.CATALOGUE[name][0]()
    except Exception as e:
        out["skipped"] = repr(e)
        return out

    def viol(sig, text, expected, observed, desc):
        out["viol"].append((sig, {"analyzer": name, "kind": "history", "text": text}, expected, observed, desc))

    def cap(a, text, mode):
        try:
            return A.capture(a, text, positions=True, chars=name not in A.NO_CHARS, mode=mode)
        except Exception as e:
            return "raised %s" % type(e).__name__
    sizes = [f.cachesize for f in getattr(ana, "items", [ana])
             if isinstance(getattr(f, "cachesize", None), int) and f.cachesize > 0]
    nfill = max([400] + [c + c // 8 + 50 for c in sizes])
    out["nfill"] = nfill
    before = [(cap(ana, t, "index"), cap(ana, t, "query")) for t in texts]
    field = fields.TEXT(analyzer=ana, phrase=True, stored=True)
    schema = fields.Schema(id=fields.ID(stored=True), b=field)
    ix = RamStorage().create_index(schema, indexname="c17h%dx%s" % (os.getpid(), re.sub(r"\W", "", name)))
    indexed = []
    w = ix.writer()
    for ti, text in enumerate(texts):
        if isinstance(before[ti][0], str):
            continue
        try:
            w.add_document(id=u"%d" % ti, b=text)
            indexed.append(ti)
        except Exception:
            w.cancel()
            w = ix.writer()
            for tj in indexed:
                w.add_document(id=u"%d" % tj, b=texts[tj])
    w.commit()
    # ordinary life goes on: other documents, other queries - through the same analyzer object
    # (the writer's and the parser's, whichever objects those are)
    i = 0
    w = ix.writer()
    while i < nfill:
        chunk = u" ".join(_filler(j) for j in range(i, min(nfill, i + 500)))
        i += 500
        for mode in ("index", "query"):
            for _ in ana(chunk, mode=mode):
                pass
        if i <= 3000 or nfill <= 3000:
            w.add_document(id=u"f%d" % i, b=chunk)
    w.commit()
    try:
        copy = pickle.loads(pickle.dumps(ana, 2))
    except Exception:
        copy = None
    for ti, text in enumerate(texts):
        out["ncases"] += 1
        for mi, mode in enumerate(("index", "query")):
            b = before[ti][mi]
            a = cap(ana, text, mode)
            if a != b:
                diff = [(x, y) for x, y in zip(b, a) if x != y][:3] if not isinstance(a, str) and not isinstance(b, str) else []
                viol("history:analysis-changes-with-use:%s" % mode, text, repr(b)[:300],
                     {"after_%d_other_words" % nfill: repr(a)[:300], "first_differences": repr(diff)[:300]},
                     "the same analyzer object analyses the same text differently after it has processed other words: "
                     "what was indexed before and what is asked now no longer agree")
                break
            if copy is not None:
                c = cap(copy, text, mode)
                if c != a:
                    viol("history:reloaded-analyzer-differs:%s" % mode, text, repr(a)[:300], repr(c)[:300],
                         "a pickled and reloaded copy of the analyzer (what a re-opened index uses) analyses the text "
                         "differently from the object in use")
                    break
    qp = qparser.QueryParser("b", schema)
    with ix.searcher() as s:
        docnum = dict((stored["id"], dn) for dn, stored in s.iter_docs())
        for ti in indexed:
            text = texts[ti]
            itoks = before[ti][0]
            pieces = [text]
            if A.CATALOGUE[name][2] and name not in A.NO_CHARS:
                tkz = getattr(ana, "items", [ana])[0]
                pat = getattr(getattr(tkz, "expression", None), "pattern", "") or ""
                if not any(x in pat for x in ("(?=", "(?!", "(?<=", "(?<!")):
                    srcs = [text[t[2]:t[3]] for t in itoks if t[2] is not None and t[3] > t[2]]
                    pieces += srcs[:6]
            try:
                for wd in sorted(set(t[0] for t in itoks if not t[5]))[:20]:
                    if docnum[u"%d" % ti] not in set(s.docs_for_query(query.Term("b", wd))):
                        viol("history:own-token", text, "Term(%r) matches" % wd, "no match",
                             "a token the analyzer produced for the text before indexing does not find the document")
                        break
                for piece in pieces:
                    q = qp.term_query("b", piece, query.Term)
                    if q is None or (hasattr(q, "subqueries") and not q.subqueries):
                        continue
                    q = q.normalize()
                    if hasattr(q, "subqueries") and len(q.subqueries) > 300:
                        continue
                    if docnum[u"%d" % ti] not in set(s.docs_for_query(q)):
                        viol("history:parser-term", text, "term_query(%r) matches" % piece[:80], repr(q)[:200],
                             "a document indexed earlier is no longer found by the query the parser builds from its "
                             "own words after the analyzer has processed %d other words" % nfill)
                        break
            except Exception as e:
                viol("history:search:%s:%s" % A.exc_signature(e, sys.exc_info()[2]), text, "results", repr(e)[:200], "")
    out["secs"] = time.time() - t0
    return out


def _history(ctx):
    from gen import analysis as A
    rng = ctx.rng("history")
    texts = [u"running geese rendering database Straße", u"Deferred rendering and shading of landscapes",
             u"big-time under_score 3.141 e.g. Wi-Fi PowerShot SD500"]
    texts += [t for t in (A.gen_text(rng) for _ in range(ctx.budget(40, 200))) if len(t) < 400][:ctx.budget(12, 60)]
    results = ctx.pmap(_hist_work, [(name, texts) for name in A.CATALOGUE])
    slow = sorted(((r.get("secs", 0), r["name"]) for r in results), reverse=True)[:3]
    ctx.note("history: slowest jobs " + ", ".join("%s %.1fs" % (nm, s) for s, nm in slow))
    for r in results:
        if "skipped" in r:
            continue
        ctx.case(("history", r["name"], r["nfill"]), nontrivial=True, n=r["ncases"])
        ctx.stat("history:analyzers")
        ctx.stat("history:filler-words", r["nfill"])
        seen = {}
        for sig, case, exp, obs, desc in r["viol"]:
            ctx.stat("viol:%s:%s" % (r["name"], sig))
            if sig not in seen or len(case["text"]) < len(seen[sig][1]["text"]):
                seen[sig] = (sig, case, exp, obs, desc)
        for sig, case, exp, obs, desc in seen.values():
            ctx.violation(sig + ":" + r["name"], case, exp, obs, desc)


def run(ctx):
    _correspondence(ctx)
    _e2e(ctx)
    _history(ctx)
    _multifield(ctx)


def replay(ctx, rec):
    case = rec.get("case", {})
    if case.get("kind") == "history":
        out = _hist_work((case["analyzer"], [case["text"]]))
        print(out["viol"])
        return bool(out["viol"])
    out = _work((case.get("kind", "analyzer"), case["analyzer"], [case["text"]]))
    print(out["viol"])
    return bool(out["viol"])


EXPLANATION = (
    "Correspondence: 36 analyzer configurations built from the modelled tokenizers/filters are run on generated "
    "multi-script texts in both modes with and without removestops; the real tokens (text, pos, startchar, endchar, "
    "stopped) must equal the Lean model's; Formatter.format_fragment is compared on random fragments. End-to-end: "
    "every shipped analyzer/filter (69 configurations incl. one LanguageAnalyzer per language) in TEXT fields with "
    "characters / positions / frequencies and every built-in text field type: index the text, then search by each "
    "own token, by the conjunction of the query-time tokens, by what QueryParser.term_query builds for the text and "
    "its words, by phrases of consecutive positions; check positions and offsets against the source text; highlight "
    "with every fragmenter x formatter and check the substring and marked-span claims. Multi-field highlighting: "
    "documents with title/body/note fields, queries that ask different words of different fields, "
    "Searcher.search(terms=True/False): an excerpt of one field must not mark a word that was only asked of another. "
    "History: a fresh object of every catalogue analyzer analyses and indexes texts, then processes more distinct "
    "other words than any cache of its filters holds (StemFilter cachesize; bounded caches of 4/8/32 entries with an "
    "ignore list are in the catalogue), then must analyse the texts exactly as before (both modes), agree with a "
    "pickled-and-reloaded copy, and the early documents must still be found by the parser's query for their words."
)
ASSUMPTIONS = [
    "characters reach the model classified by Python (\\w, isspace, lower()); the per-character lower() table differs "
    "from str.lower() only by the final-sigma rule (texts with a capital sigma are excluded from the correspondence "
    "stream, not from the end-to-end stream)",
    "findable is proved against an abstract posting model (term -> positions/characters as word_values records them) and, "
    "in findable_postings*, against C10's specification of the posting lists under the hypothesis that the posting writer "
    "receives exactly the analysed tokens; that the matchers turn posting lists into matching documents is C01 and is "
    "not composed",
    "index-time and query-time calls use the same removestops flag; of the modelled filters only the n-gram ones and "
    "MultiFilter look at `mode` (as in the code; correspondence-tested in both modes, not proved)",
    "CharsetFilter's translate table, SubstitutionFilter's pattern.sub and the stemming functions enter the model as "
    "functions tabulated from the running code on the words/characters of each text",
]
TRUSTED = ["Python's re and unicodedata (character classes), str.lower/strip"]

MANIFEST = {
    "level_text": "Lean theorems (no bounds) over an executable model of the regular-expression tokenizers (default "
                  "pattern, space- and comma-separated), IDTokenizer, NgramTokenizer, Lowercase/Strip/Pass/Stop/Ngram/"
                  "BiWord filters, Charset/ReverseText/Substitution/Stem filters with their string function as parameter, "
                  "MultiFilter (branch chosen by the stream's mode), DelimitedAttributeFilter (delimiter of any length), the position/character recording of the formats and Formatter.format_fragment: "
                  "positions strictly increase (also after a renumbering StopFilter), offsets delimit the token's "
                  "source and do not overlap, query-time tokens are index-time tokens (identical for mode-free chains, "
                  "a subset for n-grams), own tokens / query-time conjunction / consecutive-position phrases match, a "
                  "formatted fragment stripped of markup is one slice of the text and marked spans are matches. Tied "
                  "to the code by a differential run on 36 analyzer configurations and on format_fragment, plus an "
                  "end-to-end relation test of every shipped analyzer/filter x text field type x fragmenter x formatter.",
    "level_note": "Level `other`: proof for the modelled chains; stemming algorithms, intraword/compound/shingle/tee/metaphone "
                  "components and the fragmenters are decided by the end-to-end relation test only "
                  "(exploration). Trusted: Lean kernel + propext/Quot.sound/Classical.choice; the model mirrors the "
                  "code only as far as the differential run shows; CPython's Unicode tables and re.",
    "technique": "machine-checked proof in Lean 4 over an executable model + differential correspondence check + "
                 "end-to-end relation testing",
}
