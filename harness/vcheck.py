#!/venv/bin/python
"""Entry point of every check:  ./check Cxx [--tier quick|thorough] [--replay FILE]

Pipeline (DESIGN.md 1.3): build + axiom audit of the Lean theorems of the property, corpus replay,
model<->implementation correspondence, spec<->implementation end-to-end run, decision, evidence.

Exit status: 0 property held on everything explored (KNOWN-FINDING lines allowed), 1 violation
(stdout line `VIOLATION property=<id> replay=<path>[ no-failing-input-found]`), 2 broken
infrastructure (never a VIOLATION line).
"""
import argparse
import contextlib
import fcntl
import hashlib
import importlib
import json
import os
import random
import re
import shutil
import subprocess
import sys
import tempfile
import time
import traceback

HARNESS = os.path.dirname(os.path.abspath(__file__))
ROOT = os.path.dirname(HARNESS)
LEAN = os.path.join(ROOT, "lean")
DRIVER = os.path.join(LEAN, ".lake", "build", "bin", "driver")
REPO_SRC = os.path.realpath(os.environ.get("VERIF_REPO_SRC", "/repo/src"))
ALLOWED_AXIOMS = {"propext", "Classical.choice", "Quot.sound"}
FORBIDDEN = re.compile(r"\bsorry\b|\badmit\b|^\s*axiom\s|native_decide|bv_decide|implemented_by|"
                       r"\bunsafe\s|maxHeartbeats\s+0\b", re.M)

sys.path.insert(0, HARNESS)
# the tree under test: always the current working tree of /repo
if REPO_SRC not in sys.path:
    sys.path.insert(0, REPO_SRC)
os.environ.setdefault("WHOOSH_VERIF", "1")
# whoosh's own sources contain invalid escape sequences in doc strings; keep the check output clean
import warnings  # noqa: E402
warnings.filterwarnings("ignore", category=SyntaxWarning)
os.environ.setdefault("PYTHONWARNINGS", "ignore::SyntaxWarning")


# Quick budgets were tuned by the family builders on a heavily loaded machine (load average ~100); on an
# idle 16-core machine these checks finished in 7-10 s, so their quick case counts are scaled up to use
# roughly 20-40 s (re-validated over several seeds on the unchanged tree).
QUICK_SCALE = {"C04": 2, "C06": 2, "C07": 3, "C08": 2, "C10": 3, "C11": 3, "C12": 3, "C14": 2, "C15": 2,
               "C17": 2, "C18": 2}


class InfraError(Exception):
    pass


def _strip_lean_comments(src):
    """Remove `--` line comments and (nested) `/- -/` block comments."""
    out, i, depth, n = [], 0, 0, len(src)
    while i < n:
        if src.startswith("/-", i):
            depth += 1
            i += 2
        elif depth and src.startswith("-/", i):
            depth -= 1
            i += 2
        elif depth:
            if src[i] == "\n":
                out.append("\n")
            i += 1
        elif src.startswith("--", i):
            while i < n and src[i] != "\n":
                i += 1
        else:
            out.append(src[i])
            i += 1
    return "".join(out)


class Driver:
    """Runs the compiled Lean driver on a batch of protocol lines."""

    def __init__(self, path=DRIVER):
        self.path = path
        self.lines = 0

    def ask(self, lines):
        lines = list(lines)
        if not lines:
            return []
        for ln in lines:
            if "\n" in ln:
                raise InfraError("newline inside protocol line")
        data = ("\n".join(lines) + "\n").encode("utf-8")
        try:
            p = subprocess.run([self.path], input=data, stdout=subprocess.PIPE,
                               stderr=subprocess.PIPE, timeout=3600)
        except Exception as e:  # pragma: no cover
            raise InfraError("driver failed to run: %r" % (e,))
        if p.returncode != 0:
            raise InfraError("driver exit %s: %s" % (p.returncode, p.stderr.decode("utf-8", "replace")[-2000:]))
        out = p.stdout.decode("utf-8").split("\n")
        if out and out[-1] == "":
            out.pop()
        if len(out) != len(lines):
            raise InfraError("driver answered %d lines for %d requests" % (len(out), len(lines)))
        self.lines += len(lines)
        return out

    def ask1(self, line):
        return self.ask([line])[0]

    def ask_parallel(self, lines, procs=16, min_chunk=200):
        """Like ask(), but splits a big batch over several driver processes (order preserved)."""
        lines = list(lines)
        if len(lines) < 2 * min_chunk:
            return self.ask(lines)
        import concurrent.futures as cf
        n = max(1, min(procs, len(lines) // min_chunk))
        size = (len(lines) + n - 1) // n
        chunks = [lines[i:i + size] for i in range(0, len(lines), size)]
        with cf.ThreadPoolExecutor(len(chunks)) as ex:
            outs = list(ex.map(Driver(self.path).ask, chunks))
        self.lines += len(lines)
        return [o for out in outs for o in out]


def sexp(x):
    """Python value -> protocol S-expression text."""
    if x is None:
        return "none"
    if x is True:
        return "1"
    if x is False:
        return "0"
    if isinstance(x, (list, tuple)):
        return "(" + " ".join(sexp(y) for y in x) + ")"
    if isinstance(x, bytes):
        return x.hex() if x else "-"
    if isinstance(x, float):
        n, d = x.as_integer_ratio()
        return "%d/%d" % (n, d) if d != 1 else "%d" % n
    return str(x)


def parse_sexp(text):
    """Protocol S-expression text -> nested Python lists of strings."""
    toks = text.replace("(", " ( ").replace(")", " ) ").split()
    pos = 0

    def one():
        nonlocal pos
        t = toks[pos]
        pos += 1
        if t == "(":
            xs = []
            while toks[pos] != ")":
                xs.append(one())
            pos += 1
            return xs
        return t
    res = []
    while pos < len(toks):
        res.append(one())
    return res


class AnchorCoverage:
    """Which lines of the source files anchored by the property did this run execute?  (DESIGN.md 5.5)

    Uses sys.monitoring (PEP 669): every line event of an anchored file is recorded once and then
    disabled for that location, so the cost is negligible.  Worker processes forked by Ctx.pmap inherit
    the tool and ship their newly seen lines back with each result.  Coverage is *evidence* (what the
    streams could possibly have seen); it never decides a check."""
    TOOL = 4

    def __init__(self, files):
        self.files = {os.path.realpath(f) for f in files if os.path.exists(f)}
        self.seen = set()      # (path, line)
        self._sent = set()
        self.active = False

    def start(self):
        mon = getattr(sys, "monitoring", None)
        if mon is None or not self.files:
            return
        try:
            mon.use_tool_id(self.TOOL, "wverif-anchor-coverage")
        except ValueError:
            return
        files, seen = self.files, self.seen
        cache = {}

        def on_line(code, line):
            fn = code.co_filename
            ok = cache.get(fn)
            if ok is None:
                ok = cache[fn] = os.path.realpath(fn) in files
            if ok:
                seen.add((fn, line))
            return mon.DISABLE
        mon.register_callback(self.TOOL, mon.events.LINE, on_line)
        mon.set_events(self.TOOL, mon.events.LINE)
        self.active = True

    def delta(self):
        new = self.seen - self._sent
        self._sent |= new
        return new

    def report(self):
        """{relative file: {executable/executed lines inside function bodies, functions never entered}}"""
        res = {}
        by_file = {}
        for fn, ln in self.seen:
            by_file.setdefault(os.path.realpath(fn), set()).add(ln)
        for path in sorted(self.files):
            try:
                top = compile(open(path, encoding="utf-8").read(), path, "exec")
            except Exception:
                continue
            lines, never = set(), []
            got = by_file.get(path, set())

            def walk(co, qual):
                own = {l for (_, _, l) in co.co_lines() if l}
                if co.co_flags & 1:   # CO_OPTIMIZED: a function body (module and class bodies ran at import)
                    body = own - {co.co_firstlineno}
                    lines.update(body)
                    if body and not (body & got) and not co.co_name.startswith("<"):
                        never.append(qual)
                for c in co.co_consts:
                    if hasattr(c, "co_lines"):
                        walk(c, (qual + "." if qual else "") + c.co_name)
            walk(top, "")
            rel = os.path.relpath(path, os.path.dirname(REPO_SRC))
            res[rel] = {"executable_lines": len(lines), "executed_lines": len(lines & got),
                        "functions_never_entered": sorted(never)[:80],
                        "functions_never_entered_count": len(never)}
        return res


_COV = None          # AnchorCoverage of the running check (inherited by forked workers)
_PMAP_FN = None


def _pmap_call(x):
    r = _PMAP_FN(x)
    return r, (_COV.delta() if _COV is not None and _COV.active else None)


class Ctx:
    def __init__(self, pid, tier, seed):
        self.pid, self.tier, self.seed = pid, tier, seed
        self.driver = Driver()
        self.evaluations = 0
        self._keys = set()
        self.stats = {}
        self.samples = []
        self.divergences = []
        self.violations = []
        self.proof_gaps = []
        self.notes = []
        self.t0 = time.time()
        self.workers = int(os.environ.get("VERIF_WORKERS", "16"))
        self.boost = 1
        self.changed_files = []

    # --- generation helpers
    def rng(self, name=""):
        return random.Random("%s:%s:%s" % (self.pid, self.seed, name))

    def budget(self, quick, thorough):
        """Case budget of a stream.  Multiplied by `boost` (> 1 only when a source file anchored by
        this property differs from the fingerprinted tree, DESIGN.md 5.6)."""
        n = quick if self.tier == "quick" else thorough
        if self.tier == "quick":
            n *= QUICK_SCALE.get(self.pid, 1)
        return int(n * self.boost)

    def elapsed(self):
        return time.time() - self.t0

    # --- coverage accounting
    def case(self, key=None, nontrivial=True, n=1):
        """One executed case.  `key` identifies it canonically (distinctness); `nontrivial` is the
        module's stated rule evaluated on this case."""
        self.evaluations += n
        if nontrivial and key is not None:
            self._keys.add(hashlib.blake2b(repr(key).encode("utf-8", "replace"), digest_size=8).digest())

    def stat(self, name, n=1):
        self.stats[name] = self.stats.get(name, 0) + n

    def sample(self, obj, cap=6):
        if len(self.samples) < cap:
            self.samples.append(obj)

    def note(self, text):
        self.notes.append(text)

    # --- outcomes
    def divergence(self, component, case, model, impl):
        """Executable model and implementation disagree on `case` (broken correspondence)."""
        if len(self.divergences) < 50:
            self.divergences.append({"component": component, "case": case, "model": model, "impl": impl})
        self.stat("divergence:" + component)

    def violation(self, signature, case, expected, observed, desc=""):
        """The implementation contradicts the property (spec) on `case`.  `signature` names the
        failing call site/predicate narrowly; it is what known_findings.json is matched on."""
        self.stat("violation:" + signature)
        if sum(1 for v in self.violations if v["signature"] == signature) < 3:
            self.violations.append({"signature": signature, "case": case, "expected": expected,
                                    "observed": observed, "desc": desc})

    def proof_gap(self, what):
        self.proof_gaps.append(what)

    @contextlib.contextmanager
    def scratch(self):
        d = tempfile.mkdtemp(prefix="wverif-%s-" % self.pid, dir=tempfile.gettempdir())
        try:
            yield d
        finally:
            shutil.rmtree(d, ignore_errors=True)

    def pmap(self, fn, items, chunksize=1):
        """Run a top-level function over items in worker processes (order preserved)."""
        items = list(items)
        if self.workers <= 1 or len(items) <= 1:
            return [fn(x) for x in items]
        import multiprocessing as mp
        global _PMAP_FN
        _PMAP_FN = fn
        if _COV is not None:
            _COV._sent = set(_COV.seen)   # workers ship only what they see beyond the parent
        try:
            with mp.get_context("fork").Pool(min(self.workers, len(items))) as pool:
                out = pool.map(_pmap_call, items, chunksize)
        finally:
            _PMAP_FN = None
        res = []
        for r, d in out:
            res.append(r)
            if d and _COV is not None:
                _COV.seen |= d
        return res


# ------------------------------------------------------------------------------------------------
# Lean build and audit

def lean_build():
    lock = open(os.path.join(LEAN, ".build.lock"), "w")
    fcntl.flock(lock, fcntl.LOCK_EX)
    try:
        p = subprocess.run(["lake", "build"], cwd=LEAN, stdout=subprocess.PIPE, stderr=subprocess.STDOUT,
                           timeout=3600)
        return p.returncode == 0, p.stdout.decode("utf-8", "replace")
    finally:
        fcntl.flock(lock, fcntl.LOCK_UN)
        lock.close()


def lean_forbidden(files):
    hits = []
    for f in files:
        src = _strip_lean_comments(open(f, encoding="utf-8").read())
        for m in FORBIDDEN.finditer(src):
            hits.append("%s: %s" % (os.path.relpath(f, LEAN), m.group(0).strip()))
    return hits


def lean_sources():
    res = []
    for base, _, names in os.walk(os.path.join(LEAN, "WM")):
        for n in names:
            if n.endswith(".lean"):
                res.append(os.path.join(base, n))
    res.append(os.path.join(LEAN, "Driver.lean"))
    return sorted(res)


def lean_audit(pid, imports, theorems):
    """`#print axioms` for every theorem claimed by the property.  Returns
    (discharged_names, problems, axioms_by_theorem)."""
    adir = os.path.join(LEAN, ".lake", "audit")
    os.makedirs(adir, exist_ok=True)
    path = os.path.join(adir, "Audit%s_%d.lean" % (pid, os.getpid()))
    with open(path, "w") as f:
        for imp in imports:
            f.write("import %s\n" % imp)
        for t in theorems:
            f.write("#print axioms %s\n" % t)
    try:
        p = subprocess.run(["lake", "env", "lean", path], cwd=LEAN, stdout=subprocess.PIPE,
                           stderr=subprocess.STDOUT, timeout=1800)
    finally:
        with contextlib.suppress(OSError):
            os.unlink(path)
    out = p.stdout.decode("utf-8", "replace")
    axioms = {}
    for m in re.finditer(r"'(\S+)' depends on axioms: \[([^\]]*)\]", out, re.S):
        axioms[m.group(1)] = [a.strip() for a in m.group(2).replace("\n", " ").split(",") if a.strip()]
    for m in re.finditer(r"'(\S+)' does not depend on any axioms", out):
        axioms[m.group(1)] = []
    discharged, problems = [], []
    for t in theorems:
        if t not in axioms:
            problems.append("theorem %s does not check (missing or build error)" % t)
        elif not set(axioms[t]) <= ALLOWED_AXIOMS:
            problems.append("theorem %s depends on non-standard axioms %s" % (t, sorted(set(axioms[t]) - ALLOWED_AXIOMS)))
        else:
            discharged.append(t)
    if p.returncode != 0 and not problems:
        problems.append("audit file failed: " + out[-1500:])
    return discharged, problems, axioms


def leanchecker(modules):
    p = subprocess.run(["lake", "env", "leanchecker"] + list(modules), cwd=LEAN, stdout=subprocess.PIPE,
                       stderr=subprocess.STDOUT, timeout=3600)
    return p.returncode == 0, p.stdout.decode("utf-8", "replace")[-2000:]


# ------------------------------------------------------------------------------------------------

def anchor_paths(pid):
    """Absolute paths of the source files the property is anchored in (properties.jsonl)."""
    res = []
    for line in open(os.path.join(ROOT, "properties.jsonl")):
        rec = json.loads(line)
        if rec["id"] == pid:
            for rel in rec["anchors"]["files"]:
                res.append(os.path.join(os.path.dirname(REPO_SRC), rel) if rel.startswith("src/")
                           else os.path.join(REPO_SRC, rel))
    return res


def changed_anchor_files(pid):
    """Anchored source files of the property whose normalised AST differs from fingerprints.json."""
    sys.path.insert(0, os.path.join(ROOT, "tools"))
    try:
        import fingerprint as fp
        anchors = []
        for line in open(os.path.join(ROOT, "properties.jsonl")):
            rec = json.loads(line)
            if rec["id"] == pid:
                anchors = rec["anchors"]["files"]
        want = json.load(open(os.path.join(HARNESS, "fingerprints.json")))
        changed = []
        for rel in anchors:
            path = os.path.join(os.path.dirname(REPO_SRC), rel) if rel.startswith("src/") else os.path.join(REPO_SRC, rel)
            cur = fp.fingerprint(path) if os.path.exists(path) else "missing"
            if want.get(rel) != cur:
                changed.append(rel)
        return changed
    except Exception as e:  # never fatal
        return ["<fingerprints unavailable: %r>" % (e,)]


def load_known():
    """known_findings.json (committed; never written at run time).  `findings/*.json` are the
    per-family files builders work on before they are merged into it."""
    res = []
    path = os.path.join(ROOT, "known_findings.json")
    if os.path.exists(path):
        res.extend(json.load(open(path)))
    fdir = os.path.join(ROOT, "findings")
    if os.path.isdir(fdir):
        for n in sorted(os.listdir(fdir)):
            if n.endswith(".json"):
                res.extend(json.load(open(os.path.join(fdir, n))))
    return res


def jsonable(x):
    try:
        json.dumps(x)
        return x
    except TypeError:
        if isinstance(x, dict):
            return {str(k): jsonable(v) for k, v in x.items()}
        if isinstance(x, (list, tuple, set, frozenset)):
            return [jsonable(v) for v in (sorted(x, key=repr) if isinstance(x, (set, frozenset)) else x)]
        if isinstance(x, bytes):
            return {"hex": x.hex()}
        return repr(x)


def write_json(path, obj):
    os.makedirs(os.path.dirname(path), exist_ok=True)
    tmp = path + ".tmp%d" % os.getpid()
    with open(tmp, "w") as f:
        json.dump(jsonable(obj), f, indent=1, sort_keys=True)
        f.write("\n")
    os.replace(tmp, path)


TRUSTED_BASE = [
    "Lean 4.33.0 kernel; axioms allowed per theorem: propext, Classical.choice, Quot.sound (audited by #print axioms on every run)",
    "no sorry/admit/user axioms/native_decide/bv_decide/implemented_by/unsafe (grep on every run)",
    "Lean compiler and runtime for the executable driver (same definitions as the theorems, compiled)",
    "hand-written Lean models: that they mirror /repo/src/whoosh is checked by differential runs on every check, not proved",
    "the Python harness (generators, canonicalisation, oracles evaluated through the Lean spec)",
    "CPython and its stdlib (int, list.sort, heapq, bisect, array, struct, pickle, zlib, re, datetime, decimal, IEEE floats), POSIX rename/flock/unlink semantics",
]


def main(argv=None):
    ap = argparse.ArgumentParser()
    ap.add_argument("pid")
    ap.add_argument("--tier", default=os.environ.get("VERIF_TIER", "quick"), choices=["quick", "thorough"])
    ap.add_argument("--replay")
    ap.add_argument("--no-lean", action="store_true", help=argparse.SUPPRESS)
    args = ap.parse_args(argv)
    pid = args.pid.upper()
    try:
        seed = int(os.environ.get("VERIF_SEED", "0") or 0)
    except ValueError:
        seed = 0
    t0 = time.time()
    # private temp dir: whoosh's RamStorage/temp_storage use <tmp>/MAIN.tmp, which concurrent runs share
    import atexit
    priv = tempfile.mkdtemp(prefix="wverif-tmp-", dir=os.environ.get("VERIF_SCRATCH") or None)
    os.environ["TMPDIR"] = priv
    tempfile.tempdir = priv
    atexit.register(shutil.rmtree, priv, True)
    ctx = Ctx(pid, args.tier, seed)
    try:
        import whoosh
        wpath = os.path.realpath(whoosh.__file__)
        if not wpath.startswith(REPO_SRC + os.sep):
            raise InfraError("whoosh imported from %s, not from %s" % (wpath, REPO_SRC))
        mod = importlib.import_module("props.%s" % pid.lower())
        if args.replay:
            rec = json.load(open(args.replay))
            ok, lean_log = lean_build()
            if not ok:
                raise InfraError("lake build failed:\n" + lean_log[-3000:])
            reproduced = mod.replay(ctx, rec)
            print("replay %s: %s" % (args.replay, "REPRODUCED" if reproduced else "not reproduced"))
            return 1 if reproduced else 0
        return run_check(ctx, mod, args, t0)
    except InfraError as e:
        print("INFRA-ERROR property=%s %s" % (pid, e))
        return 2
    except Exception:
        traceback.print_exc()
        print("INFRA-ERROR property=%s unexpected exception in the harness" % pid)
        return 2


def run_check(ctx, mod, args, t0):
    pid = ctx.pid
    theorems = list(getattr(mod, "THEOREMS", []))
    imports = list(getattr(mod, "LEAN_IMPORTS", []))
    partial = dict(getattr(mod, "PARTIAL", {}))  # theorem -> what is missing for the full statement
    # 1. build + audit --------------------------------------------------------------------------
    build_ok, build_log = lean_build()
    lean_problems = []
    discharged, axioms = [], {}
    if not build_ok:
        lean_problems.append("lake build failed: " + build_log[-1500:])
    if not os.path.exists(DRIVER):
        raise InfraError("driver executable missing (run setup_cmd): " + build_log[-1500:])
    hits = lean_forbidden(lean_sources())
    if hits:
        lean_problems.append("forbidden constructs in Lean sources: " + "; ".join(hits[:10]))
    if theorems:
        discharged, probs, axioms = lean_audit(pid, imports, theorems)
        lean_problems.extend(probs)
    if args.tier == "thorough" and imports and not os.environ.get("VERIF_SKIP_LEANCHECKER"):
        ok, log = leanchecker(imports)
        ctx.stats["leanchecker_ok"] = int(ok)
        if not ok:
            lean_problems.append("leanchecker rejected the property modules: " + log[-800:])
    for pr in lean_problems:
        ctx.proof_gap(pr)
    # 2.-5. corpus, correspondence, end-to-end (module) -----------------------------------------
    if ctx.driver.ask1("ping") != "pong":
        raise InfraError("driver does not answer ping")
    ctx.changed_files = changed_anchor_files(pid)
    if ctx.changed_files:
        ctx.boost = int(os.environ.get("VERIF_BOOST", "2"))
        ctx.note("anchored files differ from the fingerprinted tree: budgets x%d" % ctx.boost)
    global _COV
    if not os.environ.get("VERIF_NO_COVERAGE"):
        _COV = AnchorCoverage(anchor_paths(pid))
        _COV.start()
    mod.run(ctx)
    # 6. decision ---------------------------------------------------------------------------------
    known = [k for k in load_known() if k.get("property") == pid]
    finding_sigs = {k["signature"]: k for k in known if k.get("status") == "finding"}
    rc = 0
    seen_known = []
    unknown = []
    for v in ctx.violations:
        if v["signature"] in finding_sigs:
            if v["signature"] not in seen_known:
                seen_known.append(v["signature"])
        else:
            unknown.append(v)
    rdir = os.environ.get("VERIF_REPLAY_DIR") or os.path.join(ROOT, "replays")
    for sig in seen_known:
        print("KNOWN-FINDING: property=%s %s — %s" % (pid, sig, finding_sigs[sig].get("description", "")))
        # the concrete input that reproduced the recorded finding in this run (for triage and --replay)
        v = next(x for x in ctx.violations if x["signature"] == sig)
        write_json(os.path.join(rdir, "known", "%s-%s.json" % (pid, re.sub(r"[^A-Za-z0-9_.-]+", "_", sig)[:80])),
                   dict(v, property=pid, kind="known-finding", tier=ctx.tier, seed=ctx.seed))
    done_sigs = set()
    for v in unknown:
        if v["signature"] in done_sigs:
            continue
        done_sigs.add(v["signature"])
        path = os.path.join(rdir, "%s-%s.json" % (pid, re.sub(r"[^A-Za-z0-9_.-]+", "_", v["signature"])[:80]))
        write_json(path, dict(v, property=pid, kind="failing-input", tier=ctx.tier, seed=ctx.seed))
        print("VIOLATION property=%s replay=%s" % (pid, os.path.relpath(path, ROOT)))
        rc = 1
    if not unknown and (ctx.proof_gaps or ctx.divergences):
        # a proof obligation or the correspondence no longer checks and the search found no
        # failing input: still a violation, flagged as such
        path = os.path.join(rdir, "%s-unproved.json" % pid)
        write_json(path, {"property": pid, "kind": "no-failing-input-found", "tier": ctx.tier, "seed": ctx.seed,
                          "broken_proof_obligations": ctx.proof_gaps,
                          "broken_correspondence": ctx.divergences[:10],
                          "search": {"evaluations": ctx.evaluations, "known_findings_seen": seen_known}})
        print("VIOLATION property=%s replay=%s no-failing-input-found" % (pid, os.path.relpath(path, ROOT)))
        rc = 1
    # 7. evidence ---------------------------------------------------------------------------------
    level = getattr(mod, "LEVEL", "proof")
    cov = {
        "obligations": len(theorems), "discharged": len(discharged),
        "checker_cmd": "cd lean && lake build && lake env lean <generated file: import %s; #print axioms <each theorem>>"
                       % " ".join(imports) + (" && lake env leanchecker " + " ".join(imports) if args.tier == "thorough" else ""),
        "trusted_base": TRUSTED_BASE + list(getattr(mod, "TRUSTED", [])),
        "theorems": {t: {"axioms": axioms.get(t), "partial": partial.get(t)} for t in theorems},
        "evaluations": ctx.evaluations, "distinct_nontrivial": len(ctx._keys),
        "rule": getattr(mod, "RULE", ""), "samples": ctx.samples or ["(no samples recorded)"],
        "stats": ctx.stats, "driver_lines": ctx.driver.lines,
        "divergences": len(ctx.divergences), "proof_gaps": ctx.proof_gaps,
        "known_findings_seen": seen_known, "notes": ctx.notes,
        "fingerprints_changed": ctx.changed_files,
        "anchor_coverage": (_COV.report() if _COV is not None and _COV.active else "unavailable"),
        "explanation": getattr(mod, "EXPLANATION", ""),
    }
    ev = {"property_id": pid, "tier": ctx.tier, "seed": ctx.seed, "level": level, "coverage": cov,
          "assumptions": list(getattr(mod, "ASSUMPTIONS", [])), "wall_s": round(time.time() - t0, 2),
          "violations": len(done_sigs) + (1 if (not unknown and (ctx.proof_gaps or ctx.divergences)) else 0)}
    # VERIF_EVIDENCE_DIR / VERIF_REPLAY_DIR redirect the outputs of development runs against mutated
    # scratch trees (tools/seedtest.py), so that evidence/ only ever describes runs on /repo itself
    write_json(os.path.join(os.environ.get("VERIF_EVIDENCE_DIR") or os.path.join(ROOT, "evidence"), "%s.json" % pid), ev)
    print("%s tier=%s seed=%d: %d/%d theorems, %d evaluations (%d distinct non-trivial), %d divergences, "
          "%d known findings seen, %d new violations, %.1fs" % (
              pid, ctx.tier, ctx.seed, len(discharged), len(theorems), ctx.evaluations, len(ctx._keys),
              len(ctx.divergences), len(seen_known), len(done_sigs), time.time() - t0))
    return rc


if __name__ == "__main__":
    sys.exit(main())
