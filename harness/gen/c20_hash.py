"""C20 / hash files: HashWriter/HashReader and OrderedHashWriter/OrderedHashReader.

Correspondence: the file written by the real writer is parsed (header, records, 256 open-addressed
tables through the directory, position index) and compared slot by slot with the layout the Lean
model `WM.HashFile.build` computes for the same keys, value lengths, start offset and hash values.
End-to-end: every public read function of the real reader against the specification
(`all k = [v for k', v in pairs if k' == k]`, insertion order; sorted-list semantics for the ordered
file) — the Lean theorem `hash_lookup` is exactly that equation for the model."""
import os
import pickle
import struct
from binascii import crc32
from bisect import bisect_left

from vcheck import sexp, parse_sexp

PTR = struct.Struct("!Iq")
DIR = struct.Struct("!qi")
LENS = struct.Struct("!ii")


def _weak_hash(m1, m2, const):
    def h(key):
        key = bytes(key)
        c = crc32(key) & 0xffffffff
        return ((c % m1) << 8 | ((c >> 8) % m2)) + const
    return h


HASHES = {
    "md5": None, "crc": None, "cdb": None,
    "const": lambda key: 7,                       # one bucket, one home slot: every probe collides
    "w2x2": _weak_hash(2, 2, 0),                  # two homes x two buckets
    "w3x1": _weak_hash(3, 1, 5),                  # one bucket, three homes (wrap-around inside a table)
    "w1x5": _weak_hash(1, 5, 0),                  # equal high parts, five buckets
    "big": lambda key: 0xffffff00 | (crc32(bytes(key)) & 3),   # hash values near 2^32
    "huge": lambda key: 2 ** 32 + (crc32(bytes(key)) & 255),   # beyond the "!I" of _pointer: struct.error
}


def gen_pairs(rng, n, ordered):
    alpha = rng.choice([b"ab", b"abc", b"\x00\x01\xff", bytes(range(256))])
    maxlen = rng.choice((1, 2, 3, 6))
    pairs = []
    for _ in range(n):
        klen = rng.randrange(0, maxlen + 1)
        key = bytes(rng.choice(alpha) for _ in range(klen))
        vlen = rng.choice((0, 0, 1, 3, 5, 17, 100))
        if rng.random() < 0.01:
            vlen = rng.choice((30000, 70000))
        val = bytes(rng.randrange(256) for _ in range(min(vlen, 8))) + b"\x00" * max(0, vlen - 8)
        pairs.append((key, val))
    if ordered:
        seen = {}
        for k, v in pairs:
            if k:
                seen[k] = v
        pairs = sorted(seen.items())
    return pairs


def gen_case(rng, force_n=None):
    ordered = rng.random() < 0.4
    n = force_n if force_n is not None else rng.choice((0, 1, 2, 3, 5, 8, 13, 30, 60, 150))
    hname = rng.choice(["md5", "crc", "cdb", "const", "w2x2", "w3x1", "w1x5", "big"])
    if force_n is None and rng.random() < 0.03:
        hname = "huge"
    if ordered and hname in ("crc", "cdb"):
        hname = "md5"          # OrderedHashWriter has no hashtype parameter; custom hashes are patched in
    if n > 200 and hname in ("const", "w3x1"):
        n = 150                # quadratic probing cost in pure Python
    so = rng.choice((0, 0, 0, 3, 65536 - 40, 2 ** 31 - 30, 2 ** 32 - 30))
    pairs = gen_pairs(rng, n, ordered)
    bad_order = None
    if ordered and pairs and rng.random() < 0.12:
        # a malformed stream: a key that does not increase
        i = rng.randrange(len(pairs))
        bad_order = rng.choice(("dup", "less", "empty"))
        if bad_order == "dup":
            pairs.insert(i, pairs[i])
        elif bad_order == "less":
            pairs.insert(i + 1, (pairs[i][0][:-1], b"x"))
        else:
            pairs.insert(rng.randrange(len(pairs) + 1), (b"", b"e"))
    nprobe = 40 if len(pairs) <= 200 else 8
    probes = [k for k, _ in pairs[:nprobe]] + [bytes(rng.randrange(256) for _ in range(rng.randrange(0, 4))) for _ in range(6)]
    if len(pairs) > 200:
        probes += [rng.choice(pairs)[0] for _ in range(6)]
    if pairs:
        probes += [rng.choice(pairs)[0] + b"\x00", rng.choice(pairs)[0][:-1]]
    return dict(ordered=ordered, hname=hname, so=so, pairs=pairs, probes=list(dict.fromkeys(probes)),
                bad_order=bad_order, seed=rng.getrandbits(32))


def run_case(case):
    """Worker: write with the real writer, parse the bytes, query the real reader."""
    import shutil
    import tempfile
    from whoosh.filedb import filetables as ft
    from whoosh.filedb.filestore import FileStorage, RamStorage
    hname, so, pairs = case["hname"], case["so"], case["pairs"]
    custom = HASHES[hname]
    hashtype = {"md5": 0, "crc": 1, "cdb": 2}.get(hname, 0)
    tmp = None
    out = dict(case=case)
    try:
        if so > 100 or case["seed"] % 3 == 0:
            tmp = tempfile.mkdtemp(prefix="wverif-c20h-")
            st = FileStorage(tmp)
        else:
            st = RamStorage()
        f = st.create_file("h")
        if so:
            f.seek(so)
        if case["ordered"]:
            w = ft.OrderedHashWriter(f)
        else:
            w = ft.HashWriter(f, hashtype=hashtype)
        if custom is not None:
            w.hashfn = custom
        hashfn = w.hashfn
        try:
            for k, v in pairs:
                w.add(k, v)
        except ValueError:
            out["write_error"] = "ValueError"
            f.close()
            return out
        except Exception as e:  # noqa
            out["write_error"] = type(e).__name__
            f.close()
            return out
        try:
            endpos = w.close()
        except struct.error:
            out["write_error"] = "struct.error"
            return out
        length = endpos - so
        # ---- raw parse --------------------------------------------------------------------------
        rf = st.open_file("h")
        rf.seek(so)
        data = rf.read()
        rf.close()
        assert len(data) == length, (len(data), length)
        exlen = struct.unpack("!i", data[-4:])[0]
        if case["ordered"]:
            # extras pickle, then the index array, then the length of the pickle only
            pk_start = None
        expos = None
        # locate extras: the int at the end is the length of what _write_extras wrote
        expos = length - 4 - exlen
        dirpos = expos - 256 * DIR.size
        directory = [DIR.unpack_from(data, dirpos + i * DIR.size) for i in range(256)]
        eod = directory[0][0]
        tables = {}
        for b, (tpos, nslots) in enumerate(directory):
            if nslots:
                tables[b] = (tpos, [PTR.unpack_from(data, tpos - so + i * PTR.size) for i in range(nslots)])
        recs, pos = [], so + 13
        while pos < eod:
            kl, vl = LENS.unpack_from(data, pos - so)
            recs.append((pos, data[pos - so + 8:pos - so + 8 + kl], vl))
            pos += 8 + kl + vl
        out.update(magic=data[:4], hashbyte=data[4], positions=[p for p, _, _ in recs], eod=eod,
                   reckeys=[k for _, k, _ in recs], tables=tables, parse_end=pos)
        if case["ordered"]:
            import io
            bio = io.BytesIO(data[expos:length - 4])
            extras = pickle.load(bio)
            tc, ixlen = extras["indextype"], extras["indexlen"]
            raw = bio.read()
            size = struct.calcsize(tc)
            out.update(indextype=tc, index=[struct.unpack("!" + tc, raw[i * size:(i + 1) * size])[0] for i in range(ixlen)],
                       index_trailing=len(raw) - ixlen * size, index_raw=raw[:ixlen * size])
        # ---- public API -------------------------------------------------------------------------
        rd = st.open_file("h")
        cls = ft.OrderedHashReader if case["ordered"] else ft.HashReader
        # the table runs to the end of the file, so the default length (None = "to EOF") must behave
        # exactly like the explicit one; alternate between the two ways of opening
        if case["seed"] % 2:
            r = cls(rd, startoffset=so)
        else:
            r = cls(rd, length=length, startoffset=so)
        if custom is not None:
            r.hashfn = custom
        api = {}
        api["items"] = list(r.items())
        api["keys"] = list(r.keys())
        api["values_len"] = [len(v) for v in r.values()]
        api["iter"] = list(r)
        look = {}
        for k in case["probes"]:
            d = {"all": list(r.all(k)), "get": r.get(k, "DEFAULT"), "contains": k in r}
            try:
                d["getitem"] = r[k]
            except KeyError:
                d["getitem"] = "KeyError"
            try:
                dp, dl = r.range_for_key(k)
                d["range"] = bytes(r.dbfile.get(dp, dl))
            except KeyError:
                d["range"] = "KeyError"
            look[k] = d
        api["look"] = look
        if case["ordered"]:
            cl = {}
            for k in case["probes"]:
                cl[k] = {"closest": r.closest_key(k), "keys_from": list(r.keys_from(k)),
                         "items_from": list(r.items_from(k))}
            api["closest"] = cl
        r.close()
        out["api"] = api
        out["hashes"] = {k: hashfn(k) for k in set([k for k, _ in pairs] + case["probes"])}
        return out
    except Exception as e:  # noqa
        import traceback
        out["crash"] = "%s: %s" % (type(e).__name__, traceback.format_exc(limit=3))
        return out
    finally:
        if tmp:
            shutil.rmtree(tmp, ignore_errors=True)


def model_line(res):
    case = res["case"]
    hs = res.get("hashes")
    if hs is None:   # the writer raised: recompute the hash values the writer used
        fn = HASHES[case["hname"]]
        if fn is None:
            from whoosh.filedb import filetables as ft
            fn = ft._hash_functions[{"md5": 0, "crc": 1, "cdb": 2}[case["hname"]]]
        hs = {k: fn(k) for k in set([k for k, _ in case["pairs"]] + case["probes"])}
    kvs = " ".join("(%s %d %d %d)" % (sexp(k), hs[k], len(v), i) for i, (k, v) in enumerate(case["pairs"]))
    looks = " ".join("(%s %d)" % (sexp(k), hs[k]) for k in case["probes"])
    cl = " ".join(sexp(k) for k in case["probes"]) if case["ordered"] else ""
    return "c20 hash %d %d (%s) (%s) (%s)" % (int(case["ordered"]), case["so"], kvs, looks, cl)


def check_case(ctx, res, mo):
    case = res["case"]
    pairs = case["pairs"]
    tag = "ordered" if case["ordered"] else "plain"
    parsed = parse_sexp(mo)
    mpos, meod, mtabs, mlooks, mtc, mindex, mcl, mitems = parsed
    # ---------------- correspondence: layout ---------------------------------------------------------
    comp = "filetables.%s" % ("OrderedHashWriter" if case["ordered"] else "HashWriter")
    if [int(x) for x in mpos] != res["positions"] or int(meod) != res["eod"] or res["parse_end"] != res["eod"]:
        ctx.divergence(comp + ".add(positions)", _brief(case), [mpos, meod], [res["positions"], res["eod"]])
    mt = {int(t[0]): (int(t[1]), [(int(h), int(p)) for h, p in t[2:]]) for t in mtabs}
    if mt != res["tables"]:
        bad = sorted(set(mt) ^ set(res["tables"])) or [b for b in mt if mt[b] != res["tables"][b]]
        b = bad[0]
        ctx.divergence(comp + "._write_hashes(slot layout)", dict(_brief(case), bucket=b), mt.get(b), res["tables"].get(b))
    if res["magic"] != b"HSH3":
        ctx.divergence(comp + ".header", _brief(case), "HSH3", res["magic"])
    if case["ordered"]:
        if res["index"] != res["positions"] or res["index_trailing"] != 0:
            ctx.violation("OrderedHashWriter.index!=key-positions", _brief(case), res["positions"], res["index"],
                          "the position index stored in the file is not the list of key positions")
        if res["indextype"] != mtc or sexp(res["index_raw"]) != mindex:
            ctx.divergence("filetables.OrderedHashWriter.index(typecode,bytes)", _brief(case), [mtc, mindex[:80]],
                           [res["indextype"], sexp(res["index_raw"])[:80]])
        ctx.stat("hash-indextype:%s" % res["indextype"])
    # ---------------- end to end ------------------------------------------------------------------------
    api = res["api"]
    if api["items"] != pairs or api["iter"] != pairs or api["keys"] != [k for k, _ in pairs] \
            or api["values_len"] != [len(v) for _, v in pairs]:
        ctx.violation("HashReader.items/keys/values!=written-pairs", _brief(case), len(pairs), len(api["items"]),
                      "iteration does not return the pairs in insertion order")
    if [(bytes.fromhex(k) if k != "-" else b"", int(t)) for k, t in mitems] != [(k, i) for i, (k, _) in enumerate(pairs)]:
        ctx.divergence("model.items", _brief(case), "model items differ from input", "")
    for k, ml in zip(case["probes"], mlooks):
        exp = [v for k2, v in pairs if k2 == k]
        got = api["look"][k]
        model_vals = [pairs[int(t)][1] for t in ml]
        if model_vals != exp:
            ctx.divergence("model.all-vs-spec", dict(_brief(case), key=k.hex()), len(model_vals), len(exp))
        if got["all"] != exp:
            ctx.violation("HashReader.all(k)!=values-written-under-k:%s" % tag, dict(_brief(case), key=k.hex()),
                          [v[:8].hex() for v in exp], [bytes(v)[:8].hex() for v in got["all"]],
                          "all(key) differs from the values written under the key, in order")
        first = exp[0] if exp else None
        if got["get"] != (first if exp else "DEFAULT") or got["getitem"] != (first if exp else "KeyError") \
                or got["contains"] != bool(exp) or got["range"] != (first if exp else "KeyError"):
            ctx.violation("HashReader.get/__getitem__/__contains__/range_for_key:%s" % tag,
                          dict(_brief(case), key=k.hex()), [first is not None], [got["contains"]],
                          "single-value accessors disagree with the first value written under the key")
    if case["ordered"]:
        keys = [k for k, _ in pairs]
        for k, mc in zip(case["probes"], mcl):
            i = bisect_left(keys, k)
            exp_c = keys[i] if i < len(keys) else None
            got = api["closest"][k]
            mck = None if mc[0] == "none" else (b"" if mc[0] == "-" else bytes.fromhex(mc[0]))
            if mck != exp_c or int(mc[1]) != len(keys) - i:
                ctx.divergence("model.closestKey-vs-spec", dict(_brief(case), key=k.hex()), mc, [exp_c, len(keys) - i])
            if got["closest"] != exp_c:
                ctx.violation("OrderedHashReader.closest_key(k)!=first-key>=k", dict(_brief(case), key=k.hex()),
                              exp_c, got["closest"], "closest_key")
            if got["keys_from"] != keys[i:] or got["items_from"] != pairs[i:]:
                ctx.violation("OrderedHashReader.keys_from/items_from(k)!=suffix", dict(_brief(case), key=k.hex()),
                              len(keys) - i, len(got["keys_from"]), "keys_from / items_from")


def _ask_chunk(lines):
    import vcheck
    return vcheck.Driver().ask(lines)


def ask_parallel(ctx, lines, nchunks=16):
    """the driver batch split round-robin over worker processes (one driver each)"""
    lines = list(lines)
    if len(lines) < 4 * nchunks:
        return ctx.driver.ask(lines)
    chunks = [lines[i::nchunks] for i in range(nchunks)]
    outs = ctx.pmap(_ask_chunk, chunks)
    ctx.driver.lines += len(lines)
    res = [None] * len(lines)
    for i, o in enumerate(outs):
        res[i::nchunks] = o
    return res


def _brief(case):
    return {"ordered": case["ordered"], "hash": case["hname"], "startoffset": case["so"],
            "pairs": [(k.hex(), len(v)) for k, v in case["pairs"][:60]], "npairs": len(case["pairs"]),
            "bad_order": case["bad_order"]}


def _fielded_case(case):
    """Worker: one FieldedOrderedHashWriter file (fields written in the given order) read back through
    every public read function of FieldedOrderedHashReader."""
    from whoosh.filedb import filetables as ft
    from whoosh.filedb.filestore import RamStorage
    out = dict(case=case)

    def attempt(fn):
        try:
            return fn()
        except Exception as e:  # noqa
            return "raises-" + type(e).__name__
    try:
        st = RamStorage()
        w = ft.FieldedOrderedHashWriter(st.create_file("h"))
        for fname, items in case["fields"]:
            w.start_field(fname)
            for k, v in items:
                w.add(k, v)
            w.end_field()
        w.close()
        r = ft.FieldedOrderedHashReader.open(st, "h")
        out["codes"] = {fn: r.fieldmap[fn][3] for fn, _ in case["fields"]}
        out["iter_terms"] = attempt(lambda: [(f, bytes(k)) for f, k in r.iter_terms()])
        out["iter_term_items"] = attempt(lambda: [(f, bytes(k), bytes(v)) for f, k, v in r.iter_term_items()])
        look = {}
        for fname, k in case["probes"]:
            look[(fname, k)] = {
                "get": attempt(lambda: r.term_get(fname, k)),
                "contains": attempt(lambda: r.contains_term(fname, k)),
                "closest": attempt(lambda: r.closest_term(fname, k)),
                "terms_from": attempt(lambda: [bytes(x) for x in r.terms_from(fname, k)]),
                "items_from": attempt(lambda: [(bytes(a), bytes(b)) for a, b in r.term_items_from(fname, k)]),
            }
        out["look"] = look
        r.close()
    except Exception as e:  # noqa
        import traceback
        out["crash"] = "%s: %s" % (type(e).__name__, traceback.format_exc(limit=3))
    return out


def _fielded_gen(rng):
    nf = rng.choice((1, 2, 2, 3, 4))
    names = rng.sample(["a", "b", "body", "c", "title", "z"], nf)
    if rng.random() < 0.7:
        names.sort()             # the order a codec would write them in; the rest: any order
    fields = []
    for fname in names:
        n = rng.choice((0, 1, 2, 3, 4, 5, 8, 20))
        alpha = rng.choice([b"ab", b"abc", b"\x00\x01\xff"])
        keys = sorted(set(bytes(rng.choice(alpha) for _ in range(rng.randrange(1, 4))) for _ in range(n)))
        items = []
        for k in keys:
            vlen = rng.choice((0, 1, 3, 17, 100))
            if rng.random() < 0.02:
                vlen = 70000     # pushes the per-field positions past 65535: position array retyped H -> i
            items.append((k, bytes(rng.randrange(256) for _ in range(min(vlen, 6))) + b"\x00" * max(0, vlen - 6)))
        fields.append((fname, items))
    probes = []
    for fname, items in fields:
        ks = [k for k, _ in items]
        cand = ks[:6] + [b"", b"a", b"b\x00", b"\xff\xff"] + [k + b"\x00" for k in ks[:2]] + [k[:-1] for k in ks[:2]]
        probes += [(fname, k) for k in dict.fromkeys(cand)]
    return dict(fields=fields, probes=probes)


def _fielded(ctx):
    """FieldedOrderedHashWriter/Reader (not used by any shipped codec; not modelled in Lean): generated
    multi-field files against sorted-dictionary semantics per field."""
    rng = ctx.rng("hash-fielded")
    cases = [_fielded_gen(rng) for _ in range(ctx.budget(150, 1500))]
    for res in ctx.pmap(_fielded_case, cases, chunksize=8):
        case = res["case"]
        fields = dict(case["fields"])
        names = [fn for fn, _ in case["fields"]]
        brief = {"fields": [(fn, [(k.hex(), len(v)) for k, v in items][:12]) for fn, items in case["fields"]]}
        ctx.case(("fielded", tuple((fn, tuple(items)) for fn, items in case["fields"])),
                 nontrivial=len(names) >= 2 and sum(1 for fn in names if fields[fn]) >= 2)
        ctx.stat("fielded-fields:%d%s" % (len(names), "" if names == sorted(names) else ":unsorted-write-order"))
        if "crash" in res:
            ctx.violation("FieldedOrderedHashWriter/Reader:raises-%s" % res["crash"].split(":")[0], brief, "no exception",
                          res["crash"], "writer or reader raised")
            continue
        for code in res["codes"].values():
            ctx.stat("fielded-indextype:%s" % code)
        exp_terms = [(fn, k) for fn in sorted(names) for k, _ in fields[fn]]
        exp_items = [(fn, k, v) for fn in sorted(names) for k, v in fields[fn]]
        for what, got, exp in (("iter_terms", res["iter_terms"], exp_terms), ("iter_term_items", res["iter_term_items"], exp_items)):
            if got != exp:
                # the recorded defect: the data region is walked as one run of records although every field's
                # position array lies between the fields: the first field comes out right, then garbage or an
                # exception (or - when the fields were not written in name order - wrong field labels throughout)
                n1 = len(fields[names[0]])
                known = isinstance(got, str) or names != sorted(names) or list(got[:n1]) == exp[:n1]
                sig = "FieldedOrderedHashReader.iter_terms:reads-index-array-as-records" if known \
                    else "FieldedOrderedHashReader.%s:wrong-result" % what
                ctx.violation(sig, brief, len(exp), got if isinstance(got, str) else len(got),
                              "%s does not yield the terms of every field in order" % what)
        for (fname, k), got in res["look"].items():
            keys = [kk for kk, _ in fields[fname]]
            d = dict(fields[fname])
            i = bisect_left(keys, k)
            if got["get"] != d.get(k) or got["contains"] != (k in d):
                lastempty = bool(keys) and k == keys[-1] and d[k] == b"" and got["contains"] is False
                ctx.violation("FieldedOrderedHashReader.range_for_term:last-term-of-field-with-empty-value-missing"
                              if lastempty else "FieldedOrderedHashReader.term_get/contains_term",
                              dict(brief, probe=[fname, k.hex()]), [k in d], [got["contains"]], "fielded lookup")
            exp = {"closest": keys[i] if i < len(keys) else None, "terms_from": keys[i:], "items_from": fields[fname][i:]}
            for what in ("closest", "terms_from", "items_from"):
                if got[what] != exp[what]:
                    # the recorded defect: the position array is indexed with stride = number of keys instead of
                    # the item size; harmless exactly when the two coincide
                    isz = struct.calcsize(res["codes"][fname])
                    known = len(keys) != isz
                    sig = "FieldedOrderedHashReader.closest_term:wrong-index-stride" if known \
                        else "FieldedOrderedHashReader.%s:wrong-result" % {"closest": "closest_term", "terms_from": "terms_from", "items_from": "term_items_from"}[what]
                    ctx.violation(sig, dict(brief, probe=[fname, k.hex()]),
                                  repr(exp[what])[:80], repr(got[what])[:80], "closest_term / terms_from / term_items_from")


def run(ctx):
    _fielded(ctx)
    rng = ctx.rng("hash")
    n = ctx.budget(900, 6000)
    big = [2000] + [600] * 4 if ctx.tier == "quick" else [5000] * 3 + [2000] * 10 + [600] * 80
    cases = [gen_case(rng, b) for b in big] + [gen_case(rng) for _ in range(n)]
    import time
    t0 = time.time()
    results = ctx.pmap(run_case, cases, chunksize=4)
    ctx.note('hash: real side %.1fs' % (time.time() - t0))
    good = []
    for res in results:
        case = res["case"]
        key = ("hash", case["ordered"], case["hname"], case["so"], tuple(case["pairs"]))
        keys = [k for k, _ in case["pairs"]]
        collide = False
        if "hashes" in res:
            hv = [res["hashes"][k] for k in dict.fromkeys(keys)]
            collide = len(set(h & 255 for h in hv)) < len(hv)
        ctx.case(key, nontrivial=len(case["pairs"]) >= 2 and (collide or len(set(keys)) < len(keys)))
        ctx.stat("hash-case:%s:%s" % ("ordered" if case["ordered"] else "plain", case["hname"]))
        ctx.stat("hash-startoffset:%d" % case["so"])
        if "crash" in res:
            ctx.violation("HashWriter/HashReader:raises-%s" % res["crash"].split(":")[0], _brief(case), "no exception",
                          res["crash"], "writer or reader raised")
            continue
        if "write_error" in res:
            ctx.stat("hash-write-error:%s" % res["write_error"])
            if res["write_error"] == "ValueError" and case["ordered"] and case["bad_order"] is not None:
                want = "err-value"
            elif res["write_error"] == "struct.error" and case["hname"] == "huge" and case["pairs"]:
                want = "err-struct"
            else:
                want = None
                ctx.violation("HashWriter.add:raises-%s" % res["write_error"], _brief(case), "written", res["write_error"],
                              "the writer rejected a valid key sequence")
            if want is not None:
                mo = ctx.driver.ask1(model_line(res))
                if mo != want:
                    ctx.divergence("filetables.HashWriter(rejected input)", _brief(case), mo, want)
            continue
        if case["hname"] == "huge" and case["pairs"]:
            ctx.violation("HashWriter:accepts-hash>=2^32", _brief(case), "struct.error", "written",
                          "a hash value that does not fit the 32-bit slot field was written")
            continue
        if case["ordered"] and case["bad_order"] is not None:
            ctx.violation("OrderedHashWriter.add:accepts-non-increasing-key", _brief(case), "ValueError", "accepted",
                          "a key that does not increase was accepted")
            continue
        good.append(res)
    t0 = time.time()
    outs = ask_parallel(ctx, [model_line(r) for r in good])
    ctx.note('hash: driver %.1fs' % (time.time() - t0))
    t0 = time.time()
    for res, mo in zip(good, outs):
        if mo in ("bad-op", "nonterminating") or mo.startswith("err-"):
            ctx.divergence("model.build", _brief(res["case"]), mo, "file written")
            continue
        check_case(ctx, res, mo)
    ctx.note('hash: compare %.1fs' % (time.time() - t0))
    if good:
        small = min(good, key=lambda r: abs(len(r["case"]["pairs"]) - 4))
        ctx.sample({"hash-file": _brief(small["case"]), "model": outs[good.index(small)][:400]})
