"""C20 / external merge sort, compound files, base 85 — model <-> implementation and end-to-end."""
import os
import pickle
import struct

from vcheck import sexp, parse_sexp


def fl(xs):
    return "(" + " ".join(str(int(x)) for x in xs) + ")"


# ------------------------------------------------------------------------------------------------
# external sort

def sort_case(case):
    import shutil
    import tempfile
    from whoosh import externalsort
    items, maxsize, maxfiles, tuples = case
    tmp = tempfile.mkdtemp(prefix="wverif-c20s-")
    try:
        src = [(x, "k%d" % (x % 3)) for x in items] if tuples else list(items)
        try:
            out = list(externalsort.sort(src, maxsize=maxsize, tempdir=tmp, maxfiles=maxfiles))
        except ValueError:
            return dict(case=case, out="err-value", left=os.listdir(tmp))
        except Exception as e:  # noqa
            return dict(case=case, out="raises-" + type(e).__name__, left=os.listdir(tmp))
        # the pool interface, reusing the pool object
        pool = externalsort.SortingPool(maxsize=maxsize, tempdir=tmp)
        for x in src:
            pool.add(x)
        nruns = len(pool.runs) + (1 if pool.current and pool.runs else 0)
        out2 = list(pool.items(maxfiles=maxfiles))
        return dict(case=case, out=out, out2=out2, src=src, left=os.listdir(tmp), nruns=nruns)
    finally:
        shutil.rmtree(tmp, ignore_errors=True)


def _sort(ctx):
    rng = ctx.rng("extsort")
    cases = []
    for _ in range(ctx.budget(1000, 12000)):
        n = rng.choice((0, 1, 2, 3, 5, 8, 13, 21, 40))
        dom = rng.choice((2, 5, 50, 10 ** 6))
        items = [rng.randrange(-dom, dom) for _ in range(n)]
        maxsize = rng.choice((1, 1, 2, 3, 4, 5, 6, 7, 100))
        maxfiles = rng.choice((2, 2, 3, 4, 128))
        if rng.random() < 0.04:
            maxsize, maxfiles = rng.choice(((0, 2), (1, 1), (0, 0), (3, 1)))
        cases.append((items, maxsize, maxfiles, rng.random() < 0.2))
    results = ctx.pmap(sort_case, cases, chunksize=16)
    outs = ctx.driver.ask(["c20 misc sort %d %d %s" % (ms, mf, fl(items)) for items, ms, mf, _ in cases])
    for res, mo in zip(results, outs):
        items, ms, mf, tuples = res["case"]
        nruns = res.get("nruns", 0)
        ctx.case(("sort", tuple(items), ms, mf, tuples), nontrivial=nruns > mf and len(set(items)) > 1)
        ctx.stat("extsort:runs=%s,maxfiles=%d" % (min(nruns, 9), min(mf, 5)))
        valid = ms >= 1 and mf >= 2
        if isinstance(res["out"], str):
            if valid or res["out"] != "err-value":
                ctx.violation("externalsort.sort:%s" % res["out"], [items, ms, mf], "sorted", res["out"], "sort raised")
            elif mo != "err-value":
                ctx.divergence("externalsort.sort(parameter check)", [items, ms, mf], mo, "err-value")
            continue
        if not valid:
            ctx.violation("externalsort.sort:accepts-invalid-parameters", [items, ms, mf], "ValueError", "accepted",
                          "maxsize<1 or maxfiles<2 accepted")
            continue
        if res["out"] != sorted(res["src"]) or res["out2"] != sorted(res["src"]):
            ctx.violation("SortingPool.items()!=sorted(input)", [items, ms, mf, tuples], sorted(res["src"])[:20],
                          res["out"][:20], "external sort result is not the sorted input")
        if res["left"]:
            ctx.violation("SortingPool:run-files-left-behind", [items, ms, mf], [], res["left"], "temporary run files not removed")
        if not tuples and mo != fl(res["out"]):
            ctx.divergence("externalsort.SortingPool.items", [items, ms, mf], mo, fl(res["out"]))
    ctx.sample({"extsort": cases[7][:3], "model": outs[7]})


# ------------------------------------------------------------------------------------------------
# compound files

def compound_case(case):
    import shutil
    import tempfile
    from whoosh.filedb.compound import CompoundStorage, CompoundWriter
    from whoosh.filedb.filestore import FileStorage, RamStorage
    kind = case["kind"]
    tmp = tempfile.mkdtemp(prefix="wverif-c20c-")
    out = dict(case=case)
    try:
        fs = FileStorage(tmp)
        if kind == "assemble":
            for name, data in case["files"]:
                f = fs.create_file(name)
                f.write(data)
                f.close()
            target = fs if case["target"] == "file" else RamStorage()
            o = target.create_file("cmp")
            o.write(case["before"])
            CompoundStorage.assemble(o, fs, [n for n, _ in case["files"]])
            raw = target.open_file("cmp").read()
            base = len(case["before"])
            dirpos, dirlen = struct.unpack("!qi", raw[base:base + 12])
            import io
            bio = io.BytesIO(raw[dirpos:])
            directory = pickle.load(bio)
            out["dir"] = [(n, directory[n]["offset"], directory[n]["length"]) for n, _ in case["files"]]
            out["dirpos"] = dirpos
            out["dirlen_ok"] = dirlen == len(raw) - dirpos
            out["dirlen"] = dirlen
            out["raw"] = raw if len(raw) <= 6000 else None     # byte-level comparison for the smaller files
            reads = {}
            for mm in ((True, False) if case["target"] == "file" else (False,)):
                cs = CompoundStorage(target.open_file("cmp"), use_mmap=mm, basepos=base)
                got = {}
                for n, data in case["files"]:
                    f = cs.open_file(n)
                    full = f.read()
                    # a little random access through the member view
                    f2 = cs.open_file(n)
                    pieces = []
                    for (a, k) in case["slices"]:
                        f2.seek(a)
                        pieces.append(bytes(f2.read(k)))
                    got[n] = (bytes(full), pieces, cs.file_length(n), cs.file_exists(n))
                got["__list__"] = sorted(cs.list())
                cs.close()
                reads[mm] = got
            out["reads"] = reads
        else:
            cw = CompoundWriter(fs, buffersize=case["buffersize"])
            files = {}
            blocks = {}
            for op in case["ops"]:
                if op[0] == "c":
                    files[op[1]] = cw.create_file(op[1])
                else:
                    files[op[1]].write(op[2])
            if case["save"] == "compound":
                o = fs.create_file("cmp2")
                for n, ss in cw._streams.items():
                    blocks[n] = [(b[1], b[2]) for b in ss.blocks]
                cw.save_as_compound(o)
                cs = CompoundStorage(fs.open_file("cmp2"), use_mmap=case["mmap"])
                out["members"] = [(n, bytes(cs.open_file(n).read())) for n in cw._streams]
                out["order"] = list(cw._streams)
                cs.close()
            else:
                for n, ss in cw._streams.items():
                    blocks[n] = [(b[1], b[2]) for b in ss.blocks]
                cw.save_as_files(fs, lambda n: "out_" + n)
                out["members"] = [(n, bytes(fs.open_file("out_" + n).read())) for n in cw._streams]
                out["order"] = list(cw._streams)
            out["blocks"] = blocks
            out["tempfiles_left"] = [n for n in fs.list() if n.endswith(".ctmp")]
        return out
    except Exception as e:  # noqa
        import traceback
        out["crash"] = "%s: %s" % (type(e).__name__, traceback.format_exc(limit=3))
        return out
    finally:
        shutil.rmtree(tmp, ignore_errors=True)


def _rbytes(rng, n):
    return bytes(rng.randrange(256) for _ in range(min(n, 64))) + b"\x5a" * max(0, n - 64)


def _compound(ctx):
    rng = ctx.rng("compound")
    cases = []
    for _ in range(ctx.budget(400, 5000)):
        if rng.random() < 0.5:
            nfiles = rng.choice((1, 2, 3, 5, 8))
            names = rng.sample(["a", "b", "seg.pst", "seg.trm", "x_1.dci", "dup", "E"], nfiles) if nfiles <= 7 else None
            names = names or ["f%d" % i for i in range(nfiles)]
            files = [(n, _rbytes(rng, rng.choice((0, 0, 1, 5, 100, 4096, 33000)))) for n in names]
            slices = [(rng.choice((0, 1, 3, 99, 5000)), rng.choice((0, 1, 7, 10 ** 6))) for _ in range(3)]
            cases.append(dict(kind="assemble", files=files, before=_rbytes(rng, rng.choice((0, 0, 3, 17))),
                              target=rng.choice(("file", "file", "ram")), slices=slices))
        else:
            names = rng.sample(["a", "b", "c", "d"], rng.choice((1, 2, 3, 4)))
            ops = [("c", n) for n in names]
            for _ in range(rng.choice((0, 1, 3, 8, 20))):
                ops.append(("w", rng.choice(names), _rbytes(rng, rng.choice((0, 1, 2, 3, 4, 5, 9, 40)))))
            if rng.random() < 0.3:
                ops.insert(rng.randrange(1, len(ops) + 1), ("c", "late"))
                ops.append(("w", "late", b"zz"))
            cases.append(dict(kind="writer", ops=ops, buffersize=rng.choice((0, 1, 4, 4, 8, 16, 64, 32 * 1024)),
                              save=rng.choice(("compound", "files")), mmap=rng.random() < 0.5))
    results = ctx.pmap(compound_case, cases, chunksize=8)
    reqs = []
    for c in cases:
        if c["kind"] == "assemble":
            reqs.append("c20 misc compound-assemble %s (%s)" % (sexp(c["before"]), " ".join("(%s %s)" % (n, sexp(d)) for n, d in c["files"])))
        else:
            reqs.append("c20 misc compound-writer %d (%s)" % (c["buffersize"], " ".join(
                "(c %s)" % op[1] if op[0] == "c" else "(w %s %s)" % (op[1], sexp(op[2])) for op in c["ops"])))
    outs = ctx.driver.ask(reqs)
    # byte level: the whole finished file (header back-patch included) from the model, given the pickles of the
    # real file as an opaque blob; and the reader's first steps on the real bytes
    breqs, bmetas = [], []
    for res in results:
        c = res["case"]
        if c["kind"] == "assemble" and "crash" not in res and res.get("raw") is not None:
            raw, base = res["raw"], len(c["before"])
            pickled = raw[res["dirpos"]:] if 0 <= res["dirpos"] <= len(raw) else b""
            breqs.append("c20 misc compound-file %s (%s) %s" % (sexp(c["before"]), " ".join(
                "(%s %s)" % (n, sexp(d)) for n, d in c["files"]), sexp(pickled)))
            bmetas.append(("compound.CompoundStorage.assemble/write_dir(file bytes)", c, sexp(raw)))
            breqs.append("c20 misc compound-opendir %s %d" % (sexp(raw), base))
            bmetas.append(("compound.CompoundStorage.__init__(header)", c,
                           "%d %d %s" % (res["dirpos"], res["dirlen"], sexp(pickled))))
            ctx.stat("compound-file-bytes:before=%d" % len(c["before"]))
    for (comp, c, impl), mo in zip(bmetas, ctx.driver.ask(breqs)):
        if mo != impl:
            ctx.divergence(comp, _cbrief(c), mo[:80], impl[:80])
    for res, mo in zip(results, outs):
        c = res["case"]
        if "crash" in res:
            ctx.violation("compound.%s:raises-%s" % (c["kind"], res["crash"].split(":")[0]), _cbrief(c), "no exception",
                          res["crash"], "compound file code raised")
            continue
        m = parse_sexp(mo)
        if c["kind"] == "assemble":
            ctx.case(("compound", c["before"], tuple(c["files"]), c["target"]),
                     nontrivial=len(c["files"]) >= 2 and any(d for _, d in c["files"]))
            ctx.stat("compound-assemble:%s" % c["target"])
            mdir = [(e[0], int(e[1]), int(e[2])) for e in m[0]]
            if mdir != res["dir"] or int(m[1]) != res["dirpos"] or not res["dirlen_ok"]:
                ctx.divergence("compound.CompoundStorage.assemble(directory)", _cbrief(c), [mdir, m[1]], [res["dir"], res["dirpos"]])
            for mm, got in res["reads"].items():
                for (n, data), mread in zip(c["files"], m[2]):
                    full, pieces, flen, exists = got[n]
                    exp_pieces = [data[a:a + k] for a, k in c["slices"]]
                    if full != data:
                        ctx.violation("CompoundStorage.open_file(name).read()!=member-bytes:mmap=%s" % mm, dict(_cbrief(c), member=n),
                                      len(data), len(full), "member file not byte-identical")
                    elif pieces != exp_pieces or flen != len(data) or not exists:
                        ctx.violation("CompoundStorage.member-view:seek/read/file_length:mmap=%s" % mm, dict(_cbrief(c), member=n),
                                      [len(p) for p in exp_pieces], [len(p) for p in pieces], "random access inside a member differs")
                    if sexp(data) != mread:
                        ctx.divergence("model.openFile", dict(_cbrief(c), member=n), mread[:40], sexp(data)[:40])
                if got["__list__"] != sorted(n for n, _ in c["files"]):
                    ctx.violation("CompoundStorage.list()!=member-names", _cbrief(c), sorted(n for n, _ in c["files"]), got["__list__"], "list()")
        else:
            expected = {}
            order = []
            for op in c["ops"]:
                if op[0] == "c":
                    if op[1] not in expected:
                        order.append(op[1])
                    expected[op[1]] = b""
                else:
                    expected[op[1]] += op[2]
            flushed = any(b for bl in res["blocks"].values() for b in bl)
            ctx.case(("cwriter", c["buffersize"], tuple(c["ops"]), c["save"]), nontrivial=flushed and len(expected) >= 2)
            ctx.stat("compound-writer:buffersize=%d" % c["buffersize"])
            if res["members"] != [(n, expected[n]) for n in order]:
                ctx.violation("CompoundWriter:member!=bytes-written:%s" % c["save"], _cbrief(c),
                              [(n, len(expected[n])) for n in order], [(n, len(d)) for n, d in res["members"]],
                              "a sub-stream does not read back as the concatenation of its writes")
            if res["tempfiles_left"]:
                ctx.violation("CompoundWriter:temp-file-left", _cbrief(c), [], res["tempfiles_left"], "temp file not deleted")
            mblocks = {e[0]: [(int(b[1]), int(b[2])) for b in e[1:] if b[0] == "t"] for e in m[0]}
            if mblocks != res["blocks"]:
                ctx.divergence("compound.CompoundWriter.SubStream.write(blocks)", _cbrief(c), mblocks, res["blocks"])
            mrb = [(e[0], b"" if e[1] == "-" else bytes.fromhex(e[1])) for e in m[1]]
            if mrb != res["members"]:
                ctx.divergence("compound.CompoundWriter._readback", _cbrief(c), [(n, len(d)) for n, d in mrb],
                               [(n, len(d)) for n, d in res["members"]])
    ctx.sample({"compound": reqs[1][:300], "model": outs[1][:300]})


def _cbrief(c):
    if c["kind"] == "assemble":
        return {"kind": "assemble", "files": [(n, len(d)) for n, d in c["files"]], "before": len(c["before"]), "target": c["target"]}
    return {"kind": "writer", "buffersize": c["buffersize"], "save": c["save"],
            "ops": [(op[0], op[1]) + ((len(op[2]),) if len(op) > 2 else ()) for op in c["ops"]]}


# ------------------------------------------------------------------------------------------------
# SubFile: the member view of a compound file that is not memory-mapped

def _subfile_program(rng, length, domain):
    ops = []
    pos_ok = True
    for _ in range(rng.choice((2, 4, 8, 14))):
        r = rng.random()
        if r < 0.45:
            n = rng.choice((0, 1, 1, 2, 3, 7, 8, 64, length, length + 1, max(0, length - 1), 10 ** 6))
            if not domain and rng.random() < 0.3:
                n = rng.choice((-1, -5))
            ops.append(("read", n))
        elif r < 0.55:
            ops.append(("readall",))
        elif r < 0.85:
            if domain:
                wh = rng.choice((0, 0, 0, 1, 2))
                if wh == 0:
                    w = rng.choice((0, 1, 2, length, length + 3, max(0, length - 1), rng.randrange(length + 2)))
                elif wh == 1:
                    w = rng.choice((0, 1, 2, 5))          # forward only: positions stay non-negative
                else:
                    w = 0                                 # "from the end" with where=0 (SubFile uses length - where)
            else:
                wh = rng.choice((0, 1, 2, 2, 3))
                w = rng.choice((-7, -1, 0, 1, 3, length, -length))
            ops.append(("seek", w, wh))
        elif r < 0.93:
            ops.append(("tell",))
        else:
            ops.append(("chunks", rng.choice((1, 2, 3, 7, 64, 4096))))
    return ops


def subfile_case(case):
    """Worker: the program on a real SubFile (raw and wrapped in StructFile, as CompoundStorage.open_file
    hands it out) and on an in-memory file over the member bytes (the specification)."""
    import io
    from whoosh.filedb.compound import SubFile
    from whoosh.filedb.structfile import StructFile
    parent = case["parent"]
    off, length = case["offset"], case["length"]
    member = parent[off:off + length]

    def run(f, isspec):
        obs = []
        for op in case["ops"]:
            try:
                if op[0] == "read":
                    obs.append(bytes(f.read(op[1])).hex() or "-")
                elif op[0] == "readall":
                    obs.append(bytes(f.read()).hex() or "-")
                elif op[0] == "seek":
                    f.seek(op[1], op[2])
                    obs.append("ok")
                elif op[0] == "tell":
                    obs.append(str(f.tell()))
                else:
                    out = b""
                    while True:
                        chunk = f.read(op[1])
                        if not chunk:
                            break
                        out += bytes(chunk)
                    obs.append(out.hex() or "-")
            except Exception:  # noqa
                obs.append("err")
        return obs
    return dict(case=case, raw=run(SubFile(io.BytesIO(parent), off, length), False),
                wrapped=run(StructFile(SubFile(io.BytesIO(parent), off, length)), False),
                spec=run(io.BytesIO(member), True))


def _subfile(ctx):
    rng = ctx.rng("subfile")
    cases = []
    for _ in range(ctx.budget(1500, 20000)):
        length = rng.choice((0, 1, 2, 5, 8, 9, 64, 100, 300))
        pre = rng.choice((0, 0, 1, 12, 40))
        post = rng.choice((0, 3, 20))
        parent = bytes(rng.randrange(256) for _ in range(pre + length + post))
        domain = rng.random() < 0.8
        cases.append(dict(parent=parent, offset=pre, length=length, domain=domain,
                          ops=_subfile_program(rng, length, domain)))
    results = [subfile_case(c) for c in cases]
    outs = ctx.driver.ask(["c20 misc subfile %s %d %d (%s)" % (sexp(c["parent"]), c["offset"], c["length"],
                                                              " ".join("(" + " ".join(str(x) for x in op) + ")" for op in c["ops"]))
                           for c in cases])
    for res, mo in zip(results, outs):
        c = res["case"]
        if mo == "bad-op":
            raise RuntimeError("driver rejected a subfile request")
        m = list(parse_sexp(mo)[0])
        brief = {"offset": c["offset"], "length": c["length"], "parent": len(c["parent"]), "ops": c["ops"]}
        ctx.case(("subfile", c["parent"], c["offset"], c["length"], tuple(c["ops"])),
                 nontrivial=c["length"] > 1 and c["offset"] > 0 and any(o not in ("-", "ok", "err", "0") for o in res["raw"]))
        ctx.stat("subfile:%s" % ("in-domain" if c["domain"] else "outside-domain"))
        for op in c["ops"]:
            ctx.stat("subfile-op:%s" % op[0])
        if res["raw"] != m:
            i = next(j for j, (a, b) in enumerate(zip(res["raw"], m)) if a != b)
            ctx.divergence("compound.SubFile.%s" % c["ops"][i][0], dict(brief, at=i), m[i][:40], res["raw"][i][:40])
        if res["wrapped"] != res["raw"]:
            ctx.divergence("structfile.StructFile(SubFile)-vs-SubFile", brief, res["raw"], res["wrapped"])
        if c["domain"] and res["raw"] != res["spec"]:
            i = next(j for j, (a, b) in enumerate(zip(res["raw"], res["spec"])) if a != b)
            ctx.violation("SubFile.%s!=in-memory-file-over-member-bytes" % c["ops"][i][0], dict(brief, at=i),
                          res["spec"][i][:40], res["raw"][i][:40],
                          "the member view of a compound file does not read like the member file")
    ctx.sample({"subfile": cases[3]["ops"], "model": outs[3][:200]})


# ------------------------------------------------------------------------------------------------
# base 85

def _base85(ctx):
    from whoosh.support import base85
    rng = ctx.rng("base85")
    xs = [0, 1, 84, 85, 86, 85 ** 2 - 1, 85 ** 2, 2 ** 32 - 1, 2 ** 32, 85 ** 5 - 1, 85 ** 5, 2 ** 64 - 1, 85 ** 10 - 1, 85 ** 10]
    xs += [rng.getrandbits(rng.randint(1, 66)) for _ in range(ctx.budget(2000, 30000))]
    reqs = ["c20 misc b85 %d %d" % (x, il) for x in xs for il in (0, 1)]
    outs = ctx.driver.ask(reqs)
    it = iter(outs)
    prev = {0: None, 1: None}
    for x in xs:
        for il in (0, 1):
            mo = next(it)
            size = 10 if il else 5
            enc = base85.to_base85(x, bool(il))
            ctx.case(("b85", x, il), nontrivial=x >= 85)
            if sexp(enc.encode("ascii")) != mo:
                ctx.divergence("base85.to_base85", [x, il], mo, sexp(enc.encode("ascii")))
            if len(enc) != size:
                ctx.violation("base85.to_base85:length", [x, il], size, len(enc), "fixed width")
            back = base85.from_base85(enc)
            if x < 85 ** size and back != x:
                ctx.violation("from_base85(to_base85(x))!=x", [x, il], x, back, "base 85 round trip")
            if x >= 85 ** size:
                ctx.stat("base85:out-of-range")
    # order preservation (the reason for the custom alphabet)
    pairs = sorted(set(x for x in xs if x < 85 ** 5))
    encs = [base85.to_base85(x) for x in pairs]
    if encs != sorted(encs):
        ctx.violation("base85.to_base85:not-order-preserving", len(pairs), "sorted", "unsorted", "encoded text does not sort like the numbers")
    decs = ctx.driver.ask(["c20 misc b85-dec %s" % sexp(e.encode("ascii")) for e in encs[:2000]])
    for x, e, md in zip(pairs, encs, decs):
        if md != str(base85.from_base85(e)):
            ctx.divergence("base85.from_base85", e, md, base85.from_base85(e))
    # the bytes functions (Python-2-only code): recorded finding
    for data in (b"abcd", b"abc", b"\x00" * 8, bytes(range(7))):
        try:
            e = base85.b85encode(data)
            d = base85.b85decode(e)
            if d != data:
                ctx.violation("base85.b85decode(b85encode(x))!=x", data.hex(), data.hex(), repr(d), "bytes round trip")
        except TypeError:
            ctx.violation("base85.b85encode:raises-TypeError", data.hex(), "encoded text", "TypeError",
                          "b85encode/b85decode are Python 2 code (str/bytes mixing, true division)")
            break
    try:
        base85.b85decode("!!!!!")
    except TypeError:
        ctx.violation("base85.b85decode:raises-TypeError", "!!!!!", "4 zero bytes", "TypeError",
                      "b85decode uses true division / str-bytes mixing")
    ctx.sample({"base85": xs[7], "encoded": base85.to_base85(xs[7])})


def run(ctx):
    _sort(ctx)
    _compound(ctx)
    _subfile(ctx)
    _base85(ctx)
