"""Generators and (de)serialisation helpers for C15 (query rewriting).

Wire format of query trees: see lean/WM/Drv/C15.lean.  `q2s` maps a real whoosh query object to
that text, `s2q` builds the whoosh object back (replays are self-contained that way).
"""
import copy
import os

_IXCOUNT = 0

FIELDS = {"f": 0, "g": 1, "k": 2, "n": 3, "kind": 4, "t": 5, "u": 6, "v": 7}   # 4..7: nested stream only (never sent to the model)
FNAMES = {v: k for k, v in FIELDS.items()}
ALPHA = ["a", "ab", "abc", "b", "ba", "c", "ca", "d"]
BOOSTS = [1.0, 1.0, 1.0, 1.0, 2.0, 0.5, 4.0]
WILDS = ["a*", "*a", "a?", "?", "*", "ab", "[ab]*", "[ab]", "a*c", "**", "?*", "[!a]*", "a[", "",
         "[ab]c", "c*", "ab*", "a*b*", "[a-b]?", "b", "*b?"]
RANGE_LO = [None, None, "", "a", "ab", "b", "c"]
RANGE_HI = [None, None, "a", "b", "ba", "c", "d", u"￿"]


class Unserializable(Exception):
    pass


def t2s(text):
    if not isinstance(text, str):
        raise Unserializable("non-text term %r" % (text,))
    return "(" + " ".join(str(ord(c)) for c in text) + ")"


def s2t(x):
    return "".join(chr(int(c)) for c in x)


def r2s(x):
    """boost -> exact rational text"""
    if isinstance(x, int):
        return str(x)
    n, d = float(x).as_integer_ratio()
    return "%d/%d" % (n, d) if d != 1 else "%d" % n


def s2r(s):
    if "/" in s:
        a, b = s.split("/")
        return int(a) / int(b)
    return float(int(s))


def b2s(x):
    return "1" if x else "0"


def _fid(name):
    if name is None:
        return "none"
    if name not in FIELDS:
        raise Unserializable("field %r" % (name,))
    return str(FIELDS[name])


def _nr_key(q):
    def enc(v):
        return 0 if v is None else int(v) + 1
    return ((enc(q.start) * 100 + enc(q.end)) * 8 + (4 if q.startexcl else 0) + (2 if q.endexcl else 0)
            + (1 if q.constantscore else 0))


def _nr_unkey(key):
    cs, ex, sx = key & 1, (key >> 1) & 1, (key >> 2) & 1
    rest = key >> 3
    s, e = rest // 100, rest % 100
    return (None if s == 0 else s - 1), (None if e == 0 else e - 1), bool(sx), bool(ex), bool(cs)


def q2s(q):
    from whoosh import query as Q
    from whoosh.query import qcore, spans as S, nested as NS
    t = type(q)
    if isinstance(q, qcore._NullQuery):
        return "null"
    if t is Q.Every:
        return "(every %s %s)" % (_fid(q.fieldname), r2s(q.boost))
    if t is Q.Term:
        return "(term %s %s %s)" % (_fid(q.fieldname), t2s(q.text), r2s(q.boost))
    if t is Q.Prefix:
        return "(pre %s %s %s %s)" % (_fid(q.fieldname), t2s(q.text), r2s(q.boost), b2s(q.constantscore))
    if t is Q.Wildcard:
        return "(wild %s %s %s %s)" % (_fid(q.fieldname), t2s(q.text), r2s(q.boost), b2s(q.constantscore))
    if t is Q.FuzzyTerm:
        key = int(q.maxdist) * 1000 + int(q.prefixlength) * 10 + (1 if q.constantscore else 0)
        return "(multi 0 %s %s %d %s)" % (_fid(q.fieldname), t2s(q.text), key, r2s(q.boost))
    if t is Q.Variations:
        return "(multi 1 %s %s 0 %s)" % (_fid(q.fieldname), t2s(q.text), r2s(q.boost))
    if t is Q.Regex:
        return "(multi 2 %s %s %d %s)" % (_fid(q.fieldname), t2s(q.text), 1 if q.constantscore else 0,
                                         r2s(q.boost))
    if t is Q.NumericRange:
        return "(multi 3 %s () %d %s)" % (_fid(q.fieldname), _nr_key(q), r2s(q.boost))
    if t is Q.TermRange:
        lo = "none" if q.start is None else t2s(q.start)
        hi = "none" if q.end is None else t2s(q.end)
        return "(range %s %s %s %s %s %s %s)" % (_fid(q.fieldname), lo, hi, b2s(q.startexcl), b2s(q.endexcl),
                                                r2s(q.boost), b2s(q.constantscore))
    if t is Q.Phrase:
        return "(phrase %s (%s) %d %s)" % (_fid(q.fieldname), " ".join(t2s(w) for w in q.words), q.slop,
                                          r2s(q.boost))
    if t in (Q.And, Q.Or, Q.DisjunctionMax):
        tag = {Q.And: "and", Q.Or: "or", Q.DisjunctionMax: "dismax"}[t]
        return "(%s (%s) %s)" % (tag, " ".join(q2s(s) for s in q.subqueries), r2s(q.boost))
    if t in (Q.Sequence, Q.Ordered):
        return "(seq %s (%s) %d %s %s)" % (b2s(t is Q.Ordered), " ".join(q2s(s) for s in q.subqueries),
                                          q.slop, b2s(q.ordered), r2s(q.boost))
    if t is Q.Not:
        return "(not %s %s)" % (q2s(q.query), r2s(q.boost))
    if t in (Q.AndNot, Q.AndMaybe, Q.Require, Q.Otherwise):
        tag = {Q.AndNot: "andnot", Q.AndMaybe: "andmaybe", Q.Require: "require", Q.Otherwise: "otherwise"}[t]
        return "(%s %s %s)" % (tag, q2s(q.a), q2s(q.b))
    if t is Q.ConstantScoreQuery:
        return "(const %s %s)" % (q2s(q.child), r2s(q.score))
    sp = span2text(q)
    if sp is not None:
        # a span query is an opaque leaf of the model: its canonical text travels as code points
        fld = "none"
        if t is S.SpanFirst:
            f = sx_field(parse1(q2s(q.q)))
            fld = "none" if f is None else str(f)
        return "(opq %s %s)" % (fld, t2s(sp))
    if t is NS.NestedParent:
        return "(nestedparent %s %s %s %s)" % (q2s(q.parents), q2s(q.child),
                                               "none" if q.per_parent_limit is None else q.per_parent_limit,
                                               getattr(q.score_fn, "__name__", "fn"))
    if t is NS.NestedChildren:
        return "(nestedchildren %s %s %s)" % (q2s(q.parents), q2s(q.child), r2s(q.boost))
    raise Unserializable(t.__name__)


def span2text(q):
    """canonical text (class, every constructor argument, subqueries) of a span query, else None"""
    from whoosh.query import spans as S
    t = type(q)
    if t is S.SpanFirst:
        return "(spanfirst %d %s)" % (q.limit, q2s(q.q))
    if t is S.SpanNear:
        return "(spannear %d %s %d %s %s)" % (q.slop, b2s(q.ordered), q.mindist, q2s(q.a), q2s(q.b))
    if t is S.SpanNear2:
        return "(spannear2 %d %s %d (%s))" % (q.slop, b2s(q.ordered), q.mindist, " ".join(q2s(x) for x in q.qs))
    if t is S.SpanOr:
        return "(spanor (%s))" % " ".join(q2s(x) for x in q.subqs)
    for cls, tag in ((S.SpanNot, "spannot"), (S.SpanContains, "spancontains"), (S.SpanBefore, "spanbefore"),
                     (S.SpanCondition, "spancond")):
        if t is cls:
            return "(%s %s %s)" % (tag, q2s(q.a), q2s(q.b))
    return None


def text2span(x):
    """parsed canonical text -> span query"""
    from whoosh.query import spans as S
    tag = x[0]
    if tag == "spanfirst":
        return S.SpanFirst(s2q(x[2]), limit=int(x[1]))
    if tag == "spannear":
        return S.SpanNear(s2q(x[4]), s2q(x[5]), slop=int(x[1]), ordered=x[2] == "1", mindist=int(x[3]))
    if tag == "spannear2":
        return S.SpanNear2([s2q(y) for y in x[4]], slop=int(x[1]), ordered=x[2] == "1", mindist=int(x[3]))
    if tag == "spanor":
        return S.SpanOr([s2q(y) for y in x[1]])
    cls = {"spannot": S.SpanNot, "spancontains": S.SpanContains, "spanbefore": S.SpanBefore,
           "spancond": S.SpanCondition}[tag]
    return cls(s2q(x[1]), s2q(x[2]))


def pretty(text):
    """query text with the code points of span leaves decoded: (opq F <canonical text of the span query>)"""
    try:
        def go(x):
            if isinstance(x, str):
                return x
            if x and x[0] == "opq":
                return "(opq %s %s)" % (x[1], pretty(s2t(x[2])))
            return "(" + " ".join(go(y) for y in x) + ")"
        return go(parse1(text))
    except Exception:  # noqa
        return text


def opq_inner(x):
    """the parsed canonical text inside an (opq F (codes)) node"""
    return parse1(s2t(x[2]))


def sx_field(x):
    """mirror of WM.Normalize.Q.field on parsed trees (field ids)"""
    if x == "null":
        return None
    tag = x[0]
    if tag == "every" or tag == "opq":
        return None if x[1] == "none" else int(x[1])
    if tag in ("term", "pre", "wild", "range", "phrase"):
        return int(x[1])
    if tag == "multi":
        return int(x[2])
    if tag in ("and", "or", "dismax", "seq"):
        cs = children(x)
        if not cs:
            return None
        f = sx_field(cs[0])
        return f if all(sx_field(c) == f for c in cs[1:]) else None
    if tag in ("andnot", "andmaybe", "require", "otherwise"):
        f = sx_field(x[1])
        return f if sx_field(x[2]) == f else None
    if tag == "const":
        return sx_field(x[1])
    return None


def s2q(x):
    """parsed S-expression (nested lists of strings) -> whoosh query"""
    from whoosh import query as Q
    if x == "null":
        return Q.NullQuery
    tag = x[0]
    fn = lambda v: None if v == "none" else FNAMES[int(v)]
    if tag == "every":
        return Q.Every(fn(x[1]), boost=s2r(x[2]))
    if tag == "term":
        return Q.Term(fn(x[1]), s2t(x[2]), boost=s2r(x[3]))
    if tag == "pre":
        return Q.Prefix(fn(x[1]), s2t(x[2]), boost=s2r(x[3]), constantscore=x[4] == "1")
    if tag == "wild":
        return Q.Wildcard(fn(x[1]), s2t(x[2]), boost=s2r(x[3]), constantscore=x[4] == "1")
    if tag == "multi":
        k, f, t, key, b = int(x[1]), fn(x[2]), s2t(x[3]), int(x[4]), s2r(x[5])
        if k == 0:
            return Q.FuzzyTerm(f, t, boost=b, maxdist=key // 1000, prefixlength=(key % 1000) // 10,
                               constantscore=bool(key % 10))
        if k == 1:
            return Q.Variations(f, t, boost=b)
        if k == 2:
            return Q.Regex(f, t, boost=b, constantscore=bool(key))
        s, e, sx, ex, cs = _nr_unkey(key)
        return Q.NumericRange(f, s, e, sx, ex, boost=b, constantscore=cs)
    if tag == "range":
        lo = None if x[2] == "none" else s2t(x[2])
        hi = None if x[3] == "none" else s2t(x[3])
        return Q.TermRange(fn(x[1]), lo, hi, x[4] == "1", x[5] == "1", boost=s2r(x[6]), constantscore=x[7] == "1")
    if tag == "phrase":
        return Q.Phrase(fn(x[1]), [s2t(w) for w in x[2]], slop=int(x[3]), boost=s2r(x[4]))
    if tag in ("and", "or", "dismax"):
        cls = {"and": Q.And, "or": Q.Or, "dismax": Q.DisjunctionMax}[tag]
        return cls([s2q(s) for s in x[1]], boost=s2r(x[2]))
    if tag == "seq":
        cls = Q.Ordered if x[1] == "1" else Q.Sequence
        return cls([s2q(s) for s in x[2]], slop=int(x[3]), ordered=x[4] == "1", boost=s2r(x[5]))
    if tag == "not":
        return Q.Not(s2q(x[1]), boost=s2r(x[2]))
    if tag in ("andnot", "andmaybe", "require", "otherwise"):
        cls = {"andnot": Q.AndNot, "andmaybe": Q.AndMaybe, "require": Q.Require, "otherwise": Q.Otherwise}[tag]
        return cls(s2q(x[1]), s2q(x[2]))
    if tag == "const":
        return Q.ConstantScoreQuery(s2q(x[1]), score=s2r(x[2]))
    if tag == "opq":
        return text2span(opq_inner(x))
    if tag == "nestedparent":
        from whoosh.query import nested as NS
        return NS.NestedParent(s2q(x[1]), s2q(x[2]), per_parent_limit=None if x[3] == "none" else int(x[3]),
                               score_fn={"sum": sum, "max": max, "min": min}[x[4]])
    if tag == "nestedchildren":
        from whoosh.query import nested as NS
        return NS.NestedChildren(s2q(x[1]), s2q(x[2]), boost=s2r(x[3]))
    raise ValueError(tag)


def parse1(text):
    from vcheck import parse_sexp
    return parse_sexp(text)[0]


# ------------------------------------------------------------------------------------------------
# tree walking on the parsed S-expression form

def children(x):
    if x == "null":
        return []
    tag = x[0]
    if tag in ("and", "or", "dismax"):
        return list(x[1])
    if tag == "seq":
        return list(x[2])
    if tag in ("not", "const"):
        return [x[1]]
    if tag in ("andnot", "andmaybe", "require", "otherwise", "nestedparent", "nestedchildren"):
        return [x[1], x[2]]
    return []


def walk(x):
    yield x
    for c in children(x):
        for y in walk(c):
            yield y


def unparse(x):
    if isinstance(x, str):
        return x
    return "(" + " ".join(unparse(y) for y in x) + ")"


def size(x):
    return sum(1 for _ in walk(x))


def with_children(x, cs):
    """copy of node x with its children replaced (same arity for fixed-arity nodes)"""
    tag = x[0]
    if tag in ("and", "or", "dismax"):
        return [tag, list(cs), x[2]]
    if tag == "seq":
        return [tag, x[1], list(cs), x[3], x[4], x[5]]
    if tag in ("not", "const"):
        return [tag, cs[0], x[2]]
    if tag in ("andnot", "andmaybe", "require", "otherwise"):
        return [tag, cs[0], cs[1]]
    if tag in ("nestedparent", "nestedchildren"):
        return [tag, cs[0], cs[1]] + list(x[3:])
    return x


NOMATCH = ["term", "0", ["122", "122"], "1"]


def shrink_candidates(x):
    """smaller trees derived from x: a child in place of the node, a compound with one child
    removed, a child shrunk recursively; leaves: boost to 1"""
    if x == "null":
        yield NOMATCH
        return
    cs = children(x)
    for c in cs:
        yield c
    # a term that matches nothing, in place of the whole subtree
    if x != NOMATCH:
        yield NOMATCH
    if x[0] in ("pre", "wild", "range", "phrase") or (x[0] == "term" and x[2] != NOMATCH[2]):
        # ... and one in the same field (keeps field()-dependent rewrites alive)
        yield ["term", x[1], NOMATCH[2], "1"]
    if x[0] in ("pre", "wild") and x[2]:
        yield ["term", x[1], x[2], "1"]
    if x[0] == "opq":
        # a span query: try its subqueries, and smaller versions of itself
        inner = opq_inner(x)
        kids = [y for y in inner[1:] if isinstance(y, list) and y and isinstance(y[0], str)
                and not y[0].isdigit()]
        if inner[0] in ("spannear2", "spanor"):
            kids = list(inner[-1])
        for k in kids:
            yield k
    tag = x[0]
    if tag in ("and", "or", "dismax", "seq"):
        for i in range(len(cs)):
            yield with_children(x, cs[:i] + cs[i + 1:])
    for i, c in enumerate(cs):
        for c2 in shrink_candidates(c):
            yield with_children(x, cs[:i] + [c2] + cs[i + 1:])
    # simplify attributes
    if tag in ("and", "or", "dismax") and x[2] != "1":
        yield [tag, x[1], "1"]
    if tag == "term" and x[3] != "1":
        yield [tag, x[1], x[2], "1"]
    if tag == "every" and x[2] != "1":
        yield [tag, x[1], "1"]
    if tag == "not" and x[2] != "1":
        yield [tag, x[1], "1"]
    if tag == "range" and x[6] != "1":
        yield x[:6] + ["1"] + x[7:]


# ------------------------------------------------------------------------------------------------
# generation

def gen_leaf(rng, prof):
    from whoosh import query as Q
    fld = rng.choice(["f", "f", "g", "k"])
    b = rng.choice(BOOSTS)
    k = rng.randrange(20)
    if k <= 4:
        return Q.Term(fld, rng.choice(ALPHA), boost=b)
    if k == 5:
        return Q.Every(rng.choice([None, None, "f", "g", "k", "n"]), boost=b)
    if k == 6:
        return Q.NullQuery if prof.get("voids", True) else Q.Term(fld, "zz", boost=b)
    if k == 7:
        return Q.Prefix(fld, rng.choice(["a", "ab", "", "c", "z", "b"]), boost=b,
                        constantscore=rng.random() < 0.8)
    if k in (8, 9):
        return Q.Wildcard(fld, rng.choice(WILDS), boost=b, constantscore=rng.random() < 0.8)
    if k in (10, 11, 12):
        return Q.TermRange(fld, rng.choice(RANGE_LO), rng.choice(RANGE_HI), rng.random() < 0.3,
                           rng.random() < 0.3, boost=b, constantscore=rng.random() < 0.8)
    if k == 13:
        # (ill-typed mixes -- a NumericRange on a text field next to TermRanges -- must not make
        # normalize() raise; they cannot be searched, so only the index-free stream generates them)
        nfld = rng.choice(["n", "n", "f", "k", fld]) if prof.get("illtyped") else "n"
        return Q.NumericRange(nfld, rng.choice([None, 0, 3, 5]), rng.choice([None, 2, 5, 9]),
                              rng.random() < 0.3, rng.random() < 0.3, boost=b,
                              constantscore=rng.random() < 0.8)
    if k in (14, 15):
        fld = rng.choice("fg")
        return Q.Phrase(fld, [rng.choice(ALPHA) for _ in range(rng.choice([0, 1, 1, 2, 2, 3]))],
                        slop=rng.randint(1, 3), boost=b)
    if k == 16:
        return Q.FuzzyTerm(fld, rng.choice(ALPHA), boost=b, maxdist=rng.choice([1, 1, 2]),
                           prefixlength=rng.choice([0, 1]))
    if k == 17:
        return Q.Variations(fld, rng.choice(ALPHA), boost=b)
    if k == 18:
        return Q.Regex(fld, rng.choice(REGEXES), boost=b)
    if prof.get("spans", True):
        return gen_span(rng, rng.choice([0, 0, 1]), prof)
    return Q.Term(fld, rng.choice(ALPHA), boost=b)


def gen_span(rng, depth, prof=None):
    """Random span query (query/spans.py) over the positional fields."""
    from whoosh import query as Q
    from whoosh.query import spans as S
    fld = rng.choice("fg")

    def child(d):
        r = rng.random()
        if d > 0 and r < 0.25:
            return gen_span(rng, d - 1, prof)
        if r < 0.85:
            return Q.Term(fld if rng.random() < 0.9 else rng.choice("fg"), rng.choice(ALPHA))
        if r < 0.93:
            return Q.Or([Q.Term(fld, rng.choice(ALPHA)), Q.Term(fld, rng.choice(ALPHA))])
        return Q.Phrase(fld, [rng.choice(ALPHA), rng.choice(ALPHA)], slop=rng.randint(1, 2))
    k = rng.randrange(10)
    slop, ordered, mindist = rng.randint(1, 4), rng.random() < 0.5, rng.choice([1, 1, 1, 2])
    if k <= 2:
        return S.SpanNear(child(depth), child(depth), slop=slop, ordered=ordered, mindist=mindist)
    if k <= 4:
        return S.SpanNear2([child(depth) for _ in range(rng.choice([2, 2, 3]))], slop=slop, ordered=ordered,
                           mindist=mindist)
    if k == 5:
        return S.SpanFirst(child(depth), limit=rng.randint(0, 2))
    if k == 6:
        return S.SpanOr([child(depth) for _ in range(rng.choice([1, 2, 2, 3]))])
    cls = rng.choice([S.SpanNot, S.SpanContains, S.SpanBefore, S.SpanCondition])
    return cls(child(depth), child(depth))


SEQWORDS = ["a", "b", "c", "ab"]


def gen_seq(rng, depth, prof, fld=None, parent=None, boost=1.0):
    """Sequence/Ordered over one positional field; with depth > 0 some members are themselves
    Sequence/Ordered nodes (mixed classes; slop/ordered equal to the parent's half of the time, so that
    a rewrite that merges a nested sequence into its parent has something to merge)."""
    from whoosh import query as Q
    words = SEQWORDS if prof.get("seqwords") else ALPHA
    if fld is None:
        fld = rng.choice("fg")
    cls = rng.choice([Q.Sequence, Q.Sequence, Q.Ordered])
    if parent is not None and rng.random() < 0.5:
        slop, ordered = parent
        if rng.random() < 0.5:
            cls = Q.Sequence
    else:
        slop, ordered = rng.randint(1, 3), rng.random() < 0.7
    kids = []
    for _ in range(rng.choice([1, 2, 2, 3])):
        r = rng.random()
        # members that keep span support under every rewrite (multi-term and Or members make the
        # span matchers raise depending on the segment layout: not this property)
        if depth > 0 and r < 0.4:
            kids.append(gen_seq(rng, depth - 1, prof, fld, (slop, ordered), rng.choice([1.0, 1.0, 2.0])))
        elif r < 0.8:
            kids.append(Q.Term(fld, rng.choice(words)))
        elif r < 0.88:
            kids.append(Q.Wildcard(fld, rng.choice(["a", "b", "ab"])))
        else:
            kids.append(Q.Phrase(fld, [rng.choice(words), rng.choice(words)]))
    return cls(kids, slop=slop, ordered=ordered, boost=boost)


def gen_query(rng, depth, prof):
    """Random query tree.  prof: voids (NullQuery, empty compounds, empty phrases allowed),
    same (probability of repeating the parent's class to provoke flattening)."""
    from whoosh import query as Q
    if depth <= 0 or rng.random() < 0.3:
        return gen_leaf(rng, prof)
    b = rng.choice(BOOSTS)
    if rng.random() < prof.get("seqbias", 0.0):
        return gen_seq(rng, rng.choice([1, 1, 2]), prof, boost=b)
    k = rng.randrange(16)
    if prof.get("voids", True):
        n = rng.choice([0, 1, 1, 2, 2, 2, 3, 3, 4])
    else:
        n = rng.choice([1, 2, 2, 2, 3, 3, 4])

    def subs(parent):
        res = []
        for _ in range(n):
            if rng.random() < prof.get("same", 0.25):
                # nested instance of the same class
                m = rng.choice([1, 2, 2, 3])
                res.append(parent([gen_query(rng, depth - 2, prof) for _ in range(m)],
                                  boost=rng.choice(BOOSTS)))
            elif res and rng.random() < 0.2:
                dup = copy.deepcopy(rng.choice(res))  # duplicate clause ...
                if rng.random() < 0.4:
                    # ... or a near-duplicate: one constructor argument of one node differs, so the
                    # de-duplication (`s in seenqs`: __hash__ + __eq__) must keep both
                    try:
                        m = mutate_sx(rng, parse1(q2s(dup)))
                        if m is not None:
                            dup = s2q(m)
                    except Unserializable:
                        pass
                res.append(dup)
            else:
                res.append(gen_query(rng, depth - 1, prof))
        return res
    if k <= 3:
        return Q.And(subs(Q.And), boost=b)
    if k <= 7:
        return Q.Or(subs(Q.Or), boost=b)
    if k == 8:
        return Q.DisjunctionMax(subs(Q.DisjunctionMax), boost=b)
    if k == 9:
        return Q.Not(gen_query(rng, depth - 1, prof), boost=b)
    if k in (10, 11):
        cls = rng.choice([Q.AndNot, Q.AndMaybe, Q.Require, Q.Otherwise])
        return cls(gen_query(rng, depth - 1, prof), gen_query(rng, depth - 1, prof))
    if k == 12:
        # an empty compound is falsy (`__len__`), which makes `__eq__` of everything around it
        # false; ConstantScoreQuery is not normalized inside, so keep empties out of it
        return Q.ConstantScoreQuery(gen_query(rng, depth - 1, dict(prof, voids=False)), score=b)
    if k in (13, 14):
        return gen_seq(rng, rng.choice([0, 1, 1, 2]), prof, boost=b)
    # range-heavy compound: overlapping / duplicate ranges on one field
    cls = rng.choice([Q.And, Q.Or, Q.Or, Q.DisjunctionMax])
    fld = rng.choice(["f", "g", "k"])
    kids = []
    for _ in range(rng.randint(2, 4)):
        r = rng.random()
        if r < 0.7:
            kids.append(Q.TermRange(fld, rng.choice(RANGE_LO), rng.choice(RANGE_HI), rng.random() < 0.3,
                                    rng.random() < 0.3, boost=rng.choice(BOOSTS)))
        elif r < 0.85:
            kids.append(Q.Term(fld, rng.choice(ALPHA)))
        elif prof.get("illtyped") and r < 0.92:
            kids.append(Q.NumericRange(fld, rng.choice([None, 0, 3]), rng.choice([None, 5, 9]), boost=rng.choice(BOOSTS)))
        else:
            kids.append(gen_leaf(rng, prof))
    return cls(kids, boost=b)


def gen_query_string(rng, depth=3):
    """Query-language text for the default QueryParser (fields f, g, k)."""
    def atom():
        r = rng.random()
        fld = rng.choice(["", "", "g:", "k:", "f:"])
        w = rng.choice(ALPHA)
        if r < 0.45:
            return fld + w
        if r < 0.55:
            return fld + rng.choice(["a*", "?b", "*", "ab*", "a?c*"])
        if r < 0.65:
            return fld + '"%s %s"' % (rng.choice(ALPHA), rng.choice(ALPHA))
        if r < 0.78:
            lo, hi = rng.choice(["a", "ab", "b", ""]), rng.choice(["c", "d", "b", ""])
            return fld + rng.choice(["[", "{"]) + lo + " TO " + hi + rng.choice(["]", "}"])
        if r < 0.84:
            return rng.choice(["*:*", "g:*", "f:*"])
        if r < 0.92:
            return fld + w + "^" + rng.choice(["2", "0.5", "4"])
        return fld + w + "~"

    def expr(d):
        if d <= 0 or rng.random() < 0.3:
            return atom()
        r = rng.random()
        if r < 0.3:
            return "(%s)" % " ".join(expr(d - 1) for _ in range(rng.randint(1, 3)))
        if r < 0.75:
            op = rng.choice([" AND ", " OR ", " OR ", " ANDNOT ", " ANDMAYBE ", " REQUIRE ", " "])
            return "(%s%s%s)" % (expr(d - 1), op, expr(d - 1))
        if r < 0.9:
            return "NOT " + expr(d - 1)
        return "(%s)^2" % expr(d - 1)
    return expr(depth)


def gen_docs(rng, prof):
    """List of documents (dicts).  Plain: no empty term, nothing at or above U+FFFF."""
    docs = []
    for i in range(rng.randint(1, prof.get("maxdocs", 9))):
        d = {}
        for fld in "fg":
            if prof.get("longdocs"):
                # few distinct words, longer fields: word order and adjacency decide positional queries
                if rng.random() < 0.85:
                    d[fld] = " ".join(rng.choice(SEQWORDS) for _ in range(rng.randint(2, 7)))
            elif rng.random() < 0.7:
                d[fld] = " ".join(rng.choice(ALPHA) for _ in range(rng.randint(1, 4)))
        r = rng.random()
        if r < 0.5:
            d["k"] = rng.choice(ALPHA)
        elif r < 0.5 + prof.get("odd", 0.0):
            d["k"] = rng.choice(["", u"\U0001F600", u"￿", u"￿a"])
        if rng.random() < 0.5:
            d["n"] = rng.randint(0, 9)
        docs.append(d)
    return docs


def doc_tokens(d):
    """field id -> token list of one document, as the spec sees it"""
    res = {}
    for fld in "fg":
        if d.get(fld) is not None:
            res[FIELDS[fld]] = d[fld].split()
    if d.get("k") is not None:
        res[FIELDS["k"]] = [d["k"]]
    if d.get("n") is not None:
        res[FIELDS["n"]] = [str(d["n"])]
    return res


def make_schema():
    from whoosh import fields
    from whoosh.analysis import SpaceSeparatedTokenizer
    return fields.Schema(id=fields.STORED,
                         f=fields.TEXT(analyzer=SpaceSeparatedTokenizer(), phrase=True),
                         g=fields.TEXT(analyzer=SpaceSeparatedTokenizer(), phrase=True),
                         k=fields.ID, n=fields.NUMERIC(int, bits=32))


def build_index(docs, layout):
    """layout: list of segment sizes (documents are added in order, one commit per segment,
    merge=False) and a set of deleted doc ids."""
    from whoosh.filedb.filestore import RamStorage
    from whoosh import query as Q
    segs, deleted = layout
    global _IXCOUNT
    _IXCOUNT += 1
    st = RamStorage()
    # RamStorage commits go through a temp directory named after the index: keep it private
    ix = st.create_index(make_schema(), indexname="c15p%dn%d" % (os.getpid(), _IXCOUNT))
    pos = 0
    for n in segs:
        w = ix.writer()
        for i in range(pos, min(pos + n, len(docs))):
            kw = {"id": i}
            kw.update(docs[i])
            w.add_document(**kw)
        pos += n
        w.commit(merge=False)
    if pos < len(docs):
        w = ix.writer()
        for i in range(pos, len(docs)):
            kw = {"id": i}
            kw.update(docs[i])
            w.add_document(**kw)
        w.commit(merge=False)
    if deleted:
        w = ix.writer()
        with w.searcher() as s:
            for docnum in range(s.doc_count_all()):
                if s.stored_fields(docnum)["id"] in deleted:
                    w.delete_document(docnum)
        w.commit(merge=False)
    return ix


def gen_layout(rng, ndocs, prof):
    if not prof.get("segments", True) or rng.random() < 0.5:
        segs = [ndocs]
    else:
        segs = []
        left = ndocs
        while left > 0:
            n = rng.randint(1, max(1, left))
            segs.append(n)
            left -= n
    deleted = set()
    if prof.get("deletes", True) and rng.random() < 0.3 and ndocs > 1:
        deleted = set(rng.sample(range(ndocs), rng.randint(1, max(1, ndocs // 3))))
    return segs, deleted


LEAKS = {"deleted": 0}
SEARCH_TIMEOUT = 5.0


class SearchTimeout(Exception):
    """a search of a handful of documents did not come back (some matcher combinations of the tree
    loop forever, e.g. IntersectionMatcher over a NestedParentMatcher: a matcher defect)"""


class deadline(object):
    def __init__(self, seconds):
        self.seconds = seconds
        self.armed = False

    def _fire(self, signum, frame):
        raise SearchTimeout()

    def __enter__(self):
        import signal
        import threading
        if threading.current_thread() is threading.main_thread():
            self.old = signal.signal(signal.SIGALRM, self._fire)
            signal.setitimer(signal.ITIMER_REAL, self.seconds)
            self.armed = True
        return self

    def __exit__(self, *exc):
        import signal
        if self.armed:
            signal.setitimer(signal.ITIMER_REAL, 0)
            signal.signal(signal.SIGALRM, self.old)
        return False


def docs_of(searcher, q, timeout=None):
    """sorted stored ids of the *live* documents docs_for_query yields.  (InverseMatcher of the
    pinned tree can yield a deleted document after its child is exhausted; that is a matcher defect,
    property C01/C11, not a rewriting one: deleted documents are dropped here and counted.)"""
    reader = searcher.reader()
    res = []
    with deadline(timeout or SEARCH_TIMEOUT):
        for dn in searcher.docs_for_query(q):
            if reader.is_deleted(dn):
                LEAKS["deleted"] += 1
                continue
            res.append(searcher.stored_fields(dn)["id"])
    return sorted(res)


def docs_text(docs, ids):
    """(ID (F tok ..) ..) .. for the documents whose number is in `ids`"""
    dtxt = []
    for i, d in enumerate(docs):
        if i not in ids:
            continue
        toks = doc_tokens(d)
        dtxt.append("(%d %s)" % (i, " ".join("(%d %s)" % (f, " ".join(t2s(t) for t in ts))
                                             for f, ts in sorted(toks.items()))))
    return dtxt


def env_text(docs, live, multirows, seqrows, opqrows=()):
    """(env (docs ..) (multi ..) (seq ..)); only live documents are in the spec's index"""
    dtxt = docs_text(docs, live)
    return "(env (docs %s) (multi %s) (seq %s) (opq %s))" % (" ".join(dtxt), " ".join(multirows),
                                                              " ".join(seqrows), " ".join(opqrows))


# ------------------------------------------------------------------------------------------------
# single-attribute mutations (near-duplicates for the equality/hash stream and for de-duplication)

def _other(rng, cur, pool):
    cands = [v for v in pool if v != cur]
    return rng.choice(cands) if cands else cur


REGEXES = ["a.*", "ab?", "[ab]+", "c|d", "b.?"]


def _mut_text(rng, t, pool=None):
    """another term text (parsed form: list of code point strings) from the pool of valid texts of
    the node's class"""
    cur = s2t(t)
    new = _other(rng, cur, pool or ALPHA)
    return [str(ord(c)) for c in new]


def _mut_boost(rng, b):
    return r2s(_other(rng, s2r(b), [1.0, 2.0, 0.5, 4.0]))


def _flip(v):
    return "0" if v == "1" else "1"


def mutate_sx(rng, x, fields=("0", "1", "2")):
    """A copy of the parsed tree `x` in which exactly one constructor argument of one node differs
    (text, field, boost, a flag, a bound, a slop, the class of a compound, the order of the two sides of
    a binary query, one clause dropped, ...).  Returns None if nothing can be changed."""
    if x == "null":
        return None
    tag = x[0]
    cs = children(x)
    if cs and rng.random() < 0.5:
        i = rng.randrange(len(cs))
        m = mutate_sx(rng, cs[i], fields)
        if m is not None:
            return with_children(x, cs[:i] + [m] + cs[i + 1:])
    x = list(x)
    if tag == "every":
        if rng.random() < 0.5:
            x[1] = _other(rng, x[1], ["none"] + list(fields))
        else:
            x[2] = _mut_boost(rng, x[2])
        return x
    if tag == "term":
        k = rng.randrange(3)
        if k == 0:
            x[1] = _other(rng, x[1], fields)
        elif k == 1:
            x[2] = _mut_text(rng, x[2])
        else:
            x[3] = _mut_boost(rng, x[3])
        return x
    if tag in ("pre", "wild"):
        k = rng.randrange(4)
        if k == 0:
            x[1] = _other(rng, x[1], fields)
        elif k == 1:
            x[2] = _mut_text(rng, x[2], WILDS if tag == "wild" else ALPHA + [""])
        elif k == 2:
            x[3] = _mut_boost(rng, x[3])
        else:
            x[4] = _flip(x[4])
        return x
    if tag == "multi":
        kind = x[1]
        k = rng.randrange(3)
        if k == 0 and kind != "3":
            x[3] = _mut_text(rng, x[3], REGEXES if kind == "2" else ALPHA)
        elif k == 1:
            key = int(x[4])
            if kind == "0":
                key = key + rng.choice([1000, 10]) if key % 1000 < 10 else key - 10
                key ^= rng.choice([0, 1])
            elif kind == "2":
                key ^= 1
            elif kind == "3":
                s, e, sx, ex, c = _nr_unkey(key)
                j = rng.randrange(5)
                if j == 0:
                    s = _other(rng, s, [None, 0, 3, 5])
                elif j == 1:
                    e = _other(rng, e, [None, 2, 5, 9])
                elif j == 2:
                    sx = not sx
                elif j == 3:
                    ex = not ex
                else:
                    c = not c

                class _NR(object):
                    start, end, startexcl, endexcl, constantscore = s, e, sx, ex, c
                key = _nr_key(_NR)
            else:
                x[5] = _mut_boost(rng, x[5])
            x[4] = str(key)
        else:
            x[5] = _mut_boost(rng, x[5])
        return x
    if tag == "range":
        k = rng.randrange(6)
        if k == 0:
            cur = None if x[2] == "none" else s2t(x[2])
            new = _other(rng, cur, RANGE_LO)
            x[2] = "none" if new is None else [str(ord(c)) for c in new]
        elif k == 1:
            cur = None if x[3] == "none" else s2t(x[3])
            new = _other(rng, cur, RANGE_HI)
            x[3] = "none" if new is None else [str(ord(c)) for c in new]
        elif k == 2:
            x[4] = _flip(x[4])
        elif k == 3:
            x[5] = _flip(x[5])
        elif k == 4:
            x[6] = _mut_boost(rng, x[6])
        else:
            x[7] = _flip(x[7])
        return x
    if tag == "phrase":
        k = rng.randrange(3)
        ws = list(x[2])
        if k == 0 and ws:
            i = rng.randrange(len(ws))
            ws[i] = _mut_text(rng, ws[i])
            x[2] = ws
        elif k == 1:
            x[3] = str(int(x[3]) % 3 + 1)
        else:
            x[4] = _mut_boost(rng, x[4])
        return x
    if tag in ("and", "or", "dismax"):
        k = rng.randrange(4)
        kids = list(x[1])
        if k == 0:
            x[0] = _other(rng, tag, ["and", "or", "dismax"])
        elif k == 1 and len(kids) > 1:
            del kids[rng.randrange(len(kids))]
            x[1] = kids
        elif k == 2 and len(kids) > 1 and unparse(kids[0]) != unparse(kids[-1]):
            kids[0], kids[-1] = kids[-1], kids[0]
            x[1] = kids
        else:
            x[2] = _mut_boost(rng, x[2])
        return x
    if tag == "seq":
        k = rng.randrange(4)
        if k == 0:
            x[1] = _flip(x[1])
        elif k == 1:
            x[3] = str(int(x[3]) % 3 + 1)
        elif k == 2:
            x[4] = _flip(x[4])
        else:
            x[5] = _mut_boost(rng, x[5])
        return x
    if tag == "not":
        x[2] = _mut_boost(rng, x[2])
        return x
    if tag in ("andnot", "andmaybe", "require", "otherwise"):
        if rng.random() < 0.5 and unparse(x[1]) != unparse(x[2]):
            x[1], x[2] = x[2], x[1]
        else:
            x[0] = _other(rng, tag, ["andnot", "andmaybe", "require", "otherwise"])
        return x
    if tag == "const":
        x[2] = _mut_boost(rng, x[2])
        return x
    if tag == "opq":
        inner = opq_inner(x)
        it = inner[0]
        inner = list(inner)
        subs_at = {"spanfirst": [2], "spannear": [4, 5], "spannot": [1, 2], "spancontains": [1, 2],
                   "spanbefore": [1, 2], "spancond": [1, 2]}
        if it in subs_at and rng.random() < 0.5:
            i = rng.choice(subs_at[it])
            m = mutate_sx(rng, inner[i], ("0", "1"))
            if m is None:
                return None
            inner[i] = m
        elif it in ("spannear2", "spanor"):
            pos = 4 if it == "spannear2" else 1
            kids = list(inner[pos])
            if it == "spanor" or rng.random() < 0.5:
                i = rng.randrange(len(kids))
                m = mutate_sx(rng, kids[i], ("0", "1"))
                if m is None:
                    return None
                kids[i] = m
                inner[pos] = kids
            else:
                j = rng.randrange(3)
                if j == 0:
                    inner[1] = str(int(inner[1]) % 4 + 1)
                elif j == 1:
                    inner[2] = _flip(inner[2])
                else:
                    inner[3] = str(int(inner[3]) % 2 + 1)
        elif it == "spanfirst":
            inner[1] = str((int(inner[1]) + 1) % 3)
        elif it == "spannear":
            j = rng.randrange(3)
            if j == 0:
                inner[1] = str(int(inner[1]) % 4 + 1)
            elif j == 1:
                inner[2] = _flip(inner[2])
            else:
                inner[3] = str(int(inner[3]) % 2 + 1)
        else:
            # SpanNot/Contains/Before/Condition: the two sides swapped
            if unparse(inner[1]) == unparse(inner[2]):
                return None
            inner[1], inner[2] = inner[2], inner[1]
        return parse1(q2s(text2span(inner)))
    if tag == "nestedparent":
        if rng.random() < 0.5:
            x[3] = _other(rng, x[3], ["none", "1", "2"])
        else:
            x[4] = _other(rng, x[4], ["sum", "max"])
        return x
    if tag == "nestedchildren":
        x[3] = _mut_boost(rng, x[3])
        return x
    return None


def has_empty_compound(x):
    """an empty And/Or/DisjunctionMax/Sequence somewhere (such a node is falsy, so `other and ...` in
    every __eq__ above it answers with the empty node instead of True)"""
    for n in walk(x):
        if n != "null" and n[0] in ("and", "or", "dismax") and not n[1]:
            return True
        if n != "null" and n[0] == "seq" and not n[2]:
            return True
        if n != "null" and n[0] == "opq" and has_empty_compound(opq_inner(n)):
            return True
    return False
