"""Shared helpers of the search family (C01, C09): corpus / history / query generators, the real
index builder, conversion of a case to the Lean protocol, the access paths of the public API.

A *case* is a JSON-able dict, fully determined by its sub-seed:

  schema   : {fieldname: {"kind": text|keyword|id|numeric|datetime|boolean|charboost, ...options}}
  docs     : {key: {field: value}}   value = token list [[text, pos, boost], ...] for text fields,
             list of words for keyword, the key for "i", an int for numeric, microseconds for
             datetime, bool for boolean; optional "_boost" / "_<field>_boost"
  history  : [{"add": [key...], "del": [key...], "delq": optional query spec, "blocklimit": n|None,
               "merge": bool, "optimize": bool}]
  queries  : [query spec]  (nested lists, see `q_to_whoosh`)
"""
import datetime
import fnmatch
import re

from vcheck import sexp

BOOSTS = [1.0, 1.0, 1.0, 2.0, 0.5, 4.0, 0.25, 1.5, 3.0]
WORDS = ["a", "aa", "ab", "aab", "abc", "b", "ba", "bab", "bb", "bc", "c", "ca", "cab", "cb", "abd",
         "d", "da", "ac", "bca", "aaa", "bd", "cc", "cd", "dab", "dc", "ad", "bba", "cba", "acb", "dd",
         "abb", "baa", "cac", "dba", "aad", "bcd", "ccb", "dac", "e", "ea", "eb", "abe", "bce", "ee",
         # multi-byte characters: wildcards and edit distance count code points, ranges compare bytes
         "\u00e9", "a\u00e9", "\u00e9b", "b\u00fc", "\u00f1", "\u65e5", "\u65e5\u672c", "a\u65e5"]
TEXTY = ("text", "charboost")
EPOCH = datetime.datetime(2000, 1, 1)


# ------------------------------------------------------------------------------------------------
# analysis: documents arrive pre-tokenised; this tokenizer only unpacks "text|pos|boost" items

from whoosh.analysis import Tokenizer, Token   # noqa (the harness puts the tree under test first on sys.path)


class AnnotTokenizer(Tokenizer):
    def __call__(self, value, positions=False, chars=False, keeporiginal=False,
                 removestops=True, start_pos=0, start_char=0, tokenize=True, mode='', **kwargs):
        t = Token(positions, chars, removestops=removestops, mode=mode, **kwargs)
        char = start_char
        for item in value.split():
            parts = item.split("|")
            t.text = parts[0]
            t.boost = float(parts[2]) if len(parts) > 2 else 1.0
            t.stopped = False
            if positions:
                t.pos = start_pos + (int(parts[1]) if len(parts) > 1 else 0)
            if chars:
                t.startchar = char
                t.endchar = char + len(parts[0])
            char += len(parts[0]) + 1
            yield t


def make_tokenizer():
    return AnnotTokenizer()


def make_schema(spec):
    from whoosh import fields, formats
    sch = fields.Schema()
    for name in sorted(spec):
        o = spec[name]
        k = o["kind"]
        if k == "text":
            f = fields.TEXT(analyzer=make_tokenizer(), phrase=True, field_boost=o.get("fb", 1.0),
                            chars=o.get("chars", False))
        elif k == "charboost":
            f = fields.FieldType(formats.CharacterBoosts(field_boost=o.get("fb", 1.0)), make_tokenizer(),
                                 scorable=True)
        elif k == "keyword":
            f = fields.KEYWORD(scorable=o.get("scorable", False), field_boost=o.get("fb", 1.0))
        elif k == "id":
            f = fields.ID(stored=True, unique=o.get("unique", False), field_boost=o.get("fb", 1.0))
        elif k == "numeric":
            f = fields.NUMERIC(int, bits=o.get("bits", 32), signed=o.get("signed", True),
                               shift_step=o.get("shift_step", 4))
        elif k == "datetime":
            f = fields.DATETIME()
        elif k == "boolean":
            f = fields.BOOLEAN()
        else:
            raise ValueError(k)
        sch.add(name, f)
    return sch


def to_dt(us):
    return EPOCH + datetime.timedelta(microseconds=us)


def doc_kwargs(schema_spec, doc):
    kw = {}
    for name, val in doc.items():
        if name.startswith("_"):
            kw[name] = val
            continue
        k = schema_spec[name]["kind"]
        if k in TEXTY:
            kw[name] = " ".join("%s|%d|%r" % (t, p, b) for t, p, b in val)
        elif k == "keyword":
            kw[name] = " ".join(val)
        elif k == "datetime":
            kw[name] = to_dt(val)
        else:
            kw[name] = val
    return kw


# ------------------------------------------------------------------------------------------------
# generators

def gen_tokens(rng, vocab, maxlen=7, gaps=True, boosts=True):
    n = rng.choice([0, 1, 1, 2, 2, 3, 3, 4, 5, maxlen])
    toks, pos = [], 0
    for _ in range(n):
        if toks and gaps:
            pos += rng.choice([1, 1, 1, 1, 2, 3])
        elif toks:
            pos += 1
        b = rng.choice(BOOSTS) if boosts and rng.random() < 0.25 else 1.0
        toks.append([rng.choice(vocab), pos, b])
    return toks


def gen_schema(rng, exact=True):
    spec = {"i": {"kind": "id", "unique": True},
            "t": {"kind": "text", "fb": rng.choice([1.0, 1.0, 2.0, 0.5])}}
    if rng.random() < 0.7:
        spec["u"] = {"kind": "text", "fb": 1.0, "chars": rng.random() < 0.3}
    if rng.random() < 0.6:
        spec["k"] = {"kind": "keyword", "scorable": rng.random() < 0.5, "fb": rng.choice([1.0, 2.0])}
    if rng.random() < 0.6:
        spec["n"] = {"kind": "numeric", "bits": rng.choice([8, 16, 32, 64]), "signed": rng.random() < 0.6,
                     "shift_step": rng.choice([4, 4, 8, 2, 0])}
    if rng.random() < 0.3:
        spec["d"] = {"kind": "datetime"}
    if rng.random() < 0.4:
        spec["b"] = {"kind": "boolean"}
    if rng.random() < 0.25:
        spec["x"] = {"kind": "charboost", "fb": rng.choice([1.0, 2.0, 0.5])}
    if rng.random() < 0.3:
        spec["j"] = {"kind": "id", "fb": rng.choice([1.0, 2.0])}
    return spec


def num_domain(o):
    bits = o.get("bits", 32)
    if o.get("signed", True):
        return -(1 << (bits - 1)), (1 << (bits - 1)) - 1
    return 0, (1 << bits) - 1


def gen_num(rng, o, near=None):
    lo, hi = num_domain(o)
    r = rng.random()
    if near is not None and r < 0.5:
        v = near + rng.choice([-2, -1, 0, 1, 2])
    elif r < 0.6:
        v = rng.randint(-6, 12)
    elif r < 0.75:
        v = rng.choice([lo, lo + 1, hi, hi - 1, 0, 15, 16, 17, 255, 256])
    else:
        v = rng.randint(lo, hi)
    return max(lo, min(hi, v))


def gen_doc(rng, spec, key, vocab):
    d = {"i": key}
    for name, o in spec.items():
        if name == "i":
            continue
        if rng.random() < 0.15:
            continue  # field missing from this document
        k = o["kind"]
        if k in TEXTY:
            toks = gen_tokens(rng, vocab)
            if not toks and rng.random() < 0.5:
                continue
            d[name] = toks
        elif k == "keyword":
            d[name] = [rng.choice(vocab) for _ in range(rng.choice([1, 1, 2, 3]))]
        elif k == "id":
            d[name] = rng.choice(vocab)
        elif k == "numeric":
            d[name] = gen_num(rng, o)
        elif k == "datetime":
            d[name] = rng.choice([0, 1, 1000000, 86400 * 10**6, rng.randint(0, 10**13)])
        elif k == "boolean":
            d[name] = rng.random() < 0.5
    r = rng.random()
    if r < 0.1:
        d["_boost"] = rng.choice([2.0, 0.5])
    elif r < 0.2:
        d["_t_boost"] = rng.choice([2.0, 0.5, 4.0])
    return d


def gen_history(rng, keys, maxseg=5, nseg=None):
    pick = rng.choice([1, 1, 2, 2, 3, 3, 4, maxseg])
    nseg = pick if nseg is None else nseg
    cuts = sorted(rng.sample(range(1, len(keys)), min(nseg - 1, max(0, len(keys) - 1)))) if len(keys) > 1 else []
    parts, prev = [], 0
    for c in cuts + [len(keys)]:
        parts.append(keys[prev:c])
        prev = c
    hist, seen = [], []
    for part in parts:
        dels = []
        if seen and rng.random() < 0.5:
            dels = rng.sample(seen, rng.randint(1, max(1, len(seen) // 3)))
        hist.append({"add": part, "del": dels,
                     "blocklimit": rng.choice([1, 2, 3, 4, 2, 4, None]),
                     "merge": rng.random() < 0.25, "optimize": rng.random() < 0.05})
        seen = [k for k in seen if k not in dels] + part
    if rng.random() < 0.3 and seen:
        hist.append({"add": [], "del": rng.sample(seen, rng.randint(1, max(1, len(seen) // 4))),
                     "blocklimit": None, "merge": False, "optimize": False})
    return hist


class QGen(object):
    """Random query trees over a schema spec, biased to terms that exist."""

    def __init__(self, rng, spec, vocab, docs, positive=True, maxdepth=5):
        self.rng, self.spec, self.vocab, self.docs = rng, spec, vocab, docs
        self.positive = positive
        self.maxdepth = maxdepth
        self.textf = [n for n, o in spec.items() if o["kind"] in TEXTY]
        self.wordf = [n for n, o in spec.items() if o["kind"] in TEXTY + ("keyword", "id") and n != "i"]
        self.numf = [n for n, o in spec.items() if o["kind"] == "numeric"]
        self.datef = [n for n, o in spec.items() if o["kind"] == "datetime"]
        self.boolf = [n for n, o in spec.items() if o["kind"] == "boolean"]

    def boost(self):
        r = self.rng
        return r.choice(BOOSTS) if r.random() < 0.4 else 1.0

    def word(self):
        r = self.rng
        return r.choice(self.vocab) if r.random() < 0.9 else r.choice(["zz", "q", "abz"])

    def leaf(self):
        r = self.rng
        kinds = ["term"] * 6 + ["phrase"] * 2 + ["prefix", "wild", "regex", "trange", "fuzzy", "every", "every"]
        if self.numf:
            kinds += ["nrange", "nrange", "nterm"]
        if self.datef:
            kinds += ["drange"]
        if self.boolf:
            kinds += ["bterm"]
        kinds += ["null"] if r.random() < 0.3 else []
        k = r.choice(kinds)
        wf = r.choice(self.wordf)
        cs = r.random() < 0.7
        if k == "term":
            f = wf if r.random() < 0.93 else r.choice(["zz", "i"])
            return ["term", f, self.word(), self.boost()]
        if k == "phrase":
            f = r.choice(self.textf)
            n = r.choice([1, 2, 2, 2, 3, 3, 4])
            # bias: take consecutive tokens of some document
            words = None
            if r.random() < 0.6:
                cands = [d[f] for d in self.docs.values() if f in d and len(d[f]) >= n]
                if cands:
                    toks = r.choice(cands)
                    st = r.randint(0, len(toks) - n)
                    words = [t[0] for t in toks[st:st + n]]
            if words is None:
                words = [self.word() for _ in range(n)]
            return ["phrase", f, words, r.choice([1, 1, 2, 3]), self.boost()]
        if k == "prefix":
            w = self.word()
            return ["prefix", wf, w[:r.randint(0, len(w))] if r.random() < 0.9 else "", self.boost(), cs]
        if k == "wild":
            w = list(self.word())
            for _ in range(r.choice([1, 1, 2])):
                p = r.randint(0, len(w))
                c = r.choice(["*", "*", "?", "?", "[ab]", "[!a]"])
                if r.random() < 0.5 and p < len(w):
                    w[p] = c
                else:
                    w.insert(p, c)
            pat = "".join(w)
            if r.random() < 0.08:
                pat = "*"
            return ["wild", wf, pat, self.boost(), cs]
        if k == "regex":
            pat = r.choice(["a", "a.", "a.*", ".*b", "b+", "(a|b)c?", "[ab]{2}", ".*", "ab?c?", "c.*a", "^a", "a$", "x"])
            return ["regex", wf, pat, self.boost(), cs]
        if k == "trange":
            a, b = self.word(), self.word()
            lo, hi = (a, b) if r.random() < 0.8 else (b, a)
            if lo > hi and r.random() < 0.8:
                lo, hi = hi, lo
            if r.random() < 0.15:
                lo = None
            if r.random() < 0.15:
                hi = None
            return ["trange", wf, lo, hi, r.random() < 0.3, r.random() < 0.3, self.boost(), cs]
        if k == "fuzzy":
            w = self.word()
            return ["fuzzy", wf, w, r.choice([1, 1, 2]), r.choice([0, 1, 1, min(2, len(w))]), self.boost(), cs]
        if k == "every":
            # (the key field has one term per document: Every over it costs the list model
            # |lexicon| x |docs|^2 steps, so it is left out for the 2000+ document corpora)
            many = ("numeric", "datetime")
            names = [n for n in self.spec.keys()
                     if len(self.docs) <= 150 or (n != "i" and self.spec[n]["kind"] not in many)]
            f = r.choice([None, None] + names)
            return ["every", f, self.boost()]
        if k == "nrange":
            f = r.choice(self.numf)
            o = self.spec[f]
            vals = [d[f] for d in self.docs.values() if f in d]
            near = r.choice(vals) if vals else None
            a, b = gen_num(r, o, near), gen_num(r, o, near)
            if a > b:   # an inverted numeric interval has no documented meaning
                a, b = b, a
            lo = None if r.random() < 0.15 else a
            hi = None if r.random() < 0.15 else b
            return ["nrange", f, lo, hi, r.random() < 0.3, r.random() < 0.3, self.boost(), True]
        if k == "nterm":
            f = r.choice(self.numf)
            vals = [d[f] for d in self.docs.values() if f in d]
            v = r.choice(vals) if vals and r.random() < 0.8 else gen_num(r, self.spec[f])
            return ["term", f, v, self.boost()]
        if k == "drange":
            f = r.choice(self.datef)
            vals = sorted(d[f] for d in self.docs.values() if f in d) or [0, 5]
            a, b = r.choice(vals) + r.choice([-1, 0, 1, 0]), r.choice(vals) + r.choice([-1, 0, 1, 0])
            a, b = max(a, 0), max(b, 0)
            if a > b:
                a, b = b, a
            lo = None if r.random() < 0.15 else a
            hi = None if r.random() < 0.15 else b
            return ["drange", f, lo, hi, r.random() < 0.3, r.random() < 0.3, self.boost(), True]
        if k == "bterm":
            return ["term", r.choice(self.boolf), r.random() < 0.5, self.boost()]
        return ["null"]

    def sparse_leaf(self):
        """a term that few documents contain: a rare word of a text field, or a value of an
        ID/KEYWORD field"""
        r = self.rng
        cnt = {}
        f = r.choice(self.wordf)
        kind = self.spec[f]["kind"]
        for d in self.docs.values():
            if f in d:
                ws = [t[0] for t in d[f]] if kind in TEXTY else (d[f] if kind == "keyword" else [d[f]])
                for w in set(ws):
                    cnt[w] = cnt.get(w, 0) + 1
        if not cnt:
            return ["term", f, self.word(), 1.0]
        rare = sorted(cnt, key=lambda w: (cnt[w], w))[:max(1, len(cnt) // 3)]
        return ["term", f, r.choice(rare), self.boost()]

    def nested(self, depth):
        """AndMaybe / AndNot / Require with a sparse required side below an And / Or: the parent
        moves it with skip_to() to ids where the required side has no posting"""
        r = self.rng
        k = r.choice(["andmaybe", "andmaybe", "andnot", "require"])
        inner = [k, self.sparse_leaf(), self.tree(max(0, depth - 2))]
        others = [self.tree(max(0, depth - 2)) for _ in range(r.choice([1, 1, 2]))]
        subs = others + [inner]
        r.shuffle(subs)
        return [r.choice(["and", "and", "or"]), subs, self.boost()]

    def tree(self, depth=None):
        r = self.rng
        if depth is None:
            depth = r.choice([0, 1, 1, 2, 2, 3, 3, 4, self.maxdepth])
        if depth <= 0:
            return self.leaf() if r.random() < 0.85 else self.sparse_leaf()
        if depth >= 2 and r.random() < 0.15:
            return self.nested(depth)
        k = r.choice(["and", "and", "or", "or", "or", "dismax", "not", "andnot", "andnot", "andmaybe",
                      "require", "const"])
        if k in ("and", "or", "dismax"):
            n = r.choice([0, 1, 1, 2, 2, 2, 3, 3, 4, 5]) if r.random() < 0.3 else r.choice([2, 2, 3, 3, 4])
            subs = [self.tree(depth - 1 - (r.random() < 0.4)) for _ in range(n)]
            if subs and r.random() < 0.1:
                subs.append(subs[0])  # duplicate clause
            return [k, subs, self.boost()]
        if k == "not":
            return ["not", self.tree(depth - 1)]
        if k == "const":
            return ["const", self.tree(depth - 1), r.choice(BOOSTS)]
        return [k, self.tree(depth - 1), self.tree(depth - 1 - (r.random() < 0.3))]


def plant_phrases(rng, docs, keys, vocab):
    """Phrase-focused documents and queries on field "t" (always TEXT with positions): a tiny vocabulary
    (2-4 words, so the words of a phrase repeat inside a document), phrases of 3-5 words, slop 1-4.
    Two kinds of documents: (a) random sequences over the tiny vocabulary with position gaps; (b) the phrase
    planted word by word, each non-last word possibly doubled or followed by a filler, so that often only
    ONE chain of occurrences satisfies the slop - through a later occurrence of a repeated word, with an
    earlier occurrence that is within the slop of its predecessor but too far from its successor.
    Returns the phrase queries (the Lean chain predicate is the oracle for all of them)."""
    small = rng.sample(vocab, min(len(vocab), rng.choice([2, 3, 3, 4])))
    filler = rng.choice([w for w in vocab if w not in small] or small)
    phrases = []
    for _ in range(rng.choice([1, 2, 2, 3])):
        n = rng.choice([3, 3, 4, 5])
        phrases.append(([rng.choice(small) for _ in range(n)], rng.choice([1, 2, 2, 3, 4])))
    for k in keys:
        r = rng.random()
        if r < 0.3:
            continue   # keep the ordinary document
        toks, pos = [], 0
        if r < 0.6:
            for i in range(rng.choice([3, 4, 5, 6, 8, 10])):
                pos += 0 if not toks else rng.choice([1, 1, 1, 2, 2, 3])
                toks.append([rng.choice(small + [filler]) if rng.random() < 0.9 else rng.choice(vocab), pos, 1.0])
        else:
            ws, slop = rng.choice(phrases)
            lead = rng.choice([0, 0, 1, 2])
            for i in range(lead):
                toks.append([rng.choice(small + [filler]), pos, 1.0])
                pos += 1
            for j, w in enumerate(ws):
                reps = 1 if j == len(ws) - 1 else rng.choice([1, 1, 2, 2, 3])
                for _ in range(reps):
                    toks.append([w, pos, 1.0])
                    pos += rng.choice([1, 1, 1, 2])
                if j < len(ws) - 1:
                    for _ in range(rng.choice([0, 0, 1, 1, 2, slop])):
                        toks.append([filler if rng.random() < 0.7 else rng.choice(small), pos, 1.0])
                        pos += 1
            if rng.random() < 0.3:
                toks.append([rng.choice(small), pos, 1.0])
        docs[k]["t"] = toks
    qs = []
    for ws, slop in phrases:
        b = rng.choice(BOOSTS) if rng.random() < 0.3 else 1.0
        qs.append(["phrase", "t", ws, slop, b])
        qs.append(["phrase", "t", ws, rng.choice([1, 2, 3, 4, 5]), 1.0])
        if len(ws) > 3:
            st = rng.randint(0, len(ws) - 3)
            qs.append(["phrase", "t", ws[st:st + 3], rng.choice([2, 3, 4]), 1.0])
    return qs


def plant_weak_optional(rng, docs, keys, vocab):
    """Top-N pruning of an optional clause (field "t"): one strong word whose frequency varies from
    document to document (1..9 occurrences) and two or three weak words that occur at most once; the
    queries make the strong word the required / dominant clause and a *compound* of the weak words the
    optional one (AndMaybe written directly, the Or that UnionMatcher.replace turns into an AndMaybe,
    under a boost wrapper, inside And): once the heap of a limit=k search is full the k-th best score
    exceeds what the optional compound can reach, and replace() may prune inside it - only where that
    cannot change a returned hit's score."""
    if len(vocab) < 4:
        return []
    strong, w1, w2, w3 = rng.sample(vocab, 4)
    rest = [w for w in vocab if w not in (strong, w1, w2, w3)] or [w3]
    for k in keys:
        if rng.random() < 0.15:
            continue
        words = [strong] * rng.choice([0, 1, 1, 2, 3, 4, 5, 6, 7, 8, 9])
        for w, p in ((w1, 0.5), (w2, 0.4), (w3, 0.3)):
            if rng.random() < p:
                words.append(w)
        if rng.random() < 0.5:
            words.append(rng.choice(rest))
        rng.shuffle(words)
        docs[k]["t"] = [[w, i, 1.0] for i, w in enumerate(words)]

    def t(w, b=1.0):
        return ["term", "t", w, b]
    weak = rng.choice([["or", [t(w1), t(w2)], 1.0], ["or", [t(w1), t(w2), t(w3)], 1.0],
                       ["and", [t(w1), t(w2)], 1.0], ["or", [t(w1, 0.5), t(w2, 0.25)], 1.0],
                       ["or", [t(w1), t(w2)], 0.5], ["dismax", [t(w1), t(w2)], 1.0]])
    sb = rng.choice([1.0, 1.0, 2.0, 4.0])
    qs = [["andmaybe", t(strong, sb), weak],
          ["or", [t(strong, sb), weak], 1.0],
          ["andmaybe", t(strong), ["or", [t(w2), t(w3)], 1.0]],
          ["andmaybe", ["and", [t(strong, sb), ["every", None, 1.0]], 1.0], weak]]
    extra = rng.choice([["and", [["andmaybe", t(strong, sb), weak], ["every", "t", 1.0]], 1.0],
                        ["andmaybe", ["andmaybe", t(strong, sb), weak], t(w3)],
                        ["or", [["or", [t(strong, sb), t(w1)], 1.0], ["or", [t(w2), t(w3)], 1.0]], 1.0],
                        ["andnot", ["andmaybe", t(strong, sb), weak], t(rng.choice(rest))]])
    return qs + [extra]


def gen_case(rng, ndocs=None, nq=8, maxdepth=5, longdocs=False, nseg=None, nodeletes=False, vocab_n=None,
             sparse_or=0, plant=0.0, weakopt=False, nomerge=False, noprefix=0):
    spec = gen_schema(rng)
    # small vocabularies give dense posting lists, large ones sparse lists (cursors that skip far)
    vocab = rng.sample(WORDS, vocab_n or rng.choice([4, 6, 8, 10, 12, 12, 16, 24, 36]))
    if ndocs is None:
        ndocs = rng.choice([1, 2, 3, 5, 8, 8, 12, 12, 20, 30, 45, 60])
    keys = ["k%03d" % i for i in range(ndocs)]
    docs = {k: gen_doc(rng, spec, k, vocab) for k in keys}
    if longdocs:
        # field lengths beyond the identity part of the length-byte table (>= 11 tokens)
        for k in keys:
            if rng.random() < 0.3:
                f = rng.choice([n for n, o in spec.items() if o["kind"] in TEXTY])
                n = rng.choice([11, 12, 15, 16, 17, 25, 40])
                docs[k][f] = [[rng.choice(vocab), i, 1.0] for i in range(n)]
    hist = gen_history(rng, keys, nseg=nseg)
    if nodeletes:
        hist = [dict(c, **{"del": []}) for c in hist if c["add"]]
    if nomerge:
        hist = [dict(c, merge=False, optimize=False) for c in hist]
    planted = []
    if plant and rng.random() < plant:
        planted = plant_phrases(rng, docs, keys, vocab)
    qg = QGen(rng, spec, vocab, docs, maxdepth=maxdepth)
    queries = [qg.tree() for _ in range(nq)]
    if planted:
        # the planted phrases bare, and as clauses of compounds (the parent moves the span matcher with skip_to)
        queries = queries[:max(2, nq - 4)] + planted
        ph = rng.choice(planted)
        k = rng.choice(["and", "or", "andnot", "andmaybe", "require", "not"])
        if k in ("and", "or"):
            queries.append([k, [ph, qg.tree(1)], qg.boost()])
        elif k == "not":
            queries.append(["not", ph])
        else:
            queries.append([k, ph, qg.tree(1)] if rng.random() < 0.5 else [k, qg.tree(1), ph])
    if weakopt:
        queries = queries[:max(1, nq - 5)] + plant_weak_optional(rng, docs, keys, vocab)
    for _ in range(noprefix):
        # lexicon expansions without a literal prefix (the whole lexicon of every segment is scanned),
        # over segments whose lexicons differ; bare and as a clause
        w = qg.word()
        pat = rng.choice(["*" + w[1:], "?" + w[1:], "*" + w[-1:], "[abcd]*", "?*", "*" + w[len(w) // 2:] + "*",
                          "[!a]" + w[1:] + "*"])
        wild = ["wild", rng.choice(qg.wordf), pat, qg.boost(), rng.random() < 0.7]
        rex = ["regex", rng.choice(qg.wordf), rng.choice([".*" + w[-1:], "." + w[1:], "(a|b|c|d).*", "[a-d].?", ".+",
                                                         ".?" + w[-1:] + ".*", "(" + w + "|.b)"]),
               qg.boost(), rng.random() < 0.7]
        queries += [wild, rex]
        k = rng.choice(["and", "or", "andnot", "not"])
        if k in ("and", "or"):
            queries.append([k, [rng.choice([wild, rex]), qg.tree(1)], qg.boost()])
        elif k == "not":
            queries.append(["not", rng.choice([wild, rex])])
        else:
            queries.append(["andnot", qg.sparse_leaf(), rng.choice([wild, rex])])
    for _ in range(sparse_or):
        # three or more sparse clauses: the array union (scored, needs_current=False) has to cross
        # empty stretches and, beyond 2048 documents, part boundaries
        n = rng.choice([3, 3, 4, 5])
        queries.append(["or", [qg.sparse_leaf() for _ in range(n)], qg.boost()])
        # ... the same over plain terms (boost 1: sub-matchers of one class, the array union the cursor model
        # has), stepped by the cursor stream with skip_to() calls that land in, at the end of and beyond the
        # buffered part
        unit = ["or", [qg.sparse_leaf()[:3] + [1.0] for _ in range(rng.choice([3, 4, 6]))], qg.boost()]
        queries.append(unit)
        # ... and as a clause that a parent moves with skip_to(): intersection / difference / optional side
        k = rng.choice(["and", "andnot", "require", "andmaybe", "and"])
        other = qg.sparse_leaf() if rng.random() < 0.6 else qg.tree(1)
        if k == "and":
            queries.append(["and", [unit, other] if rng.random() < 0.5 else [other, unit], qg.boost()])
        else:
            queries.append([k, other, unit] if rng.random() < 0.5 else [k, unit, other])
    return {"schema": spec, "docs": docs, "history": hist, "queries": queries}


# ------------------------------------------------------------------------------------------------
# the real index

def private_tmp(scratch):
    """A RamStorage writer keeps its posting pool in `<tempdir>/<indexname>.tmp` — the same directory
    for every process of the machine.  Give each worker process its own temp dir."""
    import os
    import tempfile
    import random as _random
    if scratch:
        d = os.path.join(scratch, "p%d" % os.getpid())
        os.makedirs(d, exist_ok=True)
        tempfile.tempdir = d
    _random.seed(os.urandom(16))


def build_index(case, storage=None, ix=None, commits=None):
    """the whole history on a new index, or (ix given) the commits `commits` on an existing one"""
    from whoosh.filedb.filestore import RamStorage
    from whoosh.codec.whoosh3 import W3Codec
    from whoosh import query as Q
    sspec = case["schema"]
    if ix is None:
        st = storage or RamStorage()
        ix = st.create_index(make_schema(sspec))
    for c in (case["history"] if commits is None else commits):
        kw = {}
        if c.get("blocklimit"):
            kw["codec"] = W3Codec(blocklimit=c["blocklimit"])
        w = ix.writer(**kw)
        for k in c.get("del", []):
            w.delete_by_term("i", k)
        for k in c.get("add", []):
            w.add_document(**doc_kwargs(sspec, case["docs"][k]))
        w.commit(merge=c.get("merge", False), optimize=c.get("optimize", False))
    return ix


def read_layout(searcher):
    """[(keys in local docnum order, deleted local docnums)] per segment, as the real index has it."""
    segs = []
    for ss, _off in searcher.leaf_searchers():
        r = ss.reader()
        n = r.doc_count_all()
        keys = [r.stored_fields(i)["i"] for i in range(n)]
        dele = [i for i in range(n) if r.is_deleted(i)]
        segs.append((keys, dele))
    return segs


# ------------------------------------------------------------------------------------------------
# conversion to the Lean protocol

def hexs(b):
    return b.hex() if b else "-"


def rat(x):
    if isinstance(x, bool):
        raise TypeError
    if isinstance(x, int):
        return str(x)
    n, d = float(x).as_integer_ratio()
    return "%d/%d" % (n, d) if d != 1 else str(n)


class Enc(object):
    """Term bytes of the real field types (encoding trusted: C13 verifies the numeric codec)."""

    def __init__(self, spec):
        self.spec = spec
        self.schema = make_schema(spec)

    def term(self, f, v):
        """bytes of value v in field f, None if the field rejects it / is unknown"""
        if f not in self.spec:
            return None
        k = self.spec[f]["kind"]
        try:
            if k == "datetime" and isinstance(v, int):
                v = to_dt(v)
            return self.schema[f].to_bytes(v)
        except ValueError:
            return None

    def tokens(self, f, val):
        """[(bytes, pos, boost)] as indexed, and numeric values"""
        k = self.spec[f]["kind"]
        if k in TEXTY:
            return [(t.encode("utf8"), p, b) for t, p, b in val], []
        if k == "keyword":
            return [(t.encode("utf8"), 0, 1.0) for t in val], []
        if k == "id":
            return [(val.encode("utf8"), 0, 1.0)], []
        if k == "numeric":
            return [(tb, 0, 1.0) for tb, _, _, _ in self.schema[f].index(val)], [val]
        if k == "datetime":
            return [(tb, 0, 1.0) for tb, _, _, _ in self.schema[f].index(to_dt(val))], [val]
        if k == "boolean":
            return [(self.schema[f].to_bytes(val), 0, 1.0)], []
        raise ValueError(k)

    def fboost(self, f, doc):
        o = self.spec[f]
        fb = o.get("fb", 1.0) if o["kind"] != "numeric" else 1.0
        kw = doc.get("_%s_boost" % f, doc.get("_boost", 1.0))
        return fb * kw


def existence(kind):
    return kind in ("id", "numeric", "datetime", "boolean")


def lean_doc(enc, doc, table=None):
    """table: {(field, termbytes): score} leaf-score overrides for this document"""
    fs = []
    for f in sorted(doc):
        if f.startswith("_"):
            continue
        toks, nums = enc.tokens(f, doc[f])
        if existence(enc.spec[f]["kind"]):
            seen, ded = set(), []
            for t in toks:
                if t[0] not in seen:
                    seen.add(t[0])
                    ded.append(t)
            toks = ded
        item = [f, rat(enc.fboost(f, doc)),
                "(" + " ".join("(%s %d %s)" % (hexs(t), p, rat(b)) for t, p, b in toks) + ")",
                "(" + " ".join(rat(x) for x in nums) + ")"]
        if table is not None:
            rows = sorted(set(t for t, _, _ in toks))
            item.append("(" + " ".join("(%s %s)" % (hexs(t), rat(table[(f, t)])) for t in rows
                                       if (f, t) in table) + ")")
        fs.append("(" + " ".join(item) + ")")
    return "(" + " ".join(fs) + ")"


def lean_index(enc, case, layout, tables=None):
    """tables: {key: {(field, termbytes): score}} or None"""
    segs = []
    for keys, dele in layout:
        ds = " ".join(lean_doc(enc, case["docs"][k], None if tables is None else tables[k]) for k in keys)
        segs.append("((%s) (%s))" % (ds, " ".join(str(i) for i in dele)))
    return "(" + " ".join(segs) + ")"


def glob_items(pat):
    """fnmatch pattern -> Lean Glob items (mirrors fnmatch.translate's reading of [ ])"""
    items, i, n = [], 0, len(pat)
    while i < n:
        c = pat[i]
        i += 1
        if c == "*":
            items.append("star")
        elif c == "?":
            items.append("any")
        elif c == "[":
            j = i
            if j < n and pat[j] == "!":
                j += 1
            if j < n and pat[j] == "]":
                j += 1
            while j < n and pat[j] != "]":
                j += 1
            if j >= n:
                items.append("(lit %d)" % ord("["))
            else:
                stuff = pat[i:j]
                neg = stuff.startswith("!")
                if neg:
                    stuff = stuff[1:]
                if "-" in stuff or "\\" in stuff or "^" in stuff:
                    raise ValueError("unsupported class")
                items.append("(cls %d (%s))" % (1 if neg else 0, " ".join(str(ord(ch)) for ch in stuff)))
                i = j + 1
        else:
            items.append("(lit %d)" % ord(c))
    return "(" + " ".join(items) + ")"


def field_lexicon(case, f):
    kind = case["schema"].get(f, {}).get("kind")
    out = set()
    for d in case["docs"].values():
        if f in d:
            if kind in TEXTY:
                out.update(t[0] for t in d[f])
            elif kind == "keyword":
                out.update(d[f])
            elif kind == "id":
                out.add(d[f])
    return sorted(out)


def compiled_to_lean(cq):
    """what NumericRange._compile_query returned (NullQuery, Term, TermRange, Or, ConstantScoreQuery over term
    bytes) as a term-level Lean query"""
    from whoosh import query as Q
    if cq is Q.NullQuery or isinstance(cq, type(Q.NullQuery)):
        return "null"
    if isinstance(cq, Q.ConstantScoreQuery):
        return "(const %s %s)" % (compiled_to_lean(cq.child), rat(cq.score))
    if isinstance(cq, Q.Or):
        return "(or (%s) %s)" % (" ".join(compiled_to_lean(x) for x in cq.subqueries), rat(cq.boost))
    if isinstance(cq, Q.TermRange):
        return "(multi %s (range %s %s %d %d) %s %d)" % (
            cq.fieldname, "none" if cq.start is None else hexs(cq.start), "none" if cq.end is None else hexs(cq.end),
            cq.startexcl, cq.endexcl, rat(cq.boost), 1 if cq.constantscore else 0)
    if isinstance(cq, Q.Term):
        return "(term %s %s %s)" % (cq.fieldname, hexs(cq.text), rat(cq.boost))
    raise Unmodelled()


def q_to_lean(enc, case, q, numeric=None):
    """query spec -> Lean S-expression; None when the query is outside the modelled domain.
    numeric = an index reader: NumericRange/DateRange nodes are translated to what their _compile_query
    returns on that reader (Or of Term/TermRange over the tier terms) instead of the value-level numrange"""
    k = q[0]
    spec = enc.spec

    def sub(x):
        r = q_to_lean(enc, case, x, numeric)
        if r is None:
            raise Unmodelled()
        return r
    if k == "null":
        return "null"
    if k == "term":
        _, f, v, b = q
        tb = enc.term(f, v)
        if tb is None:
            return "null"      # unknown field / value rejected by the field: NullMatcher
        return "(term %s %s %s)" % (f, hexs(tb), rat(b))
    if k in ("prefix", "wild", "regex", "trange", "fuzzy"):
        f = q[1]
        if f not in spec:
            raise Unmodelled()
        if k == "prefix":
            _, f, p, b, cs = q
            pred = "(pfx %s)" % hexs(p.encode("utf8"))
        elif k == "wild":
            _, f, p, b, cs = q
            pred = "(glob %s)" % glob_items(p)
        elif k == "regex":
            _, f, p, b, cs = q
            if p == ".*":
                pred = "all"
            else:
                rx = re.compile(p)
                pred = "(oneof (%s))" % " ".join(hexs(t.encode("utf8")) for t in field_lexicon(case, f)
                                                  if rx.match(t))
        elif k == "trange":
            _, f, lo, hi, le, he, b, cs = q
            pred = "(range %s %s %d %d)" % ("none" if lo is None else hexs(lo.encode("utf8")),
                                            "none" if hi is None else hexs(hi.encode("utf8")), le, he)
        else:
            _, f, w, md, pl, b, cs = q
            pred = "(fuzzy %s %d %d)" % (hexs(w.encode("utf8")), md, pl)
        return "(multi %s %s %s %d)" % (f, pred, rat(b), 1 if cs else 0)
    if k == "phrase":
        _, f, ws, slop, b = q
        if f not in spec:
            return "null"
        return "(phrase %s (%s) %d %s)" % (f, " ".join(hexs(w.encode("utf8")) for w in ws), slop, rat(b))
    if k in ("nrange", "drange") and numeric is not None:
        try:
            return compiled_to_lean(q_to_whoosh(case, q)._compile_query(numeric))
        except Unmodelled:
            raise
        except Exception:  # noqa   (bounds the field rejects ...: the value-level stream covers them)
            raise Unmodelled()
    if k in ("nrange", "drange"):
        _, f, lo, hi, le, he, b, cs = q
        return "(numrange %s %s %s %d %d %s)" % (f, "none" if lo is None else rat(lo),
                                                 "none" if hi is None else rat(hi), le, he, rat(b))
    if k == "every":
        _, f, b = q
        if f is not None and f not in spec:
            raise Unmodelled()
        return "(every %s %s)" % ("none" if f is None else f, rat(b))
    if k in ("and", "or", "dismax"):
        return "(%s (%s) %s)" % (k, " ".join(sub(x) for x in q[1]), rat(q[2]))
    if k == "not":
        return "(not %s)" % sub(q[1])
    if k in ("andnot", "andmaybe", "require"):
        return "(%s %s %s)" % (k, sub(q[1]), sub(q[2]))
    if k == "const":
        return "(const %s %s)" % (sub(q[1]), rat(q[2]))
    raise ValueError(k)


class Unmodelled(Exception):
    pass


class ModelTimeout(Exception):
    pass


def q_to_whoosh(case, q):
    from whoosh import query as Q
    k = q[0]
    spec = case["schema"]

    def sub(x):
        return q_to_whoosh(case, x)
    if k == "null":
        return Q.NullQuery
    if k == "term":
        _, f, v, b = q
        if spec.get(f, {}).get("kind") == "datetime" and isinstance(v, int):
            v = to_dt(v)
        return Q.Term(f, v, boost=b)
    if k == "prefix":
        return Q.Prefix(q[1], q[2], boost=q[3], constantscore=q[4])
    if k == "wild":
        return Q.Wildcard(q[1], q[2], boost=q[3], constantscore=q[4])
    if k == "regex":
        return Q.Regex(q[1], q[2], boost=q[3], constantscore=q[4])
    if k == "trange":
        return Q.TermRange(q[1], q[2], q[3], q[4], q[5], boost=q[6], constantscore=q[7])
    if k == "fuzzy":
        return Q.FuzzyTerm(q[1], q[2], boost=q[5], maxdist=q[3], prefixlength=q[4], constantscore=q[6])
    if k == "phrase":
        return Q.Phrase(q[1], list(q[2]), slop=q[3], boost=q[4])
    if k == "nrange":
        return Q.NumericRange(q[1], q[2], q[3], q[4], q[5], boost=q[6], constantscore=q[7])
    if k == "drange":
        return Q.DateRange(q[1], None if q[2] is None else to_dt(q[2]), None if q[3] is None else to_dt(q[3]),
                           q[4], q[5], boost=q[6], constantscore=q[7])
    if k == "every":
        return Q.Every(q[1], boost=q[2])
    if k == "and":
        return Q.And([sub(x) for x in q[1]], boost=q[2])
    if k == "or":
        return Q.Or([sub(x) for x in q[1]], boost=q[2])
    if k == "dismax":
        return Q.DisjunctionMax([sub(x) for x in q[1]], boost=q[2])
    if k == "not":
        return Q.Not(sub(q[1]))
    if k == "andnot":
        return Q.AndNot(sub(q[1]), sub(q[2]))
    if k == "andmaybe":
        return Q.AndMaybe(sub(q[1]), sub(q[2]))
    if k == "require":
        return Q.Require(sub(q[1]), sub(q[2]))
    if k == "const":
        return Q.ConstantScoreQuery(sub(q[1]), q[2])
    raise ValueError(k)


def subqueries(q):
    k = q[0]
    if k in ("and", "or", "dismax"):
        return list(q[1])
    if k in ("not", "const"):
        return [q[1]]
    if k in ("andnot", "andmaybe", "require"):
        return [q[1], q[2]]
    return []


def node_kinds(q, acc=None):
    acc = acc if acc is not None else []
    acc.append(q[0])
    for s in subqueries(q):
        node_kinds(s, acc)
    return acc


def qsize(q):
    return 1 + sum(qsize(s) for s in subqueries(q))


# ------------------------------------------------------------------------------------------------
# access paths of the public API

ACCESSORS = {"id", "score", "weight", "value", "value_as", "spans", "block_quality", "max_quality",
             "is_active", "block_max_weight", "block_min_length"}
PASSTHROUGH = {"W3LeafMatcher", "ListMatcher", "LeafMatcher", "WrappingMatcher"}


def exc_sig(e):
    """exception class @ qualified name of the innermost whoosh function, not counting
    comprehensions and the plain accessors of leaf / pass-through matchers (an IndexError raised
    by `W3LeafMatcher.id()` is blamed on the function that asked an exhausted matcher for its id)"""
    frames = []
    tb = e.__traceback__
    while tb is not None:
        code = tb.tb_frame.f_code
        if "/whoosh/" in code.co_filename:
            frames.append((code.co_name, getattr(code, "co_qualname", code.co_name)))
        tb = tb.tb_next
    site = "?"
    if isinstance(e, Hang):
        quals = [q.replace(".<locals>", "") for _, q in frames]
        dm = [q for q in quals if q == "DisjunctionMaxMatcher.skip_to_quality"]
        loops = [q for n, q in frames if n in ("skip_to_quality", "_find_next", "skip_to", "next", "replace")]
        return "Hang@%s" % (dm[0] if dm else (loops[0] if loops else (quals[-1] if quals else "?")))
    for name, qual in reversed(frames):
        if name.startswith("<"):
            continue
        if name in ACCESSORS and qual.split(".")[0] in PASSTHROUGH:
            continue
        site = qual.replace(".<locals>", "")
        break
    if site.endswith(".id") and type(e).__name__ in ("IndexError", "NotImplementedError", "ReadTooFar"):
        # some composite (or the base/Null matcher) was asked for id() although it is exhausted
        return "id()-on-exhausted-matcher"
    return "%s@%s" % (type(e).__name__, site)


class Hang(Exception):
    """raised by the watchdog inside a call that does not return"""


def with_watchdog(fn, seconds=4.0):
    import signal

    def onalarm(signum, frame):
        raise Hang("no result after %ss" % seconds)
    old = signal.signal(signal.SIGALRM, onalarm)
    signal.setitimer(signal.ITIMER_REAL, seconds)
    try:
        return fn()
    finally:
        signal.setitimer(signal.ITIMER_REAL, 0)
        signal.signal(signal.SIGALRM, old)


def frac(x):
    n, d = float(x).as_integer_ratio()
    return [n, d]


def run_paths(s, wq, limits=(1, 2, 3, 10), paths=None):
    """Observations of one whoosh query on one searcher, per access path.
    value = {"docs": sorted docnums, "scores": {docnum: [num, den]}, "len": n} or {"exc": sig}"""
    out = {}
    hung = []

    def guard(name, fn):
        if paths is not None and name not in paths:
            return
        try:
            if name.startswith("limit=") and hung:
                out[name] = {"exc": hung[0]}     # same query, same optimised path: do not wait again
                return
            try:
                out[name] = with_watchdog(fn, 5.0)
            except Hang:
                # a loaded machine can make a finite search slow: a hang must survive a longer second try
                out[name] = with_watchdog(fn, 12.0)
        except Exception as e:  # noqa
            out[name] = {"exc": exc_sig(e)}
            if isinstance(e, Hang) and name.startswith("limit=") and name != "limit=None":
                hung.append(out[name]["exc"])

    def scored(**kw):
        r = s.search(wq, **kw)
        hits = [(h.docnum, h.score) for h in r]
        return {"docs": sorted(d for d, _ in hits), "order": [d for d, _ in hits],
                "scores": {d: frac(sc) for d, sc in hits}, "len": len(r)}

    def unscored(**kw):
        r = s.search(wq, **kw)
        return {"docs": sorted(h.docnum for h in r), "len": len(r)}

    guard("limit=None", lambda: scored(limit=None))
    guard("terms=True", lambda: scored(limit=None, terms=True))
    for k in limits:
        guard("limit=%d" % k, lambda: scored(limit=k))
    guard("scored=False", lambda: unscored(limit=None, scored=False))
    guard("sortedby", lambda: unscored(limit=None, sortedby="i"))
    guard("docs_for_query", lambda: {"docs": sorted(s.docs_for_query(wq))})
    guard("q.docs", lambda: {"docs": sorted(wq.docs(s))})
    guard("q.matcher:skip", lambda: skip_top(s, wq))
    return out


SKIP_STRIDES = ((1, 2, 3, 5, 2, 8, 1, 13), (2, 1, 4, 1, 1, 6, 3, 21), (3, 7, 1, 2, 11, 1, 5, 2))


def skip_top(s, wq):
    """The matcher Query.docs(searcher) reads - Query.matcher on the TOP searcher (term leaves are
    MultiMatchers over the segments' posting lists on a multi-segment index) - moved with skip_to()
    only: from id() to id() + stride for three stride cycles.  Observation: every (target, id reached
    or None); the skip_to contract makes that the first answer >= target."""
    skips, docs = [], set()
    for strides in SKIP_STRIDES:
        m = wq.matcher(s, s.context())
        n = 0
        while m.is_active():
            cur = m.id()
            docs.add(cur)
            target = cur + strides[n % len(strides)]
            m.skip_to(target)
            skips.append([target, m.id() if m.is_active() else None])
            n += 1
            if n > 100000:
                raise RuntimeError("matcher does not terminate")
    return {"skips": skips, "visited": sorted(docs)}


def step_matcher(m):
    out = []
    n = 0
    while m.is_active():
        out.append((m.id(), m.score()))
        m.next()
        n += 1
        if n > 100000:
            raise RuntimeError("matcher does not terminate")
    return out


def gen_program(rng):
    """a cyclic stepping program for the cursor stream: "n" = next(), "r" = m = m.replace(),
    ("s", d) = skip_to(id() + d); at least one next() per cycle, so every cycle makes progress"""
    ops = []
    for _ in range(rng.randint(1, 6)):
        r = rng.random()
        if r < 0.45:
            ops.append("n")
        elif r < 0.9:
            ops.append(("s", rng.choice([0, 1, 1, 2, 2, 3, 5, 8, 40, 2047, 2048, 2049])))
        else:
            ops.append("r")
    ops.insert(rng.randrange(len(ops) + 1), "n")
    return ops


def program_sexp(prog):
    return "(" + " ".join(o if isinstance(o, str) else "(s %d)" % o[1] for o in prog) + ")"


def step_program(m, prog):
    """what id()/score() read before each call of the program (applied cyclically while active)"""
    out = []
    j = 0
    while m.is_active():
        x = m.id()
        out.append((x, m.score()))
        op = prog[j % len(prog)]
        if op == "n":
            m.next()
        elif op == "r":
            m = m.replace()
        else:
            m.skip_to(x + op[1])
        j += 1
        if j > 400000:
            raise RuntimeError("matcher does not terminate")
    return out


# ------------------------------------------------------------------------------------------------
# query reduction (shrinking)

def reductions(q):
    """strictly simpler variants of a query tree"""
    subs = subqueries(q)
    for s in subs:
        yield s
    k = q[0]
    if k in ("and", "or", "dismax"):
        for i in range(len(q[1])):
            yield [k, q[1][:i] + q[1][i + 1:], q[2]]
        for i, s in enumerate(q[1]):
            for r in reductions(s):
                yield [k, q[1][:i] + [r] + q[1][i + 1:], q[2]]
        if q[2] != 1.0:
            yield [k, q[1], 1.0]
    elif k == "not":
        for r in reductions(q[1]):
            yield ["not", r]
    elif k == "const":
        for r in reductions(q[1]):
            yield ["const", r, q[2]]
    elif k in ("andnot", "andmaybe", "require"):
        for r in reductions(q[1]):
            yield [k, r, q[2]]
        for r in reductions(q[2]):
            yield [k, q[1], r]
    elif k == "term":
        if q[3] != 1.0:
            yield ["term", q[1], q[2], 1.0]
    elif k == "every":
        if q[2] != 1.0:
            yield ["every", q[1], 1.0]


def qweight(q):
    return (qsize(q), len(json_dumps(q)))


def json_dumps(x):
    import json
    return json.dumps(x, sort_keys=True)


def shrink(q, fails_batch, rounds=25, width=60):
    """greedy reduction of q; `fails_batch(cands)` returns the first candidate that still fails
    (or None).  One driver call per round."""
    cur = q
    for _ in range(rounds):
        cands, seen = [], set()
        for cand in sorted(reductions(cur), key=qweight):
            k = json_dumps(cand)
            if qweight(cand) < qweight(cur) and k not in seen:
                seen.add(k)
                cands.append(cand)
        if not cands:
            return cur
        nxt = fails_batch(cands[:width])
        if nxt is None:
            return cur
        cur = nxt
    return cur


# ------------------------------------------------------------------------------------------------
# one case, everything: expected values from the Lean spec, all access paths, comparison,
# shrinking and classification of what fails

EXHAUSTIVE = ("limit=None", "terms=True", "scored=False", "sortedby", "docs_for_query")


def path_class(path):
    if path in EXHAUSTIVE:
        return "exhaustive"
    if path.startswith("limit="):
        return "limit=k"
    if path.startswith("q.matcher"):
        return "q.matcher"
    return path


def parse_rat(x):
    from fractions import Fraction
    if "/" in x:
        a, b = x.split("/")
        return Fraction(int(a), int(b))
    return Fraction(int(x))


class CaseRun(object):
    def __init__(self, seedstr, opts, case=None):
        from vcheck import Driver
        self.seed, self.opts = seedstr, opts
        self.driver = Driver()
        self.case = case
        self.mode = opts.get("mode", "freq")
        self.modestr = self.mode
        self.final = (opts.get("weighting") or ("freq",))[0] == "final"
        self._nr = {}

    # --- Lean side
    def ask1(self, line, timeout=40.0):
        """one driver request; a request the compiled model cannot answer in time makes the whole
        case be skipped (counted), never hang the check"""
        import subprocess
        from vcheck import DRIVER
        try:
            p = subprocess.run([DRIVER], input=(line + "\n").encode("utf-8"), stdout=subprocess.PIPE,
                               stderr=subprocess.PIPE, timeout=timeout)
        except subprocess.TimeoutExpired:
            raise ModelTimeout(line[:60])
        if p.returncode != 0:
            raise RuntimeError("driver exit %s: %s" % (p.returncode, p.stderr.decode("utf-8", "replace")[-500:]))
        return p.stdout.decode("utf-8").rstrip("\n")

    def ask_hits(self, leanqs):
        from vcheck import parse_sexp
        out = self.ask1("c01 hits %s %s (%s)" % (self.modestr, self.idx, " ".join(leanqs)))
        if out == "bad-op":
            raise RuntimeError("driver rejected hits request (seed %s)" % self.seed)
        res = [[(int(h[0]), parse_rat(h[1])) for h in hits] for hits in parse_sexp(out)[0]]
        if self.final:
            # the weighting's final(searcher, global docnum, score) hook, applied by the collector
            keys = [k for ks, _ in self.layout for k in ks]
            res = [[(d, final_expected(keys[d], sc)) for d, sc in hits] for hits in res]
        return res

    def ask_compile(self, leanqs, nc, scored):
        from vcheck import parse_sexp
        out = self.ask1("c01 compile %s %d %d %s (%s)" % (self.modestr, nc, scored, self.idx, " ".join(leanqs)))
        if out == "bad-op":
            raise RuntimeError("driver rejected compile request (seed %s)" % self.seed)
        return [[[(int(h[0]), parse_rat(h[1])) for h in seg] for seg in perq] for perq in parse_sexp(out)[0]]

    def ask_cursor(self, leanqs, nc, scored, prog):
        """per query, per segment: list of (id, score) | "notimpl" | ("err", kind)"""
        from vcheck import parse_sexp
        out = self.ask1("c01 cursor %s %d %d %s (%s) %s" % (self.modestr, nc, scored, self.idx, " ".join(leanqs),
                                                            program_sexp(prog)))
        if out == "bad-op":
            raise RuntimeError("driver rejected cursor request (seed %s)" % self.seed)
        res = []
        for perq in parse_sexp(out)[0]:
            row = []
            for seg in perq:
                if seg == "notimpl":
                    row.append("notimpl")
                elif seg and seg[0] == "err":
                    row.append(("err", seg[1]))
                else:
                    row.append([(int(h[0]), parse_rat(h[1])) for h in seg])
            res.append(row)
        return res

    def lean(self, q):
        try:
            return q_to_lean(self.enc, self.case, q)
        except Unmodelled:
            return None

    # --- comparison of one query on one path; returns None (fine) or a failure dict
    def compare(self, path, exp, obs, scores):
        from fractions import Fraction
        expdocs = [d for d, _ in exp]
        if "exc" in obs:
            return {"kind": "exc", "obs": obs["exc"]}
        if "skips" in obs:
            import bisect
            if expdocs and (not obs["visited"] or obs["visited"][0] != expdocs[0]):
                return {"kind": "skip", "obs": ["first", obs["visited"][:1]]}
            if not expdocs and obs["visited"]:
                return {"kind": "skip", "obs": ["first", obs["visited"][:1]]}
            bad = []
            for target, got in obs["skips"]:
                i = bisect.bisect_left(expdocs, target)
                want = expdocs[i] if i < len(expdocs) else None
                if got != want:
                    bad.append([target, got, want])
            if bad:
                return {"kind": "skip", "obs": bad[:6]}
            return None
        if path_class(path) == "limit=k":
            k = int(path.split("=")[1])
            if not set(obs["docs"]) <= set(expdocs) or len(obs["docs"]) != min(k, len(expdocs)):
                return {"kind": "docs", "obs": obs["docs"]}
            if obs["len"] != len(expdocs):
                return {"kind": "len", "obs": obs["len"]}
            if scores and "scores" in obs:
                # the score of a hit does not depend on the collector: a hit of a top-k search carries
                # scoreOf of its document, as under limit=None
                bad = self.bad_scores(exp, obs)
                if bad:
                    return {"kind": "score", "obs": bad}
            return None
        if obs["docs"] != expdocs:
            return {"kind": "docs", "obs": obs["docs"]}
        if "len" in obs and obs["len"] != len(expdocs):
            return {"kind": "len", "obs": obs["len"]}
        if scores and "scores" in obs:
            bad = self.bad_scores(exp, obs)
            if bad:
                return {"kind": "score", "obs": bad}
        return None

    def bad_scores(self, exp, obs):
        from fractions import Fraction
        em = dict(exp)
        bad = {}
        for d, sc in obs["scores"].items():
            o = Fraction(sc[0], sc[1])
            e = em[int(d)]
            if self.mode == "freq":
                ok = o == e
            else:
                ok = abs(o - e) <= Fraction(1, 10**9) * max(1, abs(e))
            if not ok:
                bad[int(d)] = [str(o), str(e)]
        return bad

    def check_query(self, s, q, paths, scores, limits=(1, 3, 10), exp=None):
        """-> (expected hits, {path: failure})  or None when unmodelled"""
        if exp is None:
            lq = self.lean(q)
            if lq is None:
                return None
            exp = self.ask_hits([lq])[0]
        wq = q_to_whoosh(self.case, q)
        obs = run_paths(s, wq, limits=limits, paths=paths)
        fails = {}
        for p, o in obs.items():
            f = self.compare(p, exp, o, scores)
            if f:
                fails[p] = dict(f, full=o)
        return exp, fails

    def first_failing(self, s, cands, path, scores, f):
        """first candidate query that fails on `path` the way `f` does"""
        lqs = [(c, self.lean(c)) for c in cands]
        lqs = [(c, l) for c, l in lqs if l is not None]
        if not lqs:
            return None
        exps = self.ask_hits([l for _, l in lqs])
        for (c, _), exp in zip(lqs, exps):
            r = self.check_query(s, c, [path], scores, exp=exp)
            if path in r[1] and r[1][path]["kind"] == f["kind"] and \
                    (f["kind"] != "exc" or r[1][path]["obs"] == f["obs"]):
                return c
        return None

    # --- classification --------------------------------------------------------------------
    # Every defect of other families that used to be explained here (AndNot / Inverse leaks,
    # DisjunctionMax score, replace(0), block-quality skipping, numeric ranges, collector counts) is
    # repaired in the tree; their predicates are gone so that a regression is reported as a
    # violation with a minimised replay.  One genuine finding (C19) is left.
    def nodes(self, q):
        yield q
        for sq in subqueries(q):
            for n in self.nodes(sq):
                yield n

    def fuzzy_differs_on_top_reader(self, s, n):
        """Does this bare FuzzyTerm, expanded through the multi-segment reader (Query.docs on the top
        searcher), return documents the per-segment expansion does not, or vice versa — while the
        per-segment path agrees with the specification?"""
        key = "fz" + json_dumps(n)
        if key not in self._nr:
            r = self.check_query(s, n, ["q.docs", "docs_for_query"], False)
            self._nr[key] = bool(r) and "q.docs" in r[1] and "docs_for_query" not in r[1] and \
                r[1]["q.docs"]["kind"] == "docs"
        return self._nr[key]

    def blame(self, s, q, path, fail):
        """known defect that explains a failure of q on path, or None"""
        if fail["kind"] == "exc":
            return "raises:%s" % fail["obs"]
        if path == "limit=None" and fail["kind"] in ("docs", "score") and getattr(self, "nonpositive_leaf", False) \
                and fail.get("full") and "scores" in fail["full"]:
            # A weighting with non-positive term scores (ReverseWeighting, PL2, DFree): the array union
            # that a scored, needs_current=False context picks for >= 3 clauses keeps a document only
            # if its accumulated score is > 0.  The list model mirrors that rule (arrayParts): blame
            # it only when the model's enumeration is exactly what the search returned.
            from fractions import Fraction
            lq = self.lean(q)
            if lq is not None:
                model, off = {}, 0
                for (ks, _d), seg in zip(self.layout, self.ask_compile([lq], 0, 1)[0]):
                    for d, sc in seg:
                        model[d + off] = sc
                    off += len(ks)
                observed = {int(d): Fraction(sc[0], sc[1]) for d, sc in fail["full"]["scores"].items()}
                if sorted(model) == sorted(observed) and \
                        all(abs(model[d] - observed[d]) <= Fraction(1, 10**9) * max(1, abs(model[d])) for d in model):
                    return "ArrayUnionMatcher:document-with-non-positive-accumulated-score-is-dropped"
            # ConstantScoreQuery / constant-score multi-term queries read the array union through
            # all_ids(), which also tests the first document of a part (the stepping model does not):
            # accept when an array-union candidate is present and the needs_current=True path, which
            # never uses the array union for scoring, is right for the very same query
            cand = any((n[0] == "or" and len(n[1]) >= 3) or n[0] in ("prefix", "wild", "regex", "trange", "fuzzy", "nrange", "drange")
                       for n in self.nodes(q))
            if cand:
                r = self.check_query(s, q, ["terms=True"], True)
                if r and not r[1]:
                    return "ArrayUnionMatcher:document-with-non-positive-accumulated-score-is-dropped"
        sig = self.blame_empty_term(q, path, fail)
        if sig:
            return sig
        if path_class(path) in ("q.docs", "q.matcher") and fail["kind"] in ("docs", "skip") and len(self.layout) > 1:
            fz = [n for n in self.nodes(q) if n[0] == "fuzzy"]
            if fz and any(self.fuzzy_differs_on_top_reader(s, n) for n in fz):
                # ... and the query itself is right on the per-segment path
                r = self.check_query(s, q, ["docs_for_query"], False)
                if r and not r[1]:
                    # MultiReader.terms_within measures Damerau-Levenshtein (a transposition counts 1),
                    # the per-segment automaton plain Levenshtein: the expansion differs
                    return ("FuzzyTerm:terms_within-of-a-multi-segment-reader-counts-transpositions-"
                            "the-per-segment-automaton-does-not")
        return None

    def blame_empty_term(self, q, path, fail):
        """`MultiTerm.matcher` skipped the empty term (an ID field whose value is "" indexes it):
        repaired by r2-search 9ad90ad, which the list model mirrors.  On a tree without the repair the
        observation is explained exactly when it is what the specification gives for the same index
        with the empty term removed from the fields the query expands — and the query reaches the
        empty term in no other way (Term(f, ""), Every(f), Prefix(f, ""), Wildcard(f, "*"))."""
        multi = ("prefix", "wild", "regex", "trange", "fuzzy")
        nodes = list(self.nodes(q))
        fields = set(n[1] for n in nodes if n[0] in multi)
        if not fields or fail["kind"] == "exc":
            return None
        if path == "matcher":
            if fail["kind"] != "docs":
                return None
        elif "full" not in fail or "exc" in fail["full"]:
            return None
        spec = self.case["schema"]

        def has_empty(d, f):
            if f not in d:
                return False
            k = spec[f]["kind"]
            if k == "id":
                return d[f] == ""
            if k == "keyword":
                return "" in d[f]
            if k in TEXTY:
                return any(t[0] == "" for t in d[f])
            return False
        fields = set(f for f in fields if f in spec and any(has_empty(d, f) for d in self.case["docs"].values()))
        if not fields:
            return None
        for n in nodes:
            if (n[0] == "term" and n[1] in fields and n[2] == "") or (n[0] == "every" and n[1] in fields | {None}) \
                    or (n[0] == "prefix" and n[1] in fields and n[2] == "") \
                    or (n[0] == "wild" and n[1] in fields and n[2] == "*") \
                    or (n[0] == "regex" and n[1] in fields):
                return None
        docs = {}
        for key, d in self.case["docs"].items():
            d2 = {}
            for f, v in d.items():
                if f in fields and has_empty(d, f):
                    k = spec[f]["kind"]
                    if k == "id":
                        continue
                    v = [x for x in v if (x if k == "keyword" else x[0]) != ""]
                d2[f] = v
            docs[key] = d2
        lq = self.lean(q)
        if lq is None or self.mode == "table":
            return None
        saved = self.idx
        try:
            self.idx = lean_index(self.enc, dict(self.case, docs=docs), self.layout, None)
            if path == "matcher":
                mseg = self.ask_compile([lq], fail["nc"], 1)[0][fail["seg"]]
                exp = None
            else:
                exp = self.ask_hits([lq])[0]
        finally:
            self.idx = saved
        if path == "matcher":
            if [d for d, _ in mseg] == fail["obs"]:
                return "MultiTerm.matcher:empty-term-is-skipped-by-the-expansion"
            return None
        if self.compare(path, exp, fail["full"], self.opts.get("scores", False)) is None:
            return "MultiTerm.matcher:empty-term-is-skipped-by-the-expansion"
        return None

    def classify(self, q, path, fail):
        """generic signature of an unexplained failure"""
        pc = path_class(path)
        return "%s:wrong-%s:%s" % (pc, fail["kind"], q[0] if q else "?")

    # --- the whole case
    def run(self):
        import random
        private_tmp(self.opts.get("scratch"))
        if self.case is None:
            rng = random.Random(self.seed)
            self.case = gen_case(rng, ndocs=self.opts.get("ndocs"), nq=self.opts.get("nq", 8),
                                 maxdepth=self.opts.get("maxdepth", 5), longdocs=self.opts.get("longdocs", False),
                                 nseg=self.opts.get("nseg"), nodeletes=self.opts.get("nodeletes", False),
                                 vocab_n=self.opts.get("vocab_n"), sparse_or=self.opts.get("sparse_or", 0),
                                 plant=self.opts.get("plant", 0.0), weakopt=self.opts.get("weakopt", False),
                                 nomerge=self.opts.get("nomerge", False), noprefix=self.opts.get("noprefix", 0))
        case = self.case
        if self.opts.get("queries") is not None:
            case = dict(case, queries=self.opts["queries"])
            self.case = case
        res = {"seed": self.seed, "failures": [], "stats": {}, "ncases": 0, "keys": [],
               "opts": {k: v for k, v in self.opts.items() if k not in ("scratch", "queries")}}
        st = res["stats"]

        def stat(k, n=1):
            st[k] = st.get(k, 0) + n
        wspec = self.opts.get("weighting") or ("freq",)
        weighting = make_weighting(wspec)
        hist = case["history"]
        # history "refresh": a searcher is opened after the first commits and answers every query
        # (scored, so that its statistics caches are warm); then the remaining commits change the
        # index and the searcher under test is old.refresh() instead of a new ix.searcher()
        cut = 0
        if self.opts.get("refresh") and len(hist) > 1:
            cut = max(1, len(hist) - random.Random(self.seed + ":refresh").choice([1, 1, 2]))
        old = None
        try:
            ix = build_index(case, commits=hist[:cut] if cut else None)
            if cut:
                old = ix.searcher(weighting=weighting)
                for q in case["queries"]:
                    try:
                        with_watchdog(lambda: [h.score for h in old.search(q_to_whoosh(case, q), limit=None)], 5.0)
                    except Exception:  # noqa   (the refreshed searcher is the one under test)
                        pass
                build_index(case, ix=ix, commits=hist[cut:])
                stat("history:refresh")
        except Exception as e:  # noqa
            res["failures"].append({"sig": "build:raises:" + exc_sig(e), "q": None, "path": "build",
                                    "exp": "index builds", "obs": exc_sig(e)})
            return res
        self.enc = Enc(case["schema"])
        scores = self.opts.get("scores", False)
        with (old.refresh() if old is not None else ix.searcher(weighting=weighting)) as s:
            if old is not None:
                stat("history:refresh:new-searcher" if s is not old else "history:refresh:same-searcher")
            self.layout = read_layout(s)
            tables = None
            if self.mode == "lean":
                self.modestr = lean_model_mode(self, wspec)
            if self.mode == "table":
                tables = ref_leaf_tables(self, s, wspec)
                # the statistics the reference used vs. what the index reports (C06's business, but a
                # mismatch would make every score comparison meaningless)
                for f, allowed, real in self.ref_stats["bad"]:
                    res["failures"].append({"sig": "stats:field_length-differs-from-corpus-model", "q": None,
                                            "path": "stats:" + f, "exp": allowed, "obs": real,
                                            "kind": "stats", "layout": [[len(k), d] for k, d in self.layout]})
                    stat("stats-mismatch")
            self.idx = lean_index(self.enc, case, self.layout, tables)
            stat("segments:%d" % len(self.layout))
            stat("with-deletions" if any(d for _, d in self.layout) else "no-deletions")
            nlive = s.doc_count()
            qs = [(q, self.lean(q)) for q in case["queries"]]
            modelled = [(q, lq) for q, lq in qs if lq is not None]
            stat("query:unmodelled", len(qs) - len(modelled))
            if not modelled:
                return res
            exps = self.ask_hits([lq for _, lq in modelled])
            if self.opts.get("hyp"):
                wf = self.ask1("c01 wf %s (%s)" % (self.idx, " ".join(lq for _, lq in modelled)))
                flags = wf.strip("()").split()
                stat("hyp:index-ok" if flags[0] == "1" else "hyp:index-not-ok")
                stat("hyp:query-positive", sum(1 for x in flags[1:] if x == "1"))
                stat("hyp:query-nonpositive", sum(1 for x in flags[1:] if x != "1"))
            shrinks = 0
            for (q, lq), exp in zip(modelled, exps):
                kinds = set(node_kinds(q))
                for kd in kinds:
                    stat("node:" + kd)
                try:
                    wq = q_to_whoosh(case, q)
                except Exception as e:  # noqa
                    res["failures"].append({"sig": "construct:raises:" + exc_sig(e), "q": q, "path": "construct",
                                            "exp": "query constructs", "obs": exc_sig(e)})
                    continue
                obs = run_paths(s, wq, limits=self.opts.get("limits", (1, 3, 10)), paths=self.opts.get("paths"))
                nontrivial = 0 < len(exp) < nlive or (len(self.layout) > 1 and len(kinds) > 1)
                for path, o in sorted(obs.items()):
                    res["ncases"] += 1
                    if nontrivial:
                        res["keys"].append((self.seed, json_dumps(q), path))
                    stat("path:" + path)
                    if "exc" not in o and path_class(path) == "limit=k":
                        stat("limit=k:truncated" if len(o["docs"]) < len(exp) else "limit=k:all")
                    f = self.compare(path, exp, o, scores)
                    if not f:
                        continue
                    f = dict(f, full=o)
                    # explain by a known defect, else minimise and try again, else generic signature
                    f = dict(f, explen=len(exp))
                    m, exp_m, f_m = q, exp, f
                    sig = self.blame(s, q, path, f)
                    if sig is None and shrinks < self.opts.get("max_shrinks", 10):
                        shrinks += 1
                        stat("shrinks")
                        m = shrink(q, lambda cands, path=path, f=f: self.first_failing(s, cands, path, scores, f))
                        r = self.check_query(s, m, [path], scores)
                        if r and path in r[1]:
                            exp_m, f_m = r[0], dict(r[1][path], explen=len(r[0]))
                        else:   # not reproducible in isolation
                            m = q
                        sig = self.blame(s, m, path, f_m)
                    if sig is None:
                        sig = self.classify(m, path, f_m)
                    f_m = {k: v for k, v in f_m.items() if k != "full"}
                    res["failures"].append({"sig": sig, "q": m, "orig": q, "path": path, "kind": f_m["kind"],
                                            "exp": [[d, str(sc)] for d, sc in exp_m][:40], "obs": f_m["obs"],
                                            "layout": [[len(k), d] for k, d in self.layout]})
            if self.opts.get("corr"):
                self.correspondence(s, modelled, res, stat)
            if self.opts.get("malformed", True):
                self.malformed(s, res, stat)
        return res

    # --- malformed stream: a phrase over a field without positions is rejected with QueryError on
    # every path (documented in Phrase.matcher), never answered
    def malformed(self, s, res, stat):
        from whoosh import query as Q
        nopos = [n for n, o in self.case["schema"].items() if o["kind"] in ("keyword", "id") and n != "i"]
        if not nopos:
            return
        f = sorted(nopos)[0]
        wq = Q.Or([Q.Term("i", "k000"), Q.Phrase(f, ["a", "b"])])
        for path, o in sorted(run_paths(s, wq, limits=(1,), paths=self.opts.get("paths")).items()):
            res["ncases"] += 1
            stat("malformed:phrase-without-positions")
            got = o.get("exc", "returned %s" % (o.get("docs"),))
            if not got.startswith("QueryError@"):
                res["failures"].append({"sig": "Phrase-on-field-without-positions:not-rejected-with-QueryError",
                                        "q": ["phrase", f, ["a", "b"], 1, 1.0], "path": path, "kind": "exc",
                                        "exp": "QueryError", "obs": got,
                                        "layout": [[len(k), d] for k, d in self.layout]})

    # --- model <-> implementation: step the real matcher of every segment, compare with `compile`
    def correspondence(self, s, modelled, res, stat):
        from fractions import Fraction
        scores = self.opts.get("scores", False)
        if self.opts.get("cursor", True):
            self.top_stream(s, modelled, res, stat)
        for nc in self.opts.get("corr_nc", (0, 1)):
            ctx = s.context(needs_current=bool(nc))
            if self.opts.get("cursor", True):
                self.cursor_stream(s, modelled, nc, ctx, res, stat)
            model = self.ask_compile([lq for _, lq in modelled], nc, 1)
            for (q, lq), perseg in zip(modelled, model):
                wq = q_to_whoosh(self.case, q)
                for si, ((ss, _off), mseg) in enumerate(zip(s.leaf_searchers(), perseg)):
                    res["ncases"] += 1
                    stat("corr:nc=%d" % nc)
                    try:
                        real = with_watchdog(lambda: step_matcher(wq.matcher(ss, ctx)), 30.0)
                        fail = None
                    except Exception as e:  # noqa
                        fail = {"kind": "exc", "obs": exc_sig(e)}
                        real = None
                    if real is not None:
                        rids = [d for d, _ in real]
                        mids = [d for d, _ in mseg]
                        if rids != mids:
                            fail = {"kind": "docs", "obs": rids}
                        elif scores:
                            bad = {}
                            for (d, sc), (_, e) in zip(real, mseg):
                                o = Fraction(*float(sc).as_integer_ratio())
                                ok = (o == e) if self.mode == "freq" else \
                                    abs(o - e) <= Fraction(1, 10**9) * max(1, abs(e))
                                if not ok:
                                    bad[d] = [str(o), str(e)]
                            if bad:
                                fail = {"kind": "score", "obs": bad}
                    if fail:
                        sig = self.blame(s, q, "matcher", dict(fail, explen=len(mseg), seg=si, nc=nc)) or \
                            self.classify(q, "matcher", fail)
                        res["failures"].append({"sig": sig, "q": q, "path": "matcher:nc=%d:seg=%d" % (nc, si),
                                                "kind": fail["kind"], "corr": True,
                                                "exp": [[d, str(sc)] for d, sc in mseg][:40], "obs": fail["obs"],
                                                "layout": [[len(k), d] for k, d in self.layout]})


def _cursor_stream(self, s, modelled, nc, ctx, res, stat):
    """model <-> implementation, cursor level: the tree `WM.Compile.build` constructs (the matcher
    family's cursor model: ListMatcher leaves, binary matchers, wrappers, inverse, scored array union)
    is stepped by the driver with a generated program of next / skip_to / replace calls, the real
    `q.matcher(segment searcher, context)` with the same program; what id()/score() read before each
    call must agree.  Queries outside the model's vocabulary answer `notimpl` (counted)."""
    import random
    from fractions import Fraction
    scores = self.opts.get("scores", False)
    progs = [gen_program(random.Random("%s:prog:%d" % (self.seed, nc)))]
    try:   # the part size of the running code (a tuning constant: read, not assumed)
        import inspect
        from whoosh.matching.combo import ArrayUnionMatcher
        psz = int(inspect.signature(ArrayUnionMatcher.__init__).parameters["partsize"].default)
    except Exception:  # noqa
        psz = 2048
    if any(len(ks) > psz for ks, _ in self.layout):
        # segments beyond one part of the array union: a second program whose skip_to() calls cross part
        # boundaries (to the last cell of a part, its end, beyond it) whatever the generated one does
        progs.append(["n", ("s", psz), "n", ("s", psz // 3), ("s", psz - 1), ("s", psz + 1)][nc:] + ["n"])
    # numeric / date ranges: the cursor model runs the query _compile_query returns (C01.numeric_range_compiled)
    reader = s.reader()
    withnum = []
    for q, lq in modelled:
        if set(node_kinds(q)) & {"nrange", "drange"}:
            try:
                lq = q_to_lean(self.enc, self.case, q, numeric=reader)
                stat("cursor:numeric-range-compiled")
            except Unmodelled:
                stat("cursor:numeric-range-not-compiled")
        withnum.append((q, lq))
    modelled = withnum
    for prog in progs:
        model = self.ask_cursor([lq for _, lq in modelled], nc, 1, prog)
        for o in prog:
            stat("cursor:op:" + (o if isinstance(o, str) else "skip_to"))
        for (q, lq), perseg in zip(modelled, model):
            wq = q_to_whoosh(self.case, q)
            for si, ((ss, _off), mseg) in enumerate(zip(s.leaf_searchers(), perseg)):
                if mseg == "notimpl":
                    kinds = set(node_kinds(q))
                    why = "phrase" if "phrase" in kinds else "numeric-range" if kinds & {"nrange", "drange"} else \
                        "unscored-or-mixed-array-union"
                    stat("cursor:notimpl:" + why)
                    continue
                res["ncases"] += 1
                stat("cursor:nc=%d" % nc)
                for kd in set(node_kinds(q)) & {"prefix", "wild", "regex", "trange", "fuzzy", "every"}:
                    stat("cursor:node:" + kd)
                fail = None
                if isinstance(mseg, tuple):
                    fail = {"kind": "model-raises", "obs": "model: " + str(mseg[1])}
                    mseg = []
                else:
                    try:
                        real = with_watchdog(lambda: step_program(wq.matcher(ss, ctx), prog), 30.0)
                    except Exception as e:  # noqa
                        real = None
                        fail = {"kind": "exc", "obs": exc_sig(e)}
                    if real is not None:
                        if [d for d, _ in real] != [d for d, _ in mseg]:
                            fail = {"kind": "docs", "obs": [d for d, _ in real][:60]}
                        elif scores:
                            bad = {}
                            for (d, sc), (_, e) in zip(real, mseg):
                                o = Fraction(*float(sc).as_integer_ratio())
                                ok = (o == e) if self.mode == "freq" else \
                                    abs(o - e) <= Fraction(1, 10**9) * max(1, abs(e))
                                if not ok:
                                    bad[d] = [str(o), str(e)]
                            if bad:
                                fail = {"kind": "score", "obs": bad}
                if fail:
                    if fail["kind"] == "exc":
                        sig = "matcher-program:raises:%s" % fail["obs"]
                    else:
                        sig = "matcher:wrong-%s:%s" % (fail["kind"], q[0])
                    res["failures"].append({"sig": sig, "q": q, "corr": True,
                                            "path": "matcher:cursor:nc=%d:seg=%d:prog=%s" % (nc, si, program_sexp(prog)),
                                            "kind": fail["kind"], "exp": [[d, str(sc)] for d, sc in mseg][:40],
                                            "obs": fail["obs"], "layout": [[len(k), d] for k, d in self.layout]})


def _top_stream(self, s, modelled, res, stat):
    """model <-> implementation on the TOP searcher (C01.term_top): the cursor `WM.Compile.topTerm` builds
    for a term - `MultiMatcher` over the segments' posting readers with their document offsets, under the
    boost wrapper - is stepped by the driver with a generated next / skip_to / replace program, the real
    `Term.matcher(top searcher, context)` with the same program; what id()/score() read before each
    call must agree.  Terms = the distinct term leaves of the case's queries (at most 10)."""
    import random
    from fractions import Fraction
    from vcheck import parse_sexp
    scores = self.opts.get("scores", False)
    terms, seen = [], set()
    for q, _ in modelled:
        for n in self.nodes(q):
            if n[0] == "term" and json_dumps(n) not in seen:
                seen.add(json_dumps(n))
                lq = self.lean(n)
                if lq is not None:
                    terms.append((n, lq))
    terms = terms[:10]
    if not terms:
        return
    rng = random.Random("%s:topprog" % self.seed)
    prog = gen_program(rng)
    if not any(isinstance(o, tuple) for o in prog):
        prog.append(("s", rng.choice([2, 3, 5, 8])))
    out = self.ask1("c01 topcursor %s %s (%s) %s" % (self.modestr, self.idx, " ".join(l for _, l in terms),
                                                     program_sexp(prog)))
    if out == "bad-op":
        raise RuntimeError("driver rejected topcursor request (seed %s)" % self.seed)
    ctx = s.context()
    for (q, _), tr in zip(terms, parse_sexp(out)[0]):
        if tr == "notimpl":
            continue
        res["ncases"] += 1
        stat("top:term:segments=%d" % min(len(self.layout), 3))
        fail = None
        if tr and tr[0] == "err":
            fail = {"kind": "model-raises", "obs": "model: " + str(tr[1])}
            mtr = []
        else:
            mtr = [(int(h[0]), parse_rat(h[1])) for h in tr]
            wq = q_to_whoosh(self.case, q)
            try:
                real = with_watchdog(lambda: step_program(wq.matcher(s, ctx), prog), 30.0)
            except Exception as e:  # noqa
                real = None
                fail = {"kind": "exc", "obs": exc_sig(e)}
            if real is not None:
                if [d for d, _ in real] != [d for d, _ in mtr]:
                    fail = {"kind": "docs", "obs": [d for d, _ in real][:60]}
                elif scores:
                    bad = {}
                    for (d, sc), (_, e) in zip(real, mtr):
                        o = Fraction(*float(sc).as_integer_ratio())
                        ok = (o == e) if self.mode == "freq" else abs(o - e) <= Fraction(1, 10**9) * max(1, abs(e))
                        if not ok:
                            bad[d] = [str(o), str(e)]
                    if bad:
                        fail = {"kind": "score", "obs": bad}
        if fail:
            sig = "matcher-program:raises:%s" % fail["obs"] if fail["kind"] == "exc" else \
                "matcher:wrong-%s:top-term" % fail["kind"]
            res["failures"].append({"sig": sig, "q": q, "corr": True,
                                    "path": "matcher:top:prog=%s" % program_sexp(prog), "kind": fail["kind"],
                                    "exp": [[d, str(sc)] for d, sc in mtr][:40], "obs": fail["obs"],
                                    "layout": [[len(k), d] for k, d in self.layout]})


CaseRun.cursor_stream = _cursor_stream
CaseRun.top_stream = _top_stream


def work(arg):
    """top-level worker for ctx.pmap"""
    seedstr, opts = arg
    case = opts.get("explicit_case")
    try:
        res = CaseRun(seedstr, {k: v for k, v in opts.items() if k != "explicit_case"}, case=case).run()
    except ModelTimeout:
        res = {"seed": seedstr, "failures": [], "stats": {"case-skipped:model-timeout": 1}, "ncases": 0, "keys": [],
               "opts": {}}
    if case is not None:
        res["explicit"] = case
    return res


# ------------------------------------------------------------------------------------------------
# weighting models: construction from a picklable spec, and the reference leaf-score table
# (the documented formula evaluated from statistics re-derived from the corpus model)

from whoosh import scoring as _scoring   # noqa


class FinalFrequency(_scoring.Frequency):
    """Frequency plus a final() hook that looks at the document (its stored key): the collector must
    hand final() the *global* document number together with the top-level searcher."""
    use_final = True

    def final(self, searcher, docnum, score):
        key = searcher.stored_fields(docnum)["i"]
        return score * 0.5 + int(key[1:]) * 0.25


def final_expected(key, score):
    from fractions import Fraction
    return score * Fraction(1, 2) + Fraction(int(key[1:]), 4)


def function_score(searcher, fieldname, text, matcher):
    """FunctionWeighting: a function of the posting only"""
    return matcher.weight() * 2.0 + 1.0


def make_weighting(wspec):
    from whoosh import scoring
    k = wspec[0]
    if k == "freq":
        return scoring.Frequency()
    if k == "final":
        return FinalFrequency()
    if k == "function":
        return scoring.FunctionWeighting(function_score)
    if k == "pl2":
        return scoring.PL2(c=wspec[1])
    if k == "dfree":
        return scoring.DFree()
    if k == "reverse":
        return scoring.ReverseWeighting(make_weighting(wspec[1]))
    if k == "bm25f":
        return scoring.BM25F(B=wspec[1], K1=wspec[2], **{"%s_B" % f: b for f, b in wspec[3].items()})
    if k == "tfidf":
        return scoring.TF_IDF()
    if k == "multi":
        return scoring.MultiWeighting(make_weighting(wspec[1]),
                                      **{f: make_weighting(w) for f, w in wspec[2].items()})
    raise ValueError(k)


def lean_model_mode(run, wspec):
    """MODE expression that makes the driver score with the *Lean* TF_IDF / BM25F leaf models over
    the Lean collection statistics (WM.Search.tfidfLeaf / bm25fLeaf / termStats); only the idf
    values, a logarithm, are computed here — from the document count and every possible document
    frequency of the layout"""
    import math
    N = sum(len(ks) for ks, _ in run.layout)
    rows = " ".join("(%d %d %s)" % (N, df, rat(math.log(N / (df + 1)) + 1)) for df in range(0, N + 1)) if N else ""
    if wspec[0] == "tfidf":
        return "(tfidf (%s))" % rows
    if wspec[0] == "bm25f":
        spec = run.case["schema"]
        fields = " ".join("(%s %s %d)" % (f, rat(wspec[3].get(f, wspec[1])), 1 if field_scorable(o) else 0)
                          for f, o in sorted(spec.items()))
        return "(bm25f %s (%s) %s (%s))" % (rat(wspec[2]), fields, rat(wspec[1]), rows)
    raise ValueError(wspec)


def field_scorable(o):
    k = o["kind"]
    if k in TEXTY:
        return True
    if k == "keyword":
        return bool(o.get("scorable", False))
    return False


def f32(x):
    import struct
    return struct.unpack("<f", struct.pack("<f", x))[0]


def ref_leaf_tables(run, searcher, wspec):
    """{key: {(field, termbytes): score}} — reference leaf scores of every posting of the model
    index, from statistics derived from the corpus model and the layout (not from the index)."""
    import math
    from whoosh.util.numeric import length_to_byte, byte_to_length
    case, enc, layout = run.case, run.enc, run.layout
    spec = case["schema"]
    keys = [k for ks, _ in layout for k in ks]
    N = len(keys)
    # per document postings
    posts = {}
    for key in keys:
        doc = case["docs"][key]
        per = {}
        for f in doc:
            if f.startswith("_"):
                continue
            toks, _ = enc.tokens(f, doc[f])
            fb = enc.fboost(f, doc)
            w, cnt = {}, {}
            for t, _p, b in toks:
                w[t] = w.get(t, 0.0) + b
                cnt[t] = cnt.get(t, 0) + 1
            if existence(spec[f]["kind"]):
                w = {t: 1.0 for t in w}
                cnt = {t: 1 for t in w}
            per[f] = ({t: f32(x * fb) for t, x in w.items()}, sum(cnt.values()))
        posts[key] = per
    df, flen_exact, flen_quant, flen_mixed = {}, {}, {}, {}
    cf = {}     # collection frequency: sum of the stored weights of a term (deleted documents included)
    srccommit = {}
    for ci, c in enumerate(case["history"]):
        for k in c.get("add", []):
            srccommit[k] = ci
    for ks, _dele in layout:
        newest = max(srccommit[k] for k in ks) if ks else None
        for key in ks:
            for f, (ws, length) in posts[key].items():
                for t in ws:
                    df[(f, t)] = df.get((f, t), 0) + 1
                    cf[(f, t)] = cf.get((f, t), 0.0) + ws[t]
                if field_scorable(spec[f]):
                    q = byte_to_length(length_to_byte(length))
                    flen_exact[f] = flen_exact.get(f, 0) + length
                    flen_quant[f] = flen_quant.get(f, 0) + q
                    # the commit that wrote the segment adds its own documents with their true
                    # length and the documents it merges in with the approximated one
                    flen_mixed[f] = flen_mixed.get(f, 0) + (length if srccommit[key] == newest else q)
    # Total field length: the sum of the true lengths; a merge re-adds documents with their
    # length-byte approximation (and a tree that always accumulates the approximation is equally
    # acceptable here: layout independence of the statistics is C06's property).  The index's own
    # total is used as the statistic when it is one of these sums, otherwise it is reported.
    flen, bad_stats = {}, []
    for f in set(flen_exact) | set(n for n, o in spec.items() if field_scorable(o)):
        real = searcher.field_length(f)
        allowed = {flen_exact.get(f, 0), flen_quant.get(f, 0), flen_mixed.get(f, 0)}
        if real not in allowed:
            bad_stats.append((f, sorted(allowed), real))
        flen[f] = real
    run.ref_stats = {"N": N, "bad": bad_stats}

    def leaf(ws, f, t, tf, length):
        k = ws[0]
        if k in ("freq", "final"):
            return tf
        if k == "function":
            return tf * 2.0 + 1.0
        if k == "reverse":
            return 0 - leaf(ws[1], f, t, tf, length)
        if k in ("pl2", "dfree"):
            if not field_scorable(spec[f]):
                return tf
            fl = byte_to_length(length_to_byte(length))
            if k == "pl2":
                avgfl = (flen.get(f, 0) / (N or 1)) or 1
                TF = tf * math.log(1.0 + (ws[1] * avgfl) / fl)
                ff = cf[(f, t)] / N
                return (1.0 / (TF + 1.0)) * (TF * math.log(1.0 / ff) + ff * (1.0 / math.log(2))
                                             + 0.5 * math.log(2 * math.pi * TF)
                                             + TF * (math.log(TF) - 1.0 / math.log(2)))
            prior = tf / fl
            post = (tf + 1.0) / (fl + 1.0)
            inv = flen.get(f, 0) / cf[(f, t)]
            return tf * math.log(post / prior) * (tf * math.log(prior * inv) + (tf + 1.0) * math.log(post * inv)
                                                  + 0.5 * math.log(post / prior))
        if k == "multi":
            return leaf(ws[2].get(f, ws[1]), f, t, tf, length)
        idf = math.log(N / (df[(f, t)] + 1)) + 1
        if k == "tfidf":
            return tf * idf
        if k == "bm25f":
            if not field_scorable(spec[f]):
                return tf
            B = ws[3].get(f, ws[1])
            K1 = ws[2]
            avgfl = (flen.get(f, 0) / (N or 1)) or 1
            fl = byte_to_length(length_to_byte(length))
            return idf * ((tf * (K1 + 1)) / (tf + K1 * ((1 - B) + B * fl / avgfl)))
        raise ValueError(k)
    tables = {}
    run.nonpositive_leaf = False
    for key in keys:
        tbl = {}
        for f, (ws, length) in posts[key].items():
            for t, tf in ws.items():
                tbl[(f, t)] = leaf(wspec, f, t, tf, length)
                if tbl[(f, t)] <= 0:
                    run.nonpositive_leaf = True
        tables[key] = tbl
    return tables


# ------------------------------------------------------------------------------------------------
# C09.layout end-to-end: without deletions the same documents score the same in every segment layout

def layout_work(arg):
    """Index the documents of one generated case (no deletions) under two different commit
    partitions / merge settings and compare collection statistics and the scores of every term
    of the text fields, per document key."""
    import random
    seedstr, opts = arg
    private_tmp(opts.get("scratch"))
    rng = random.Random(seedstr)
    case = gen_case(rng, ndocs=opts.get("ndocs"), nq=1, longdocs=True, nodeletes=True)
    wspec = tuple(opts.get("weighting") or ("bm25f", 0.75, 1.2, {}))
    keys = sorted(case["docs"])
    res = {"seed": seedstr, "failures": [], "stats": {}, "ncases": 0, "keys": [], "opts": {}}
    # second layout: another partition of the same key order, other block sizes, merges
    cuts = sorted(rng.sample(range(1, len(keys)), min(rng.choice([0, 1, 2, 4]), max(0, len(keys) - 1)))) \
        if len(keys) > 1 else []
    hist2, prev = [], 0
    for c in cuts + [len(keys)]:
        hist2.append({"add": keys[prev:c], "del": [], "blocklimit": rng.choice([1, 2, 4, None]),
                      "merge": rng.random() < 0.5, "optimize": rng.random() < 0.2})
        prev = c
    textf = sorted(n for n, o in case["schema"].items() if o["kind"] in TEXTY)
    terms = sorted(set((f, t[0]) for d in case["docs"].values() for f in textf for t in d.get(f, [])))
    from whoosh import query as Q
    obs = []
    for hist in (case["history"], hist2):
        ix = build_index(dict(case, history=hist))
        with ix.searcher(weighting=make_weighting(wspec)) as s:
            st = {"N": s.doc_count_all(), "nseg": len(s.leaf_searchers()),
                  "flen": {f: s.field_length(f) for f in textf},
                  "df": {"%s:%s" % ft: s.doc_frequency(ft[0], ft[1]) for ft in terms}}
            # the Lean specification of the statistics (WM.Search.termStats) on the layout as it is
            from vcheck import Driver, parse_sexp
            enc = Enc(case["schema"])
            lidx = lean_index(enc, case, read_layout(s))
            out = Driver().ask1("c09 stats %s (%s)" % (lidx, " ".join("(%s %s)" % (f, hexs(t.encode("utf8")))
                                                                      for f, t in terms)))
            spec_stats = [[x[0], x[1], x[2], x[3]] for x in parse_sexp(out)[0]] if out != "bad-op" else None
            real_stats = []
            for f, t in terms:
                cfr = s.frequency(f, t)
                real_stats.append([str(s.doc_count_all()), str(s.doc_frequency(f, t)),
                                   rat(cfr) if cfr != int(cfr) else str(int(cfr)), str(s.field_length(f))])
            if spec_stats != real_stats:
                bad = [(ft, a, b) for ft, a, b in zip(terms, spec_stats or [], real_stats) if a != b][:3]
                res["failures"].append({"sig": "layout:collection-statistics-differ-from-specified-termStats", "q": None,
                                        "path": "stats", "kind": "stats", "exp": str(bad), "obs": "",
                                        "layout": [[len(c["add"]), c["merge"]] for c in hist]})
            sc = {}
            for f, t in terms:
                r = s.search(Q.Term(f, t), limit=None)
                sc["%s:%s" % (f, t)] = {r.searcher.stored_fields(h.docnum)["i"]: h.score for h in r}
            obs.append((st, sc))
    (st1, sc1), (st2, sc2) = obs
    res["ncases"] = len(terms) + 1
    res["stats"]["layout:pairs"] = 1
    res["stats"]["layout:segments-%d-vs-%d" % (st1["nseg"], st2["nseg"])] = 1
    nontriv = st1["nseg"] != st2["nseg"]
    if nontriv:
        res["keys"] = [(seedstr, "layout", ft) for ft in terms]
    layouts = [[len(c["add"]), c["merge"]] for c in case["history"]], [[len(c["add"]), c["merge"]] for c in hist2]
    if {k: v for k, v in st1.items() if k != "nseg"} != {k: v for k, v in st2.items() if k != "nseg"}:
        res["failures"].append({"sig": "layout:collection-statistics-differ-across-segment-layouts", "q": None,
                                "path": "layout", "kind": "stats", "exp": st1, "obs": st2, "layout": layouts})
    for ft in sc1:
        a, b = sc1[ft], sc2[ft]
        bad = sorted(a) != sorted(b) or any(abs(a[k] - b[k]) > 1e-9 * max(1.0, abs(a[k])) for k in a)
        if bad:
            res["failures"].append({"sig": "layout:term-score-differs-across-segment-layouts",
                                    "q": ["term"] + ft.split(":", 1) + [1.0], "path": "layout", "kind": "score",
                                    "exp": a, "obs": b, "layout": layouts})
            break
    return res
