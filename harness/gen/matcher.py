"""Generators and real-code drivers shared by the matcher family (C11, C12).

A *tree* is a nested tuple:
  ("null",) | ("list", ids, weights, scorer01) | ("term", j)            leaves
  ("union"|"dismax"|"inter"|"andnot"|"andmaybe"|"require", A, B)
  ("dismax", A, B, tiebreak)      DisjunctionMaxMatcher(a, b, tiebreak=t), t > 0 (the option of query.DisjunctionMax)
  ("boost", b, A) | ("filter", ids, excl01, boost, A) | ("inverse", limit, missing, weight, A) | ("const", score, A)
("term", j) refers to posting list j of an `IndexSpec` (a real W3 posting list with small blocks).

All numbers that reach a score are dyadic rationals (weights k/4, boosts 2^k) so that Python float
arithmetic is exact and the Lean model (over Rat) can be compared with `==`.
"""
import atexit
import os
import warnings
import shutil
import tempfile
from fractions import Fraction

from vcheck import sexp

warnings.filterwarnings("ignore", category=SyntaxWarning)

BIN = ("union", "dismax", "inter", "andnot", "andmaybe", "require")
UN = ("boost", "filter", "inverse", "const")
NDOCS = 28

# ------------------------------------------------------------------------------------------------
# private temp dir per process: RamStorage.temp_storage() and the repo tests share <tmp>/MAIN.tmp

_TMP = {"pid": None, "dir": None}


def private_tmp():
    pid = os.getpid()
    if _TMP["pid"] != pid:
        base = os.environ.get("VERIF_SCRATCH") or "/tmp"
        d = tempfile.mkdtemp(prefix="wverif-m%d-" % pid, dir=base)
        _TMP["pid"], _TMP["dir"] = pid, d
        tempfile.tempdir = d
        atexit.register(shutil.rmtree, d, True)
    return _TMP["dir"]


def cleanup_tmp():
    if _TMP["pid"] == os.getpid() and _TMP["dir"]:
        shutil.rmtree(_TMP["dir"], ignore_errors=True)
        _TMP["pid"] = None
        tempfile.tempdir = None


# ------------------------------------------------------------------------------------------------
# watchdog: a matcher operation of the tree under test that does not return must end the case, not
# hang the check

class Hang(Exception):
    pass


def _alarm(signum, frame):
    raise Hang()


class watchdog(object):
    def __init__(self, seconds=20.0):
        self.seconds = seconds

    def __enter__(self):
        import signal
        self.old = signal.signal(signal.SIGALRM, _alarm)
        signal.setitimer(signal.ITIMER_REAL, self.seconds)

    def __exit__(self, *a):
        import signal
        signal.setitimer(signal.ITIMER_REAL, 0)
        signal.signal(signal.SIGALRM, self.old)
        return False


# ------------------------------------------------------------------------------------------------
# generation

def gen_ids(rng, maxid=NDOCS, sizes=(0, 1, 1, 2, 3, 4, 5, 6, 8, 10, 12)):
    n = min(rng.choice(sizes), maxid)
    style = rng.random()
    if style < 0.15 and n:            # dense run (block boundaries line up)
        lo = rng.randint(0, maxid - n)
        return list(range(lo, lo + n))
    return sorted(rng.sample(range(maxid), n))


def gen_list(rng):
    ids = gen_ids(rng)
    ws = [rng.choice([0.25, 0.5, 1.0, 1.0, 1.5, 2.0, 3.0, 4.0]) for _ in ids]
    return ("list", ids, ws, 1)


def gen_posting_list(rng):
    """(ids, freqs) for a real posting list; integer term frequencies"""
    ids = gen_ids(rng, sizes=(1, 1, 2, 3, 4, 5, 6, 8, 10, 12, 16))
    if not ids:
        ids = [rng.randrange(NDOCS)]
    style = rng.random()
    if style < 0.3:   # one strong block among weak ones
        fs = [1] * len(ids)
        k = rng.randrange(len(ids))
        fs[k] = rng.choice([4, 6, 8])
    else:
        fs = [rng.choice([1, 1, 1, 2, 2, 3, 4, 6]) for _ in ids]
    return (ids, fs)


_MULTI_FIXED = []


def multi_quality_repaired():
    """does the tree under test answer max_quality()/block_quality() on an exhausted MultiMatcher (repair
    'MultiMatcher quality reads raise once the matcher is exhausted')?  On a tree without it
    DisjunctionMaxMatcher, which reads the bounds of both sides unguarded, raises ValueError/IndexError as soon
    as a MultiMatcher side is used up, IntersectionMatcher.skip_to_quality reads them right after moving a side -
    the recorded finding; the generators then keep MultiMatcher out of binary sub-trees (root and below wrappers
    only) so that everything else about it is still compared."""
    if not _MULTI_FIXED:
        from whoosh.matching import MultiMatcher
        try:
            MultiMatcher([], [], None).max_quality()
            _MULTI_FIXED.append(True)
        except ValueError:
            _MULTI_FIXED.append(False)
    return _MULTI_FIXED[0]


TIEBREAKS = (0.5, 0.25, 1.0, 2.0, 0.125)


def gen_tree(rng, depth, kinds, leaf, boosts=(0.5, 1.0, 1.0, 0.25, 2.0, 4.0), nomulti=False):
    """`leaf(rng)` makes a leaf tuple"""
    if depth <= 0 or rng.random() < 0.2:
        if rng.random() < 0.04:
            return ("null",)
        return leaf(rng)
    k = rng.choice(kinds)
    if k == "multi" and nomulti:
        return leaf(rng)
    if k == "multi":
        return gen_multi(rng, leaf)
    if k in BIN and "multi" in kinds and not multi_quality_repaired():
        # (every binary class can read the bounds of an exhausted side: DisjunctionMax directly, Intersection in
        # its skip loop, and Union/AndMaybe/Require turn into an Intersection in replace())
        nomulti = True
    if k in BIN:
        a = gen_tree(rng, depth - 1, kinds, leaf, boosts, nomulti)
        if rng.random() < 0.08:
            b = a           # the same list on both sides (full alignment)
        else:
            b = gen_tree(rng, depth - 1, kinds, leaf, boosts, nomulti)
        if k == "dismax" and rng.random() < 0.5:
            # the constructor option of the class (query.DisjunctionMax(..., tiebreak=t) hands it down)
            return (k, a, b, rng.choice(TIEBREAKS))
        return (k, a, b)
    c = gen_tree(rng, depth - 1, kinds, leaf, boosts, nomulti)
    if k == "boost":
        return (k, rng.choice(boosts), c)
    if k == "filter":
        return (k, sorted(rng.sample(range(NDOCS), rng.choice([0, 1, 3, 8, 14, 27]))), rng.randint(0, 1),
                rng.choice(boosts), c)
    if k == "inverse":
        return (k, rng.choice([0, 1, 5, NDOCS, NDOCS, NDOCS + 3]), sorted(rng.sample(range(NDOCS + 3), rng.choice([0, 0, 1, 3, 6]))),
                rng.choice([1.0, 2.0, 0.5]), c)
    if k == "const":
        return (k, rng.choice([1.0, 2.0, 0.5, 3.0]), c)
    raise ValueError(k)


def gen_multi(rng, leaf):
    """("multi", offsets, children): a MultiMatcher over leaf matchers of one kind (the posting lists of one
    term in the segments of an index; its score() reads the current sub-matcher's weight())"""
    first = leaf(rng)
    kids = [first]
    for _ in range(rng.choice([0, 1, 2, 2, 3, 4])):
        if first[0] == "list" and rng.random() < 0.2:
            kids.append(("list", [], [], first[3]))      # a segment without postings of the term
            continue
        for _try in range(8):
            c = leaf(rng)
            if c[0] == first[0]:
                kids.append(c)
                break
    offs, o = [], rng.choice([0, 0, 3])
    for _ in kids:
        offs.append(o)
        o += NDOCS + rng.choice([0, 1, 7])
    return ("multi", offs, kids)


def gen_combo(rng, leaf=None):
    """("aunion", doccount, boost, partsize, kids) or ("preload", doccount, boost, kids): the array matchers of
    combo.py over sub-matchers of one shape (a leaf, or one binary/boost node over leaves)"""
    leaf = leaf or gen_list
    wrap = rng.choice([None, None, None, "union", "inter", "andnot", "andmaybe", "dismax", "boost"])
    tb = rng.choice((0,) + TIEBREAKS[:2]) if wrap == "dismax" else 0     # one shape for all sub-matchers

    def kid():
        if wrap is None:
            return leaf(rng)
        if wrap == "boost":
            return ("boost", 0.5, leaf(rng))
        if wrap == "dismax" and tb:
            return (wrap, leaf(rng), leaf(rng), tb)
        return (wrap, leaf(rng), leaf(rng))
    kids = [kid() for _ in range(rng.choice([1, 2, 3, 3, 4]))]
    doccount = rng.choice([NDOCS, NDOCS, NDOCS, NDOCS + 6, 12])
    boost = rng.choice([1.0, 1.0, 2.0, 0.5])
    if rng.random() < 0.25:
        return ("preload", doccount, boost, kids)
    return ("aunion", doccount, boost, rng.choice([1, 2, 3, 5, 8, 8, 16, 2048]), kids)


def aunion_rewinds():
    """does the tree under test implement ArrayUnionMatcher.reset()/copy() (repairs on branch r2-matcher)?"""
    from whoosh.matching import ArrayUnionMatcher
    return "reset" in ArrayUnionMatcher.__dict__ and "copy" in ArrayUnionMatcher.__dict__


def multi_parts(t, rix):
    """(offset, child) pairs of a multi node that really become sub-matchers: like Searcher.postings, segments
    that do not have the term (empty posting list -> TermNotFound) are left out"""
    out = []
    for o, c in zip(t[1], t[2]):
        if c[0] == "term" and not rix.spec.lists[c[1]][0]:
            continue
        out.append((o, c))
    return out


def tree_kinds(t, acc=None):
    acc = set() if acc is None else acc
    acc.add(t[0])
    if t[0] == "multi":
        for x in t[2]:
            tree_kinds(x, acc)
        return acc
    for x in t[1:]:
        if isinstance(x, tuple) and x and isinstance(x[0], str):
            tree_kinds(x, acc)
    return acc


def tree_size(t):
    if t[0] == "multi":
        return 1 + sum(tree_size(x) for x in t[2])
    return 1 + sum(tree_size(x) for x in t[1:] if isinstance(x, tuple) and x and isinstance(x[0], str))


def max_boost(t):
    """largest boost of a boost/filter node in the tree (1 if none)"""
    b = 1.0
    if t[0] == "boost":
        b = max(b, t[1])
    if t[0] == "filter":
        b = max(b, t[3])
    for x in t[1:]:
        if isinstance(x, tuple) and x and isinstance(x[0], str):
            b = max(b, max_boost(x))
    return b


def min_boost(t):
    """smallest boost of a boost/filter node in the tree (1 if none)"""
    b = 1.0
    if t[0] == "boost":
        b = min(b, t[1])
    if t[0] == "filter":
        b = min(b, t[3])
    for x in t[1:]:
        if isinstance(x, tuple) and x and isinstance(x[0], str):
            b = min(b, min_boost(x))
    return b


def unit_boosts(t):
    """all boosts in (0, 1]: the trees for which replace(q) is proved to keep every entry above q"""
    return min_boost(t) > 0 and max_boost(t) <= 1


# boosts of the correspondence streams: also the degenerate ones (the model mirrors the code for any boost)
CORR_BOOSTS = (0.5, 1.0, 1.0, 0.25, 2.0, 4.0, 0.5, 1.0, 1.0, 0.25, 2.0, 4.0, 0.0, -0.5, -1.0)


# ------------------------------------------------------------------------------------------------
# real indexes with small posting blocks

class IndexSpec(object):
    """posting lists `lists[j] = (ids, freqs)` of terms t0..tn in field `f`, `filler[d]` extra
    tokens in document d (so that field lengths differ), written with W3Codec(blocklimit)."""

    def __init__(self, lists, blocklimit, filler=None, weighting=("freq",), deleted=()):
        self.lists = lists
        self.blocklimit = blocklimit
        self.filler = filler or [0] * NDOCS
        self.weighting = weighting
        self.deleted = tuple(deleted)

    def key(self):
        return (tuple((tuple(i), tuple(f)) for i, f in self.lists), self.blocklimit, tuple(self.filler),
                self.weighting, self.deleted)


def make_weighting(w):
    from whoosh import scoring
    k = w[0]
    if k == "freq":
        return scoring.Frequency()
    if k == "tfidf":
        return scoring.TF_IDF()
    if k == "bm25":
        return scoring.BM25F(B=w[1], K1=w[2])
    if k == "dfree":
        return scoring.DFree()
    if k == "pl2":
        return scoring.PL2(c=w[1])
    if k == "reverse":
        return scoring.ReverseWeighting(make_weighting(w[1]))
    if k == "multi":
        return scoring.MultiWeighting(make_weighting(w[1]), f=make_weighting(w[2]))
    raise ValueError(w)


class RealIndex(object):
    def __init__(self, spec):
        from whoosh import fields
        from whoosh.filedb.filestore import RamStorage
        from whoosh.codec.whoosh3 import W3Codec
        private_tmp()
        self.spec = spec
        schema = fields.Schema(f=fields.KEYWORD(scorable=True))
        self.ix = RamStorage().create_index(schema)
        w = self.ix.writer(codec=W3Codec(blocklimit=spec.blocklimit))
        docs = [[] for _ in range(NDOCS)]
        for j, (ids, fs) in enumerate(spec.lists):
            for i, f in zip(ids, fs):
                docs[i] += ["t%d" % j] * int(f)
        for d, toks in enumerate(docs):
            toks = toks + ["zz"] * spec.filler[d]
            w.add_document(f=u" ".join(toks))
        w.commit()
        if spec.deleted:
            w = self.ix.writer()
            for d in spec.deleted:
                w.delete_document(d)
            w.commit(merge=False)
        self.searcher = self.ix.searcher(weighting=make_weighting(spec.weighting))

    def close(self):
        self.searcher.close()

    def leaf(self, j):
        from whoosh.reading import TermNotFound
        from whoosh.matching import NullMatcher
        s = self.searcher
        try:
            return s.postings("f", u"t%d" % j, weighting=s.weighting)
        except TermNotFound:
            return NullMatcher()

    def leaf_sexp(self, j):
        """protocol text of posting list j as the W3 reader sees it: blocks with their stored
        statistics, float32 weights, field lengths as the scorer reads them"""
        from whoosh.codec.whoosh3 import W3LeafMatcher
        from whoosh.matching import FilterMatcher, NullMatcherClass
        s = self.searcher
        m = self.leaf(j)
        if isinstance(m, NullMatcherClass):
            return "(null)"
        wrap = None
        if isinstance(m, FilterMatcher):
            wrap = m
            m = m.child
        if not isinstance(m, W3LeafMatcher):
            raise Exception("unexpected leaf class %r" % m.__class__)
        blocks = []
        while True:
            m._read_ids()
            m._read_weights()
            ps = []
            for i in range(m._blocklength):
                d = m._ids[i]
                ps.append("(%d %s %d)" % (d, sexp(float(m._weights[i])), s.doc_field_length(d, "f", 1)))
            blocks.append("(blk %d %s %d %s)" % (m._maxid, sexp(float(m._maxweight)), m._minlength, " ".join(ps)))
            if m._lastblock:
                break
            m._next_block()
        ti = s.term_info("f", u"t%d" % j)
        text = "(leaf %s %s %d %s)" % (self.scorer_sexp(j), sexp(float(ti.max_weight())), ti.min_length(), " ".join(blocks))
        if wrap is not None:
            text = "(filter %s 1 1 %s)" % (sexp(sorted(wrap._ids)), text)
        return text

    def scorer_sexp(self, j):
        w = self.spec.weighting
        s = self.searcher
        if w[0] == "freq":
            return "freq"
        sc = s.weighting.scorer(s, "f", u"t%d" % j)
        if w[0] == "tfidf":
            return "(tfidf %s)" % sexp(float(sc.idf))
        if w[0] == "bm25":
            return "(bm25 %s %s %s %s)" % (sexp(float(sc.idf)), sexp(float(sc.avgfl)), sexp(float(sc.B)), sexp(float(sc.K1)))
        raise ValueError("weighting %r has no Lean scorer" % (w,))


def gen_index_spec(rng, nlists, weighting=("freq",), blocklimits=(1, 2, 2, 3, 4), deleted=False):
    lists = [gen_posting_list(rng) for _ in range(nlists)]
    filler = [rng.choice([0, 0, 1, 2, 5, 9]) for _ in range(NDOCS)]
    dele = sorted(rng.sample(range(NDOCS), rng.choice([1, 2, 5]))) if deleted else ()
    return IndexSpec(lists, rng.choice(blocklimits), filler, weighting, dele)


# ------------------------------------------------------------------------------------------------
# building the real matcher / the protocol text

def build_real(t, rix=None):
    from whoosh import matching as M
    from whoosh.scoring import WeightScorer
    k = t[0]
    if k == "null":
        return M.NullMatcher()
    if k == "list":
        ids, ws, sc = t[1], t[2], t[3]
        return M.ListMatcher(list(ids), list(ws), scorer=WeightScorer(max(ws) if ws else 0.0) if sc else None,
                             term=("f", "L"))
    if k == "term":
        return rix.leaf(t[1])
    if k == "union":
        return M.UnionMatcher(build_real(t[1], rix), build_real(t[2], rix))
    if k == "dismax":
        if len(t) > 3:
            return M.DisjunctionMaxMatcher(build_real(t[1], rix), build_real(t[2], rix), tiebreak=t[3])
        return M.DisjunctionMaxMatcher(build_real(t[1], rix), build_real(t[2], rix))
    if k == "inter":
        return M.IntersectionMatcher(build_real(t[1], rix), build_real(t[2], rix))
    if k == "andnot":
        return M.AndNotMatcher(build_real(t[1], rix), build_real(t[2], rix))
    if k == "andmaybe":
        return M.AndMaybeMatcher(build_real(t[1], rix), build_real(t[2], rix))
    if k == "require":
        return M.RequireMatcher(build_real(t[1], rix), build_real(t[2], rix))
    if k == "boost":
        return M.WrappingMatcher(build_real(t[2], rix), boost=t[1])
    if k == "filter":
        return M.FilterMatcher(build_real(t[4], rix), frozenset(t[1]), exclude=bool(t[2]), boost=t[3])
    if k == "inverse":
        miss = frozenset(t[2])
        return M.InverseMatcher(build_real(t[4], rix), t[1], missing=lambda i: i in miss, weight=t[3])
    if k == "const":
        return M.ConstantScoreWrapperMatcher(build_real(t[2], rix), score=t[1])
    if k == "multi":       # ("multi", offsets, [children])
        from whoosh.scoring import WeightScorer as WS
        parts = multi_parts(t, rix)
        return M.MultiMatcher([build_real(c, rix) for _, c in parts], [o for o, _ in parts], WS(1.0))
    if k == "aunion":      # ("aunion", doccount, boost, partsize, [children])  -- root only
        return M.ArrayUnionMatcher([build_real(c, rix) for c in t[4]], t[1], boost=t[2], partsize=t[3])
    if k == "preload":     # ("preload", doccount, boost, [children])  -- root only
        return M.PreloadedUnionMatcher([build_real(c, rix) for c in t[3]], t[1], boost=t[2])
    raise ValueError(k)


def tree_sexp(t, rix=None):
    k = t[0]
    if k == "null":
        return "(null)"
    if k == "list":
        return "(list %s %s %d)" % (sexp(list(t[1])), sexp([float(w) for w in t[2]]), t[3])
    if k == "term":
        return rix.leaf_sexp(t[1])
    if k == "dismax" and len(t) > 3:
        return "(dismax %s %s %s)" % (tree_sexp(t[1], rix), tree_sexp(t[2], rix), sexp(float(t[3])))
    if k in BIN:
        return "(%s %s %s)" % (k, tree_sexp(t[1], rix), tree_sexp(t[2], rix))
    if k == "boost":
        return "(boost %s %s)" % (sexp(float(t[1])), tree_sexp(t[2], rix))
    if k == "filter":
        return "(filter %s %d %s %s)" % (sexp(list(t[1])), t[2], sexp(float(t[3])), tree_sexp(t[4], rix))
    if k == "inverse":
        return "(inverse %d %s %s %s)" % (t[1], sexp(list(t[2])), sexp(float(t[3])), tree_sexp(t[4], rix))
    if k == "const":
        return "(const %s %s)" % (sexp(float(t[1])), tree_sexp(t[2], rix))
    if k == "multi":
        return "(multi%s)" % "".join(" (%d %s)" % (o, tree_sexp(c, rix)) for o, c in multi_parts(t, rix))
    if k == "aunion":
        return "(aunion %d %s %d%s)" % (t[1], sexp(float(t[2])), t[3], "".join(" " + tree_sexp(c, rix) for c in t[4]))
    if k == "preload":
        return "(preload %s%s)" % (sexp(float(t[2])), "".join(" " + tree_sexp(c, rix) for c in t[3]))
    raise ValueError(k)


# ------------------------------------------------------------------------------------------------
# observing the real matcher

ERR = {"ReadTooFar": "ReadTooFar", "IndexError": "IndexError", "AssertionError": "AssertionError",
       "NotImplementedError": "NotImplementedError", "ValueError": "ValueError",
       "ZeroDivisionError": "ZeroDivisionError", "AttributeError": "AttributeError", "Exception": "Exception"}


def err_name(e):
    return "!" + ERR.get(type(e).__name__, "Other:" + type(e).__name__)


def num(x):
    """exact rational text of a Python number"""
    if isinstance(x, bool):
        return str(int(x))
    if isinstance(x, int):
        return str(x)
    if x != x or x in (float("inf"), float("-inf")):
        return "inf" if x > 0 else ("-inf" if x < 0 else "nan")
    fr = Fraction(x)
    return "%d/%d" % (fr.numerator, fr.denominator) if fr.denominator != 1 else "%d" % fr.numerator


def guarded(fn, conv=num):
    try:
        return conv(fn())
    except Exception as e:  # noqa
        return err_name(e)


def observe(m):
    """what is compared after every operation.  On an exhausted matcher only the flag: whoosh gives
    no meaning to reads there (they return stale memo values or raise, depending on history)."""
    if not m.is_active():
        return "(0)"
    sup = bool(m.supports_block_quality())
    return "(%d %s %s %d %s %s)" % (
        1 if m.is_active() else 0, guarded(m.id), guarded(m.score), 1 if sup else 0,
        guarded(m.block_quality) if sup else "-", guarded(m.max_quality) if sup else "-")


def observe_allids(m):
    """the class's own all_ids() on a copy of the real matcher (all_ids() consumes the matcher)"""
    try:
        with watchdog():
            ids = list(m.copy().all_ids())
    except Hang:
        return "(A !HANG)"
    except Exception as e:  # noqa
        return "(A %s)" % err_name(e)
    return "(A" + "".join(" %d" % i for i in ids) + ")"


def observe_sem(m, thr):
    """the semantic observation after a reshaping replace: the remaining entries that score above `thr`,
    read by stepping a copy of the real matcher to its end"""
    try:
        with watchdog():
            rest = drain(m.copy()) if m.is_active() else []
    except Hang:
        return "(H !HANG)"
    except Exception as e:  # noqa
        return "(H %s)" % err_name(e)
    return "(H " + " ".join("(%s %s)" % (num(i), num(s)) for i, s in rest if s > thr) + ")"


def _op1(op):
    return op[0] if len(op) == 1 else "(%s %s)" % (op[0], num(op[1]) if op[0] in ("skipq", "replace", "replace!") else op[1])


def op_sexp(op):
    if op[0] == "sem":
        return "(sem %s %s)" % (num(op[1]), _op1(op[2]))
    return _op1(op)


def apply_real(m, regs, op):
    """returns the new current matcher; raises what the matcher raises"""
    k = op[0]
    if k == "next":
        m.next()
    elif k == "skip":
        m.skip_to(op[1])
    elif k == "skipq":
        m.skip_to_quality(op[1])
    elif k == "replace":
        m = m.replace(op[1])
    elif k == "reset":
        m.reset()
    elif k == "copy":
        regs[op[1]] = m.copy()
    elif k == "swap":
        if op[1] in regs:
            other = regs[op[1]]
            regs[op[1]] = m
            m = other
    elif k == "allids":
        pass
    elif k == "sem":
        # semantic mode: the operation is applied only where it is defined on this side
        if m.is_active() and (op[2][0] != "skipq" or m.supports_block_quality()):
            m = apply_real(m, regs, op[2])
    else:
        raise ValueError(op)
    return m


def sem_threshold(thr, op):
    """the threshold above which both sides must still agree after `op` (in semantic mode)"""
    if op[0] == "skipq" or (op[0] == "replace" and op[1]):
        return max(thr, op[1])
    return thr


def replay_program(m, ops):
    """the transcript of a fixed program on the real matcher (same observations as run_program)"""
    regs = {}
    out = [observe(m)]
    for op in ops:
        try:
            with watchdog():
                m = apply_real(m, regs, ("replace", op[1]) if op[0] == "replace!" else op)
        except Hang:
            out.append("(!HANG)")
            break
        except Exception as e:  # noqa
            out.append("(%s)" % err_name(e))
            break
        if op[0] == "replace!":
            out.append(observe_sem(m, op[1]))
        elif op[0] == "sem":
            out.append(observe_sem(m, op[1]))
        elif op[0] == "allids":
            out.append(observe_allids(m))
        else:
            out.append(observe(m))
    return out


def thresholds(rng, m, scores):
    cand = [0.0, 0.0]
    try:
        if m.is_active():
            s = m.score()
            cand += [s, s, s - 0.25, s + 0.25, s / 2]
    except Exception:  # noqa
        pass
    try:
        # just above / at the current block quality: the smallest thresholds at which the skip loops engage
        if m.is_active() and m.supports_block_quality():
            bq = m.block_quality()
            mq = m.max_quality()
            if bq == bq and abs(bq) != float("inf"):
                cand += [bq, bq + 0.125, bq + 0.125, bq + 1.0]
            if mq == mq and abs(mq) != float("inf"):
                cand += [mq - 0.125, mq]
    except Exception:  # noqa
        pass
    if scores:
        cand += [rng.choice(scores), rng.choice(scores) - 0.125, max(scores), max(scores) + 1.0]
    cand += [-1.0, 0.5]
    if rng.random() < 0.05:
        return 1000.0
    return rng.choice(cand)


def _run_semantic(rng, m, nops, scores, thr, ops, out, regs):
    """the rest of a program after a reshaping replace: skip_to / skip_to_quality / replace, each followed by
    the comparison of what is left above the largest threshold used since the reshaping"""
    for _ in range(nops):
        if not m.is_active():
            break
        k = rng.choice(["next", "next", "next", "skip", "skip", "skipq", "skipq", "replace", "replace"])
        try:
            cur = m.id()
        except Exception:  # noqa
            break
        if k == "next":
            op = ("skip", cur + 1)
        elif k == "skip":
            op = ("skip", max(0, cur + rng.choice([-2, 0, 1, 2, 3, 4, 6, 9, 40])))
        elif k == "skipq":
            if not m.supports_block_quality():
                continue
            op = ("skipq", thresholds(rng, m, scores))
        else:
            op = ("replace", thresholds(rng, m, scores) if rng.random() < 0.7 else 0)
        thr = sem_threshold(thr, op)
        sop = ("sem", thr, op)
        ops.append(sop)
        try:
            with watchdog():
                m = apply_real(m, regs, sop)
        except Hang:
            out.append("(!HANG)")
            return
        except Exception as e:  # noqa
            out.append("(%s)" % err_name(e))
            return
        out.append(observe_sem(m, thr))
        if out[-1].startswith("(H !") or out[-1] == "(H )":
            return


def run_program(rng, m, nops, scores, allow_copy, error_stream=False, quality=True, maxid=NDOCS + 4, qbias=1,
                semantic=True, allow_reset=True):
    """Generate a program adaptively while executing it on the real matcher.  Returns (ops, transcript).
    Mostly valid: operations that raise on an exhausted matcher are only issued in the error stream."""
    regs = {}
    ops, out = [], [observe(m)]
    for _ in range(nops):
        active = m.is_active()
        choices = []
        if active or error_stream:
            choices += ["next"] * 6 + ["skip"] * 4
            if quality and m.supports_block_quality():
                choices += ["skipq"] * (3 * qbias)
        choices += ["replace"] * ((3 * qbias) if quality else 1) + (["reset"] if allow_reset else [])
        if allow_copy:
            choices += ["copy", "swap", "allids"]
        k = rng.choice(choices)
        if not active and not error_stream:
            # an exhausted matcher: rewind (mostly), switch to a copy, or end the program - do not burn the
            # remaining operations on calls that cannot move
            r = rng.random()
            if r < 0.55 and allow_reset:
                k = "reset"
            elif r < 0.70 and allow_copy:
                k = "swap"
            elif r < 0.80:
                k = "replace"
            else:
                break
        if k == "skip":
            cur = None
            try:
                cur = m.id() if active else None
            except Exception:  # noqa
                pass
            base = cur if cur is not None else rng.randrange(maxid)
            op = ("skip", max(0, base + rng.choice([-2, -1, 0, 1, 1, 2, 3, 4, 6, 9, 40])))
        elif k == "skipq":
            op = ("skipq", thresholds(rng, m, scores))
        elif k == "replace":
            # half of the replace() calls of the cursor streams carry no threshold: a reshaping replace(q != 0)
            # ends the textual comparison of the program (see below)
            op = ("replace", thresholds(rng, m, scores) if (quality and (qbias > 1 or rng.random() < 0.5)) else 0)
        elif k in ("copy", "swap"):
            op = (k, rng.randint(0, 2))
        else:
            op = (k,)
        ops.append(op)
        before = m
        try:
            with watchdog():
                m = apply_real(m, regs, op)
        except Hang:
            out.append("(!HANG)")
            break
        except Exception as e:  # noqa
            out.append("(%s)" % err_name(e))
            break
        if op[0] == "replace" and op[1] and m is not before:
            # A reshaping replace(q != 0).  The shape of the replacement is deliberately not compared (DESIGN
            # Appendix F): it depends on object sharing between a matcher and its replacement, which the
            # value-level model does not have (AndMaybeMatcher.replace reads a.max_quality() after a.replace()
            # has advanced the sub-matchers it shares with the new matcher).  What must agree is the meaning:
            # the entries above the threshold that are left.  The program goes on in semantic mode.
            ops[-1] = ("replace!", op[1])
            out.append(observe_sem(m, op[1]))
            if semantic and not out[-1].startswith("(H !"):
                _run_semantic(rng, m, nops - len(ops), scores, op[1], ops, out, regs)
            break
        out.append(observe_allids(m) if op[0] == "allids" else observe(m))
    return ops, out


def drain(m, limit=10000):
    """step the real matcher to its end: [(id, score)]"""
    out = []
    while m.is_active():
        out.append((m.id(), m.score()))
        m.next()
        if len(out) > limit:
            raise RuntimeError("matcher does not terminate")
    return out


def parse_den(text):
    """`((id score) ...)` from the driver -> [(id, Fraction)]"""
    from vcheck import parse_sexp
    res = []
    for e in parse_sexp(text)[0]:
        res.append((int(e[0]), Fraction(e[1])))
    return res


# ------------------------------------------------------------------------------------------------
# end-to-end walks: the real matcher against an expected result list

def approx_eq(a, b, tol):
    if tol == 0:
        return a == b
    return abs(a - b) <= tol * max(1.0, abs(a), abs(b))


def same_entries(got, exp, tol):
    return len(got) == len(exp) and all(g[0] == e[0] and approx_eq(g[1], e[1], tol) for g, e in zip(got, exp))


def e2e_cursor(rng, build, den, allow_copy, tol=0):
    """C11 on the real object: `build()` makes a fresh real matcher, `den` is the expected complete
    list [(id, score)].  Returns None or (signature, detail)."""
    ids = [i for i, _ in den]
    # stepping
    with watchdog():
        got = drain(build())
    if not same_entries(got, den, tol):
        return ("next-until-done differs from the expected list", {"expected": den, "got": got})
    # all_ids on a fresh matcher
    with watchdog():
        got = list(build().all_ids())
    if got != ids:
        return ("all_ids() differs from stepping", {"expected": ids, "got": got})
    # skip_to from the start
    targets = sorted(set([0] + ids + [i + 1 for i in ids]))
    for t in rng.sample(targets, min(len(targets), 6)):
        m = build()
        if not m.is_active():
            break
        with watchdog():
            m.skip_to(t)
            got = drain(m)
        exp = [e for e in den if e[0] >= t]
        if t <= ids[0]:
            exp = den
        if not same_entries(got, exp, tol):
            return ("skip_to(t) does not land on the first id >= t", {"t": t, "expected": exp, "got": got})
    # random walk: reads depend only on the position; skip_to backwards does not move; copy; reset; replace(0)
    m = build()
    pos = 0
    replaced = False
    for _ in range(rng.randint(0, len(den) + 2)):
        if not m.is_active():
            break
        if m.id() != den[pos][0] or not approx_eq(m.score(), den[pos][1], tol):
            return ("id()/score() depend on the path", {"pos": pos, "expected": den[pos], "got": (m.id(), m.score())})
        k = rng.random()
        with watchdog():
            if k < 0.45:
                m.next()
                pos += 1
            elif k < 0.75:
                t = den[pos][0] + rng.choice([-3, -1, 0, 1, 2, 5])
                m.skip_to(t)
                while pos < len(den) and den[pos][0] < t:
                    pos += 1
            elif k < 0.85:
                m = m.replace(0)
                replaced = True
            elif k < 0.93 and allow_copy:
                try:
                    c = m.copy()
                except NotImplementedError:
                    return ("copy() raises !NotImplementedError", {})
                if c.is_active():
                    c.next()
                    if c.is_active() and rng.random() < 0.5:
                        c.skip_to(c.id() + 3)
            else:
                if m.supports_block_quality() and all(s > 0 for _, s in den):
                    m.skip_to_quality(0)
    if m.is_active() != (pos < len(den)):
        return ("is_active() wrong after a walk", {"pos": pos, "expected": pos < len(den)})
    with watchdog():
        rest = drain(m)
    if not same_entries(rest, den[pos:], tol):
        return ("remaining list depends on the path", {"pos": pos, "expected": den[pos:], "got": rest})
    if replaced:
        # documented: reset() on the result of replace() rewinds the optimised replacement, which may
        # have shed exhausted sub-matchers
        return None
    with watchdog():
        try:
            m.reset()
        except NotImplementedError:
            return ("reset() raises !NotImplementedError", {})
        got = drain(m)
    if not same_entries(got, den, tol):
        return ("reset() does not return to the start", {"expected": den, "got": got})
    return None


def e2e_quality(rng, m, den, tol=0, nops=14, scores=None, fixed_ops=None):
    """C12 on the real object: walk `m` (fresh, expected list `den`) with next/skip_to/skip_to_quality/replace.
    After every step: the entry read is an expected one; block_quality >= score; max_quality >= every
    remaining expected score above the largest threshold used; nothing scoring above the largest
    threshold so far has been lost or invented.  Returns None or (kind, detail, ops)."""
    thr = None
    lo = 0
    ops = []
    dd = dict(den)
    scores = scores or [s for _, s in den] or [1.0]

    def above(e):
        return thr is None or e[1] > thr + tol * max(1.0, abs(thr))

    if fixed_ops is not None:
        nops = len(fixed_ops)
    for step in range(nops + 1):
        hi = [e for e in den if e[0] >= lo and above(e)]
        with watchdog():
            act = m.is_active()
            cur = (m.id(), m.score()) if act else None
        if not act:
            if hi:
                return ("lost", {"expected": hi[0], "got": "exhausted"}, ops)
            return None
        if cur[0] < lo:
            return ("moved-backwards", {"lo": lo, "got": cur}, ops)
        if hi and cur[0] > hi[0][0]:
            return ("lost", {"expected": hi[0], "got": cur}, ops)
        if above(cur):
            if not hi or cur[0] != hi[0][0] or not approx_eq(cur[1], hi[0][1], tol):
                return ("invented", {"expected": hi[:1], "got": cur}, ops)
        else:
            if cur[0] not in dd or cur[1] > dd[cur[0]] + tol * max(1.0, abs(cur[1])):
                return ("invented-below", {"expected": dd.get(cur[0]), "got": cur}, ops)
        if m.supports_block_quality():
            with watchdog():
                bq, mq = m.block_quality(), m.max_quality()
            if bq < cur[1] - tol * max(1.0, abs(cur[1])):
                return ("block_quality<score", {"at": cur, "block_quality": bq}, ops)
            if hi:
                top = max(s for _, s in hi)
                if mq < top - tol * max(1.0, abs(top)):
                    return ("max_quality<score", {"at": cur, "max_quality": mq, "best-remaining": top}, ops)
        if step == nops:
            break
        if fixed_ops is not None:
            fo = fixed_ops[step]
            k = fo[0]
        else:
            fo = None
            k = rng.choice(["next", "next", "skip", "skipq", "skipq", "replace", "replace"])
        with watchdog():
            if k == "next":
                ops.append(("next",))
                m.next()
                lo = cur[0] + 1
            elif k == "skip":
                t = fo[1] if fo else cur[0] + rng.choice([-1, 0, 1, 2, 3, 5, 8])
                ops.append(("skip", t))
                m.skip_to(t)
                lo = max(cur[0], t)
            else:
                if fo:
                    q = fo[1]
                else:
                    cand = [0.0, cur[1], cur[1], cur[1] - 0.125, cur[1] * 0.5, rng.choice(scores), max(scores), max(scores) + 1.0]
                    if m.supports_block_quality():
                        bq0 = m.block_quality()
                        if bq0 == bq0 and abs(bq0) != float("inf"):
                            cand += [bq0, bq0 + 0.125, bq0 + 0.125, bq0 * 1.5 + 0.25]
                    q = rng.choice(cand)
                    if tol:
                        q = q * rng.choice([0.999, 1.001])     # stay off floating-point ties
                if k == "skipq":
                    if not m.supports_block_quality():
                        continue
                    ops.append(("skipq", q))
                    m.skip_to_quality(q)
                else:
                    ops.append(("replace", q))
                    m = m.replace(q)
                lo = cur[0]
                thr = q if thr is None else max(thr, q)
    return None


class patched_wrapping_replace(object):
    """Temporarily give WrappingMatcher.replace the threshold scaling it lacks (used only to *classify*
    a failing case: if the failure disappears, it is the recorded boost>1 finding)."""

    def __enter__(self):
        from whoosh.matching import wrappers
        self.cls = wrappers.WrappingMatcher
        self.old = self.cls.__dict__["replace"]

        def replace(this, minquality=0):
            q = minquality / this.boost if (minquality and this.boost > 0) else 0
            r = this.child.replace(q)
            if r is not this.child:
                return this._replacement(r)
            return this
        self.cls.replace = replace

    def __exit__(self, *a):
        self.cls.replace = self.old
        return False


class ModelError(Exception):
    pass


class ModelMatcher(object):
    """The Lean model behind the matcher interface (one driver round trip per operation): lets the
    end-to-end walks run on the model.  Used to decide whether a failing walk of the real code is a
    failure of the *pinned* code (which the model mirrors) or one that only the checked tree has."""

    def __init__(self, ask1, tree_text, plan=()):
        self.ask1 = ask1
        self.tree = tree_text
        self.ops = []
        self.obs = None
        self.cache = {}
        if plan:
            # one round trip for the whole planned walk: the transcript holds the observation of every prefix
            plan = [self._norm(o) for o in plan]
            for k, o in enumerate(self._run(plan)):
                self.cache[tuple(plan[:k])] = o

    @staticmethod
    def _norm(op):
        return ("skip", max(0, op[1])) if op[0] == "skip" else tuple(op)

    def _run(self, ops):
        from vcheck import parse_sexp
        rep = self.ask1("c11 run %s (%s)" % (self.tree, " ".join(op_sexp(o) for o in ops)))
        return parse_sexp(rep)[0]

    def _observe(self):
        if self.obs is None:
            key = tuple(self.ops)
            if key not in self.cache:
                self.cache[key] = self._run(self.ops)[-1]
            last = self.cache[key]
            if last and isinstance(last[0], str) and last[0].startswith("!"):
                raise ModelError(last[0])
            self.obs = last
        return self.obs

    def _do(self, op):
        self._observe()
        self.ops.append(self._norm(op))
        self.obs = None
        self._observe()

    def is_active(self):
        return self._observe()[0] == "1"

    def _field(self, k):
        o = self._observe()
        if o[0] != "1" or o[k].startswith("!"):
            raise ModelError(o[k] if o[0] == "1" else "inactive")
        return o[k]

    def id(self):
        return int(self._field(1))

    def score(self):
        return float(Fraction(self._field(2)))

    def supports_block_quality(self):
        o = self._observe()
        return o[0] == "1" and o[3] == "1"

    def block_quality(self):
        return float(Fraction(self._field(4)))

    def max_quality(self):
        return float(Fraction(self._field(5)))

    def next(self):
        self._do(("next",))

    def skip_to(self, t):
        self._do(("skip", t))

    def skip_to_quality(self, q):
        self._do(("skipq", q))

    def replace(self, q=0):
        self._do(("replace", q))
        return self


# ------------------------------------------------------------------------------------------------
# matcher classes that are not in the Lean model (MultiMatcher, ArrayUnionMatcher): their expected list is
# composed here from the Lean lists of their sub-matchers

def gen_extra(rng):
    if rng.random() < 0.5:
        # MultiMatcher serialises the posting lists of one term over several segments: leaf sub-matchers
        # (its score() is scorer.score(self), i.e. the current sub-matcher's *weight*)
        kids = [gen_list(rng) for _ in range(rng.choice([1, 2, 3, 3, 4]))]
        offs = []
        o = 0
        for _ in kids:
            offs.append(o)
            o += NDOCS + rng.choice([0, 1, 7])
        return ("multi", offs, kids)
    kids = [gen_tree(rng, 1, list(BIN), gen_list, boosts=(1.0, 0.5)) for _ in range(rng.choice([1, 2, 3, 3, 4]))]
    return ("aunion", rng.choice([NDOCS, NDOCS, NDOCS + 6, 12]), rng.choice([1.0, 1.0, 2.0, 0.5]),
            rng.choice([1, 2, 3, 5, 8, 2048]), kids)


def compose_den(t, child_dens):
    """child_dens: [[(id, Fraction)]] in the order of the children"""
    if t[0] == "multi":
        out = []
        for off, d in zip(t[1], child_dens):
            out += [(i + off, s) for i, s in d]
        return out
    if t[0] == "aunion":
        acc = {}
        for d in child_dens:
            for i, s in d:
                if i < t[1]:
                    acc[i] = acc.get(i, 0) + s * Fraction(t[2])
        return sorted((i, s) for i, s in acc.items() if s > 0)
    raise ValueError(t[0])
