"""Generators and real-code drivers shared by the matcher family (C11, C12).

A *tree* is a nested tuple:
  ("null",) | ("list", ids, weights, scorer01) | ("term", j)            leaves
  ("union"|"dismax"|"inter"|"andnot"|"andmaybe"|"require", A, B)
  ("boost", b, A) | ("filter", ids, excl01, boost, A) | ("inverse", limit, missing, weight, A) | ("const", score, A)
("term", j) refers to posting list j of an `IndexSpec` (a real W3 posting list with small blocks).

All numbers that reach a score are dyadic rationals (weights k/4, boosts 2^k) so that Python float
arithmetic is exact and the Lean model (over Rat) can be compared with `==`.
"""
import atexit
import os
import warnings
import shutil
import tempfile
from fractions import Fraction

from vcheck import sexp

warnings.filterwarnings("ignore", category=SyntaxWarning)

BIN = ("union", "dismax", "inter", "andnot", "andmaybe", "require")
UN = ("boost", "filter", "inverse", "const")
NDOCS = 28

# ------------------------------------------------------------------------------------------------
# private temp dir per process: RamStorage.temp_storage() and the repo tests share <tmp>/MAIN.tmp

_TMP = {"pid": None, "dir": None}


def private_tmp():
    pid = os.getpid()
    if _TMP["pid"] != pid:
        base = os.environ.get("VERIF_SCRATCH") or "/tmp"
        d = tempfile.mkdtemp(prefix="wverif-m%d-" % pid, dir=base)
        _TMP["pid"], _TMP["dir"] = pid, d
        tempfile.tempdir = d
        atexit.register(shutil.rmtree, d, True)
    return _TMP["dir"]


def cleanup_tmp():
    if _TMP["pid"] == os.getpid() and _TMP["dir"]:
        shutil.rmtree(_TMP["dir"], ignore_errors=True)
        _TMP["pid"] = None
        tempfile.tempdir = None


# ------------------------------------------------------------------------------------------------
# watchdog: a matcher operation of the tree under test that does not return must end the case, not
# hang the check

class Hang(Exception):
    pass


def _alarm(signum, frame):
    raise Hang()


class watchdog(object):
    def __init__(self, seconds=10.0):
        self.seconds = seconds

    def __enter__(self):
        import signal
        self.old = signal.signal(signal.SIGALRM, _alarm)
        signal.setitimer(signal.ITIMER_REAL, self.seconds)

    def __exit__(self, *a):
        import signal
        signal.setitimer(signal.ITIMER_REAL, 0)
        signal.signal(signal.SIGALRM, self.old)
        return False


# ------------------------------------------------------------------------------------------------
# generation

def gen_ids(rng, maxid=NDOCS, sizes=(0, 1, 1, 2, 3, 4, 5, 6, 8, 10, 12)):
    n = min(rng.choice(sizes), maxid)
    style = rng.random()
    if style < 0.15 and n:            # dense run (block boundaries line up)
        lo = rng.randint(0, maxid - n)
        return list(range(lo, lo + n))
    return sorted(rng.sample(range(maxid), n))


def gen_list(rng):
    ids = gen_ids(rng)
    ws = [rng.choice([0.25, 0.5, 1.0, 1.0, 1.5, 2.0, 3.0, 4.0]) for _ in ids]
    return ("list", ids, ws, 1)


def gen_posting_list(rng):
    """(ids, freqs) for a real posting list; integer term frequencies"""
    ids = gen_ids(rng, sizes=(1, 1, 2, 3, 4, 5, 6, 8, 10, 12, 16))
    if not ids:
        ids = [rng.randrange(NDOCS)]
    style = rng.random()
    if style < 0.3:   # one strong block among weak ones
        fs = [1] * len(ids)
        k = rng.randrange(len(ids))
        fs[k] = rng.choice([4, 6, 8])
    else:
        fs = [rng.choice([1, 1, 1, 2, 2, 3, 4, 6]) for _ in ids]
    return (ids, fs)


def gen_tree(rng, depth, kinds, leaf, boosts=(0.5, 1.0, 1.0, 0.25, 2.0, 4.0)):
    """`leaf(rng)` makes a leaf tuple"""
    if depth <= 0 or rng.random() < 0.2:
        if rng.random() < 0.04:
            return ("null",)
        return leaf(rng)
    k = rng.choice(kinds)
    if k in BIN:
        a = gen_tree(rng, depth - 1, kinds, leaf, boosts)
        if rng.random() < 0.08:
            b = a           # the same list on both sides (full alignment)
        else:
            b = gen_tree(rng, depth - 1, kinds, leaf, boosts)
        return (k, a, b)
    c = gen_tree(rng, depth - 1, kinds, leaf, boosts)
    if k == "boost":
        return (k, rng.choice(boosts), c)
    if k == "filter":
        return (k, sorted(rng.sample(range(NDOCS), rng.choice([0, 1, 3, 8, 14, 27]))), rng.randint(0, 1),
                rng.choice(boosts), c)
    if k == "inverse":
        return (k, rng.choice([0, 1, 5, NDOCS, NDOCS, NDOCS + 3]), sorted(rng.sample(range(NDOCS + 3), rng.choice([0, 0, 1, 3, 6]))),
                rng.choice([1.0, 2.0, 0.5]), c)
    if k == "const":
        return (k, rng.choice([1.0, 2.0, 0.5, 3.0]), c)
    raise ValueError(k)


def tree_kinds(t, acc=None):
    acc = set() if acc is None else acc
    acc.add(t[0])
    for x in t[1:]:
        if isinstance(x, tuple) and x and isinstance(x[0], str):
            tree_kinds(x, acc)
    return acc


def tree_size(t):
    return 1 + sum(tree_size(x) for x in t[1:] if isinstance(x, tuple) and x and isinstance(x[0], str))


def max_boost(t):
    """largest boost of a boost/filter node in the tree (1 if none)"""
    b = 1.0
    if t[0] == "boost":
        b = max(b, t[1])
    if t[0] == "filter":
        b = max(b, t[3])
    for x in t[1:]:
        if isinstance(x, tuple) and x and isinstance(x[0], str):
            b = max(b, max_boost(x))
    return b


# ------------------------------------------------------------------------------------------------
# real indexes with small posting blocks

class IndexSpec(object):
    """posting lists `lists[j] = (ids, freqs)` of terms t0..tn in field `f`, `filler[d]` extra
    tokens in document d (so that field lengths differ), written with W3Codec(blocklimit)."""

    def __init__(self, lists, blocklimit, filler=None, weighting=("freq",), deleted=()):
        self.lists = lists
        self.blocklimit = blocklimit
        self.filler = filler or [0] * NDOCS
        self.weighting = weighting
        self.deleted = tuple(deleted)

    def key(self):
        return (tuple((tuple(i), tuple(f)) for i, f in self.lists), self.blocklimit, tuple(self.filler),
                self.weighting, self.deleted)


def make_weighting(w):
    from whoosh import scoring
    k = w[0]
    if k == "freq":
        return scoring.Frequency()
    if k == "tfidf":
        return scoring.TF_IDF()
    if k == "bm25":
        return scoring.BM25F(B=w[1], K1=w[2])
    if k == "dfree":
        return scoring.DFree()
    if k == "pl2":
        return scoring.PL2(c=w[1])
    if k == "reverse":
        return scoring.ReverseWeighting(make_weighting(w[1]))
    if k == "multi":
        return scoring.MultiWeighting(make_weighting(w[1]), f=make_weighting(w[2]))
    raise ValueError(w)


class RealIndex(object):
    def __init__(self, spec):
        from whoosh import fields
        from whoosh.filedb.filestore import RamStorage
        from whoosh.codec.whoosh3 import W3Codec
        private_tmp()
        self.spec = spec
        schema = fields.Schema(f=fields.KEYWORD(scorable=True))
        self.ix = RamStorage().create_index(schema)
        w = self.ix.writer(codec=W3Codec(blocklimit=spec.blocklimit))
        docs = [[] for _ in range(NDOCS)]
        for j, (ids, fs) in enumerate(spec.lists):
            for i, f in zip(ids, fs):
                docs[i] += ["t%d" % j] * int(f)
        for d, toks in enumerate(docs):
            toks = toks + ["zz"] * spec.filler[d]
            w.add_document(f=u" ".join(toks))
        w.commit()
        if spec.deleted:
            w = self.ix.writer()
            for d in spec.deleted:
                w.delete_document(d)
            w.commit(merge=False)
        self.searcher = self.ix.searcher(weighting=make_weighting(spec.weighting))

    def close(self):
        self.searcher.close()

    def leaf(self, j):
        from whoosh.reading import TermNotFound
        from whoosh.matching import NullMatcher
        s = self.searcher
        try:
            return s.postings("f", u"t%d" % j, weighting=s.weighting)
        except TermNotFound:
            return NullMatcher()

    def leaf_sexp(self, j):
        """protocol text of posting list j as the W3 reader sees it: blocks with their stored
        statistics, float32 weights, field lengths as the scorer reads them"""
        from whoosh.codec.whoosh3 import W3LeafMatcher
        from whoosh.matching import FilterMatcher, NullMatcherClass
        s = self.searcher
        m = self.leaf(j)
        if isinstance(m, NullMatcherClass):
            return "(null)"
        wrap = None
        if isinstance(m, FilterMatcher):
            wrap = m
            m = m.child
        if not isinstance(m, W3LeafMatcher):
            raise Exception("unexpected leaf class %r" % m.__class__)
        blocks = []
        while True:
            m._read_ids()
            m._read_weights()
            ps = []
            for i in range(m._blocklength):
                d = m._ids[i]
                ps.append("(%d %s %d)" % (d, sexp(float(m._weights[i])), s.doc_field_length(d, "f", 1)))
            blocks.append("(blk %d %s %d %s)" % (m._maxid, sexp(float(m._maxweight)), m._minlength, " ".join(ps)))
            if m._lastblock:
                break
            m._next_block()
        ti = s.term_info("f", u"t%d" % j)
        text = "(leaf %s %s %d %s)" % (self.scorer_sexp(j), sexp(float(ti.max_weight())), ti.min_length(), " ".join(blocks))
        if wrap is not None:
            text = "(filter %s 1 1 %s)" % (sexp(sorted(wrap._ids)), text)
        return text

    def scorer_sexp(self, j):
        w = self.spec.weighting
        s = self.searcher
        if w[0] == "freq":
            return "freq"
        sc = s.weighting.scorer(s, "f", u"t%d" % j)
        if w[0] == "tfidf":
            return "(tfidf %s)" % sexp(float(sc.idf))
        if w[0] == "bm25":
            return "(bm25 %s %s %s %s)" % (sexp(float(sc.idf)), sexp(float(sc.avgfl)), sexp(float(sc.B)), sexp(float(sc.K1)))
        raise ValueError("weighting %r has no Lean scorer" % (w,))


def gen_index_spec(rng, nlists, weighting=("freq",), blocklimits=(1, 2, 2, 3, 4), deleted=False):
    lists = [gen_posting_list(rng) for _ in range(nlists)]
    filler = [rng.choice([0, 0, 1, 2, 5, 9]) for _ in range(NDOCS)]
    dele = sorted(rng.sample(range(NDOCS), rng.choice([1, 2, 5]))) if deleted else ()
    return IndexSpec(lists, rng.choice(blocklimits), filler, weighting, dele)


# ------------------------------------------------------------------------------------------------
# building the real matcher / the protocol text

def build_real(t, rix=None):
    from whoosh import matching as M
    from whoosh.scoring import WeightScorer
    k = t[0]
    if k == "null":
        return M.NullMatcher()
    if k == "list":
        ids, ws, sc = t[1], t[2], t[3]
        return M.ListMatcher(list(ids), list(ws), scorer=WeightScorer(max(ws) if ws else 0.0) if sc else None)
    if k == "term":
        return rix.leaf(t[1])
    if k == "union":
        return M.UnionMatcher(build_real(t[1], rix), build_real(t[2], rix))
    if k == "dismax":
        return M.DisjunctionMaxMatcher(build_real(t[1], rix), build_real(t[2], rix))
    if k == "inter":
        return M.IntersectionMatcher(build_real(t[1], rix), build_real(t[2], rix))
    if k == "andnot":
        return M.AndNotMatcher(build_real(t[1], rix), build_real(t[2], rix))
    if k == "andmaybe":
        return M.AndMaybeMatcher(build_real(t[1], rix), build_real(t[2], rix))
    if k == "require":
        return M.RequireMatcher(build_real(t[1], rix), build_real(t[2], rix))
    if k == "boost":
        return M.WrappingMatcher(build_real(t[2], rix), boost=t[1])
    if k == "filter":
        return M.FilterMatcher(build_real(t[4], rix), frozenset(t[1]), exclude=bool(t[2]), boost=t[3])
    if k == "inverse":
        miss = frozenset(t[2])
        return M.InverseMatcher(build_real(t[4], rix), t[1], missing=lambda i: i in miss, weight=t[3])
    if k == "const":
        return M.ConstantScoreWrapperMatcher(build_real(t[2], rix), score=t[1])
    if k == "multi":       # ("multi", offsets, [children])  -- not in the Lean model (end-to-end only)
        from whoosh.scoring import WeightScorer as WS
        return M.MultiMatcher([build_real(c, rix) for c in t[2]], list(t[1]), WS(1.0))
    if k == "aunion":      # ("aunion", doccount, boost, partsize, [children])  -- end-to-end only
        return M.ArrayUnionMatcher([build_real(c, rix) for c in t[4]], t[1], boost=t[2], partsize=t[3])
    raise ValueError(k)


def tree_sexp(t, rix=None):
    k = t[0]
    if k == "null":
        return "(null)"
    if k == "list":
        return "(list %s %s %d)" % (sexp(list(t[1])), sexp([float(w) for w in t[2]]), t[3])
    if k == "term":
        return rix.leaf_sexp(t[1])
    if k in BIN:
        return "(%s %s %s)" % (k, tree_sexp(t[1], rix), tree_sexp(t[2], rix))
    if k == "boost":
        return "(boost %s %s)" % (sexp(float(t[1])), tree_sexp(t[2], rix))
    if k == "filter":
        return "(filter %s %d %s %s)" % (sexp(list(t[1])), t[2], sexp(float(t[3])), tree_sexp(t[4], rix))
    if k == "inverse":
        return "(inverse %d %s %s %s)" % (t[1], sexp(list(t[2])), sexp(float(t[3])), tree_sexp(t[4], rix))
    if k == "const":
        return "(const %s %s)" % (sexp(float(t[1])), tree_sexp(t[2], rix))
    raise ValueError(k)


# ------------------------------------------------------------------------------------------------
# observing the real matcher

ERR = {"ReadTooFar": "ReadTooFar", "IndexError": "IndexError", "AssertionError": "AssertionError",
       "NotImplementedError": "NotImplementedError", "ValueError": "ValueError",
       "ZeroDivisionError": "ZeroDivisionError", "AttributeError": "AttributeError", "Exception": "Exception"}


def err_name(e):
    return "!" + ERR.get(type(e).__name__, "Other:" + type(e).__name__)


def num(x):
    """exact rational text of a Python number"""
    if isinstance(x, bool):
        return str(int(x))
    if isinstance(x, int):
        return str(x)
    if x != x or x in (float("inf"), float("-inf")):
        return "inf" if x > 0 else ("-inf" if x < 0 else "nan")
    fr = Fraction(x)
    return "%d/%d" % (fr.numerator, fr.denominator) if fr.denominator != 1 else "%d" % fr.numerator


def guarded(fn, conv=num):
    try:
        return conv(fn())
    except Exception as e:  # noqa
        return err_name(e)


def observe(m):
    """what is compared after every operation.  On an exhausted matcher only the flag: whoosh gives
    no meaning to reads there (they return stale memo values or raise, depending on history)."""
    if not m.is_active():
        return "(0)"
    sup = bool(m.supports_block_quality())
    return "(%d %s %s %d %s %s)" % (
        1 if m.is_active() else 0, guarded(m.id), guarded(m.score), 1 if sup else 0,
        guarded(m.block_quality) if sup else "-", guarded(m.max_quality) if sup else "-")


def observe_reshaped(m, q):
    if m.is_active():
        try:
            s = m.score()
            if s > q:
                return "(R 1 %s %s)" % (num(m.id()), num(s))
        except Exception as e:  # noqa
            return "(R %s)" % err_name(e)
    return "(R)"


def op_sexp(op):
    return op[0] if len(op) == 1 else "(%s %s)" % (op[0], num(op[1]) if op[0] in ("skipq", "replace", "replace!") else op[1])


def apply_real(m, regs, op):
    """returns the new current matcher; raises what the matcher raises"""
    k = op[0]
    if k == "next":
        m.next()
    elif k == "skip":
        m.skip_to(op[1])
    elif k == "skipq":
        m.skip_to_quality(op[1])
    elif k == "replace":
        m = m.replace(op[1])
    elif k == "reset":
        m.reset()
    elif k == "copy":
        regs[op[1]] = m.copy()
    elif k == "swap":
        if op[1] in regs:
            other = regs[op[1]]
            regs[op[1]] = m
            m = other
    else:
        raise ValueError(op)
    return m


def thresholds(rng, m, scores):
    cand = [0.0, 0.0]
    try:
        if m.is_active():
            s = m.score()
            cand += [s, s, s - 0.25, s + 0.25, s / 2]
    except Exception:  # noqa
        pass
    try:
        # just above / at the current block quality: the smallest thresholds at which the skip loops engage
        if m.is_active() and m.supports_block_quality():
            bq = m.block_quality()
            mq = m.max_quality()
            if bq == bq and abs(bq) != float("inf"):
                cand += [bq, bq + 0.125, bq + 0.125, bq + 1.0]
            if mq == mq and abs(mq) != float("inf"):
                cand += [mq - 0.125, mq]
    except Exception:  # noqa
        pass
    if scores:
        cand += [rng.choice(scores), rng.choice(scores) - 0.125, max(scores), max(scores) + 1.0]
    cand += [-1.0, 0.5]
    if rng.random() < 0.05:
        return 1000.0
    return rng.choice(cand)


def run_program(rng, m, nops, scores, allow_copy, error_stream=False, quality=True, maxid=NDOCS + 4, qbias=1):
    """Generate a program adaptively while executing it on the real matcher.  Returns (ops, transcript).
    Mostly valid: operations that raise on an exhausted matcher are only issued in the error stream."""
    regs = {}
    ops, out = [], [observe(m)]
    for _ in range(nops):
        active = m.is_active()
        choices = []
        if active or error_stream:
            choices += ["next"] * 6 + ["skip"] * 4
            if quality and m.supports_block_quality():
                choices += ["skipq"] * (3 * qbias)
        choices += ["replace"] * ((3 * qbias) if quality else 1) + ["reset"]
        if allow_copy:
            choices += ["copy", "swap"]
        k = rng.choice(choices)
        if not active and not error_stream:
            # an exhausted matcher: rewind (mostly), switch to a copy, or end the program - do not burn the
            # remaining operations on calls that cannot move
            r = rng.random()
            if r < 0.55:
                k = "reset"
            elif r < 0.70 and allow_copy:
                k = "swap"
            elif r < 0.80:
                k = "replace"
            else:
                break
        if k == "skip":
            cur = None
            try:
                cur = m.id() if active else None
            except Exception:  # noqa
                pass
            base = cur if cur is not None else rng.randrange(maxid)
            op = ("skip", max(0, base + rng.choice([-2, -1, 0, 1, 1, 2, 3, 4, 6, 9, 40])))
        elif k == "skipq":
            op = ("skipq", thresholds(rng, m, scores))
        elif k == "replace":
            # half of the replace() calls of the cursor streams carry no threshold: a reshaping replace(q != 0)
            # ends the textual comparison of the program (see below)
            op = ("replace", thresholds(rng, m, scores) if (quality and (qbias > 1 or rng.random() < 0.5)) else 0)
        elif k in ("copy", "swap"):
            op = (k, rng.randint(0, 2))
        else:
            op = (k,)
        ops.append(op)
        before = m
        try:
            with watchdog():
                m = apply_real(m, regs, op)
        except Hang:
            out.append("(!HANG)")
            break
        except Exception as e:  # noqa
            out.append("(%s)" % err_name(e))
            break
        if op[0] == "replace" and op[1] and m is not before:
            # A reshaping replace(q != 0).  The shape of the replacement is deliberately not compared (DESIGN
            # Appendix F): it depends on object sharing between a matcher and its replacement, which the
            # value-level model does not have (AndMaybeMatcher.replace reads a.max_quality() after a.replace()
            # has advanced the sub-matchers it shares with the new matcher).  What must agree is the entry the
            # replacement is on, if it scores above the threshold; the comparison of this program ends here
            # (the end-to-end walks continue through such replacements with the semantic check).
            ops[-1] = ("replace!", op[1])
            out.append(observe_reshaped(m, op[1]))
            break
        out.append(observe(m))
    return ops, out


def drain(m, limit=10000):
    """step the real matcher to its end: [(id, score)]"""
    out = []
    while m.is_active():
        out.append((m.id(), m.score()))
        m.next()
        if len(out) > limit:
            raise RuntimeError("matcher does not terminate")
    return out


def parse_den(text):
    """`((id score) ...)` from the driver -> [(id, Fraction)]"""
    from vcheck import parse_sexp
    res = []
    for e in parse_sexp(text)[0]:
        res.append((int(e[0]), Fraction(e[1])))
    return res


# ------------------------------------------------------------------------------------------------
# end-to-end walks: the real matcher against an expected result list

def approx_eq(a, b, tol):
    if tol == 0:
        return a == b
    return abs(a - b) <= tol * max(1.0, abs(a), abs(b))


def same_entries(got, exp, tol):
    return len(got) == len(exp) and all(g[0] == e[0] and approx_eq(g[1], e[1], tol) for g, e in zip(got, exp))


def e2e_cursor(rng, build, den, allow_copy, tol=0):
    """C11 on the real object: `build()` makes a fresh real matcher, `den` is the expected complete
    list [(id, score)].  Returns None or (signature, detail)."""
    ids = [i for i, _ in den]
    # stepping
    with watchdog():
        got = drain(build())
    if not same_entries(got, den, tol):
        return ("next-until-done differs from the expected list", {"expected": den, "got": got})
    # all_ids on a fresh matcher
    with watchdog():
        got = list(build().all_ids())
    if got != ids:
        return ("all_ids() differs from stepping", {"expected": ids, "got": got})
    # skip_to from the start
    targets = sorted(set([0] + ids + [i + 1 for i in ids]))
    for t in rng.sample(targets, min(len(targets), 6)):
        m = build()
        if not m.is_active():
            break
        with watchdog():
            m.skip_to(t)
            got = drain(m)
        exp = [e for e in den if e[0] >= t]
        if t <= ids[0]:
            exp = den
        if not same_entries(got, exp, tol):
            return ("skip_to(t) does not land on the first id >= t", {"t": t, "expected": exp, "got": got})
    # random walk: reads depend only on the position; skip_to backwards does not move; copy; reset; replace(0)
    m = build()
    pos = 0
    replaced = False
    for _ in range(rng.randint(0, len(den) + 2)):
        if not m.is_active():
            break
        if m.id() != den[pos][0] or not approx_eq(m.score(), den[pos][1], tol):
            return ("id()/score() depend on the path", {"pos": pos, "expected": den[pos], "got": (m.id(), m.score())})
        k = rng.random()
        with watchdog():
            if k < 0.45:
                m.next()
                pos += 1
            elif k < 0.75:
                t = den[pos][0] + rng.choice([-3, -1, 0, 1, 2, 5])
                m.skip_to(t)
                while pos < len(den) and den[pos][0] < t:
                    pos += 1
            elif k < 0.85:
                m = m.replace(0)
                replaced = True
            elif k < 0.93 and allow_copy:
                try:
                    c = m.copy()
                except NotImplementedError:
                    return ("copy() raises !NotImplementedError", {})
                if c.is_active():
                    c.next()
                    if c.is_active() and rng.random() < 0.5:
                        c.skip_to(c.id() + 3)
            else:
                if m.supports_block_quality() and all(s > 0 for _, s in den):
                    m.skip_to_quality(0)
    if m.is_active() != (pos < len(den)):
        return ("is_active() wrong after a walk", {"pos": pos, "expected": pos < len(den)})
    with watchdog():
        rest = drain(m)
    if not same_entries(rest, den[pos:], tol):
        return ("remaining list depends on the path", {"pos": pos, "expected": den[pos:], "got": rest})
    if replaced:
        # documented: reset() on the result of replace() rewinds the optimised replacement, which may
        # have shed exhausted sub-matchers
        return None
    with watchdog():
        try:
            m.reset()
        except NotImplementedError:
            return ("reset() raises !NotImplementedError", {})
        got = drain(m)
    if not same_entries(got, den, tol):
        return ("reset() does not return to the start", {"expected": den, "got": got})
    return None


def e2e_quality(rng, m, den, tol=0, nops=14, scores=None, fixed_ops=None):
    """C12 on the real object: walk `m` (fresh, expected list `den`) with next/skip_to/skip_to_quality/replace.
    After every step: the entry read is an expected one; block_quality >= score; max_quality >= every
    remaining expected score above the largest threshold used; nothing scoring above the largest
    threshold so far has been lost or invented.  Returns None or (kind, detail, ops)."""
    thr = None
    lo = 0
    ops = []
    dd = dict(den)
    scores = scores or [s for _, s in den] or [1.0]

    def above(e):
        return thr is None or e[1] > thr + tol * max(1.0, abs(thr))

    if fixed_ops is not None:
        nops = len(fixed_ops)
    for step in range(nops + 1):
        hi = [e for e in den if e[0] >= lo and above(e)]
        with watchdog():
            act = m.is_active()
            cur = (m.id(), m.score()) if act else None
        if not act:
            if hi:
                return ("lost", {"expected": hi[0], "got": "exhausted"}, ops)
            return None
        if cur[0] < lo:
            return ("moved-backwards", {"lo": lo, "got": cur}, ops)
        if hi and cur[0] > hi[0][0]:
            return ("lost", {"expected": hi[0], "got": cur}, ops)
        if above(cur):
            if not hi or cur[0] != hi[0][0] or not approx_eq(cur[1], hi[0][1], tol):
                return ("invented", {"expected": hi[:1], "got": cur}, ops)
        else:
            if cur[0] not in dd or cur[1] > dd[cur[0]] + tol * max(1.0, abs(cur[1])):
                return ("invented-below", {"expected": dd.get(cur[0]), "got": cur}, ops)
        if m.supports_block_quality():
            with watchdog():
                bq, mq = m.block_quality(), m.max_quality()
            if bq < cur[1] - tol * max(1.0, abs(cur[1])):
                return ("block_quality<score", {"at": cur, "block_quality": bq}, ops)
            if hi:
                top = max(s for _, s in hi)
                if mq < top - tol * max(1.0, abs(top)):
                    return ("max_quality<score", {"at": cur, "max_quality": mq, "best-remaining": top}, ops)
        if step == nops:
            break
        if fixed_ops is not None:
            fo = fixed_ops[step]
            k = fo[0]
        else:
            fo = None
            k = rng.choice(["next", "next", "skip", "skipq", "skipq", "replace", "replace"])
        with watchdog():
            if k == "next":
                ops.append(("next",))
                m.next()
                lo = cur[0] + 1
            elif k == "skip":
                t = fo[1] if fo else cur[0] + rng.choice([-1, 0, 1, 2, 3, 5, 8])
                ops.append(("skip", t))
                m.skip_to(t)
                lo = max(cur[0], t)
            else:
                if fo:
                    q = fo[1]
                else:
                    cand = [0.0, cur[1], cur[1], cur[1] - 0.125, cur[1] * 0.5, rng.choice(scores), max(scores), max(scores) + 1.0]
                    if m.supports_block_quality():
                        bq0 = m.block_quality()
                        if bq0 == bq0 and abs(bq0) != float("inf"):
                            cand += [bq0, bq0 + 0.125, bq0 + 0.125, bq0 * 1.5 + 0.25]
                    q = rng.choice(cand)
                    if tol:
                        q = q * rng.choice([0.999, 1.001])     # stay off floating-point ties
                if k == "skipq":
                    if not m.supports_block_quality():
                        continue
                    ops.append(("skipq", q))
                    m.skip_to_quality(q)
                else:
                    ops.append(("replace", q))
                    m = m.replace(q)
                lo = cur[0]
                thr = q if thr is None else max(thr, q)
    return None


class patched_wrapping_replace(object):
    """Temporarily give WrappingMatcher.replace the threshold scaling it lacks (used only to *classify*
    a failing case: if the failure disappears, it is the recorded boost>1 finding)."""

    def __enter__(self):
        from whoosh.matching import wrappers
        self.cls = wrappers.WrappingMatcher
        self.old = self.cls.__dict__["replace"]

        def replace(this, minquality=0):
            q = minquality / this.boost if (minquality and this.boost > 0) else 0
            r = this.child.replace(q)
            if r is not this.child:
                return this._replacement(r)
            return this
        self.cls.replace = replace

    def __exit__(self, *a):
        self.cls.replace = self.old
        return False


# ------------------------------------------------------------------------------------------------
# matcher classes that are not in the Lean model (MultiMatcher, ArrayUnionMatcher): their expected list is
# composed here from the Lean lists of their sub-matchers

def gen_extra(rng):
    if rng.random() < 0.5:
        # MultiMatcher serialises the posting lists of one term over several segments: leaf sub-matchers
        # (its score() is scorer.score(self), i.e. the current sub-matcher's *weight*)
        kids = [gen_list(rng) for _ in range(rng.choice([1, 2, 3, 3, 4]))]
        offs = []
        o = 0
        for _ in kids:
            offs.append(o)
            o += NDOCS + rng.choice([0, 1, 7])
        return ("multi", offs, kids)
    kids = [gen_tree(rng, 1, list(BIN), gen_list, boosts=(1.0, 0.5)) for _ in range(rng.choice([1, 2, 3, 3, 4]))]
    return ("aunion", rng.choice([NDOCS, NDOCS, NDOCS + 6, 12]), rng.choice([1.0, 1.0, 2.0, 0.5]),
            rng.choice([1, 2, 3, 5, 8, 2048]), kids)


def compose_den(t, child_dens):
    """child_dens: [[(id, Fraction)]] in the order of the children"""
    if t[0] == "multi":
        out = []
        for off, d in zip(t[1], child_dens):
            out += [(i + off, s) for i, s in d]
        return out
    if t[0] == "aunion":
        acc = {}
        for d in child_dens:
            for i, s in d:
                if i < t[1]:
                    acc[i] = acc.get(i, 0) + s * Fraction(t[2])
        return sorted((i, s) for i, s in acc.items() if s > 0)
    raise ValueError(t[0])
