"""Generators and real-code runners for C13 (numeric / date fields).

Everything here is deterministic given the seeds passed in; worker functions are top-level so that
`ctx.pmap` can ship them to forked processes (whoosh is imported lazily inside them, from the tree
vcheck put first on sys.path).
"""
import datetime
import itertools
import os
import random
import struct
from decimal import Decimal

# ------------------------------------------------------------------------------------------------
# small helpers

_ixcount = itertools.count()


def new_ram_index(schema):
    """RamStorage index with a process-unique index name: `RamStorage.temp_storage` puts the writer's
    scratch directory at <tmp>/<indexname>.tmp, so equally named indexes of concurrent processes
    destroy each other's scratch files (not this property's business)."""
    from whoosh.filedb.filestore import RamStorage
    return RamStorage().create_index(schema, indexname="c13p%dn%d" % (os.getpid(), next(_ixcount)))


def f2b(x):
    """Python float -> its 64-bit pattern (big-endian double read as unsigned int)."""
    return struct.unpack(">Q", struct.pack(">d", x))[0]


def b2f(b):
    return struct.unpack(">d", struct.pack(">Q", b))[0]


def fmt_ranges(rs):
    """Canonical text of a range list: what a consumer sees after shifting both bounds (the low
    `shift` bits of the emitted bounds are not observable)."""
    return "(" + " ".join("(%d %d %d)" % (a >> sh, b >> sh, sh) if sh >= 0 else "(%d %d %d)" % (a, b, sh)
                          for a, b, sh in rs) + ")"


def exc_name(e):
    if isinstance(e, struct.error):
        return "struct.error"
    return type(e).__name__


def coverage_ok(n, step, s, e, rs):
    """Spec of split_ranges as a pure function: the shifted comparisons of the emitted ranges accept
    exactly [s, e]; every range sits on an indexed level and inside the n-bit domain."""
    ivs = []
    shape = True
    for a, b, sh in rs:
        if step and (sh % step != 0):
            shape = False
        if not (0 <= sh < n and 0 <= a <= b < (1 << n)):
            shape = False
        if sh < 0:
            return False, False
        lo, hi = a >> sh, b >> sh
        if lo <= hi:
            ivs.append((lo << sh, (hi << sh) | ((1 << sh) - 1)))
    ivs.sort()
    if s > e:
        return (not ivs), shape
    if not ivs:
        return False, shape
    cur_lo, cur_hi = ivs[0]
    for lo, hi in ivs[1:]:
        if lo > cur_hi + 1:
            return False, shape
        cur_hi = max(cur_hi, hi)
    return (cur_lo == s and cur_hi == e), shape


# ------------------------------------------------------------------------------------------------
# correspondence workers: split_ranges

def w_split8(item):
    """All e >= s for one (step, s) over 8 bits: returns [(e, ranges-text, cover_ok, shape_ok, nranges)]."""
    from whoosh.util.numeric import split_ranges
    step, s = item
    out = []
    for e in range(s, 256):
        try:
            rs = list(split_ranges(8, step, s, e))
            cov, shape = coverage_ok(8, step, s, e, rs)
            out.append((e, fmt_ranges(rs), cov, shape, len(rs)))
        except Exception as ex:  # noqa
            out.append((e, "exc " + exc_name(ex), False, False, 0))
    return out


def w_split_wide(items):
    from whoosh.util.numeric import split_ranges
    out = []
    for n, step, s, e in items:
        try:
            rs = list(split_ranges(n, step, s, e))
            cov, shape = coverage_ok(n, step, s, e, rs)
            out.append((fmt_ranges(rs), cov, shape, len(rs)))
        except Exception as ex:  # noqa
            out.append(("exc " + exc_name(ex), False, False, 0))
    return out


def boundary_ints(rng, n, k):
    """k boundary-biased values in [0, 2^n)."""
    top = (1 << n) - 1
    res = []
    for _ in range(k):
        r = rng.random()
        if r < 0.15:
            v = rng.choice([0, 1, 2, top, top - 1, top - 2, 1 << (n - 1), (1 << (n - 1)) - 1, (1 << (n - 1)) + 1])
        elif r < 0.6:
            p = rng.randint(0, n)
            v = (1 << p) * rng.randint(1, 17) + rng.choice([-2, -1, 0, 0, 1, 2])
        elif r < 0.8:
            # a few set high bits, low bits all ones or all zeros: carry/borrow corners of the masks
            p = rng.randint(0, n - 1)
            v = (rng.getrandbits(n) >> p) << p
            if rng.random() < 0.5:
                v |= (1 << p) - 1
        else:
            v = rng.getrandbits(rng.randint(1, n))
        res.append(max(0, min(top, v)))
    return res


def gen_split_wide(rng, count):
    items = []
    for _ in range(count):
        n = rng.choice([16, 32, 64, 64, 32, 8, 5, 12, 24, 1, 2, 3])
        step = rng.choice([1, 2, 3, 4, 4, 5, 6, 7, 8, 8, 9, 16, n, n + 3])
        a, b = boundary_ints(rng, n, 2)
        if rng.random() < 0.3:
            # both ends in or around the same low-level bucket
            w = 1 << rng.randint(0, min(n, 2 * step))
            b = min((1 << n) - 1, a + rng.randint(0, w))
        if a > b:
            a, b = b, a
        items.append((n, step, a, b))
    return items


# ------------------------------------------------------------------------------------------------
# field configurations

INT_BITS = [8, 16, 32, 64]


def field_of(cfg):
    """cfg = dict(kind, bits, signed, step, sortable, dc) -> whoosh field object."""
    from whoosh import fields
    k = cfg["kind"]
    if k == "int":
        return fields.NUMERIC(int, cfg["bits"], signed=cfg["signed"], shift_step=cfg["step"],
                              sortable=cfg["sortable"])
    if k == "float":
        # `bits` is ignored for floats (always 64): passed anyway, it must stay without effect
        return fields.NUMERIC(float, cfg.get("ctor_bits", 32), signed=cfg["signed"], shift_step=cfg["step"],
                              sortable=cfg["sortable"])
    if k == "decimal":
        return fields.NUMERIC(Decimal, cfg["bits"], signed=cfg["signed"], shift_step=cfg["step"],
                              decimal_places=cfg["dc"], sortable=cfg["sortable"])
    if k == "datetime":
        return fields.DATETIME(sortable=cfg["sortable"])
    raise ValueError(k)


def int_domain(cfg):
    n = cfg["bits"]
    if cfg["signed"]:
        return -(1 << (n - 1)), (1 << (n - 1)) - 1
    return 0, (1 << n) - 1


def gen_int_values(rng, lo, hi, k, step=4):
    res = []
    span = hi - lo
    for _ in range(k):
        r = rng.random()
        if r < 0.2:
            v = rng.choice([lo, lo + 1, lo + 2, hi, hi - 1, hi - 2, 0, 1, -1, 2])
        elif r < 0.55:
            p = rng.randint(0, max(1, span.bit_length() - 1))
            v = lo + (1 << p) * rng.randint(0, 17) + rng.choice([-2, -1, 0, 0, 1, 2])
        elif r < 0.75:
            p = rng.randint(0, max(1, span.bit_length() - 1))
            v = rng.choice([-1, 1]) * ((1 << p) + rng.choice([-1, 0, 1]))
        else:
            v = rng.randint(lo, hi)
        res.append(max(lo, min(hi, v)))
    return res


FLOAT_SPECIALS = [0.0, -0.0, 5e-324, -5e-324, 2.2250738585072014e-308, -2.2250738585072014e-308,
                  2.225073858507201e-308, 1.0, -1.0, 1.0000000000000002, 0.9999999999999999,
                  1.7976931348623157e308, -1.7976931348623157e308, float("inf"), float("-inf"),
                  0.5, 2.0, 3.0, -3.0, 1e-300, 1e300, 123456.789, -123456.789]


def gen_float_values(rng, k, signed=True):
    res = []
    for _ in range(k):
        r = rng.random()
        if r < 0.4:
            v = rng.choice(FLOAT_SPECIALS)
        elif r < 0.7:
            # neighbours in pattern space of a special value
            b = f2b(rng.choice(FLOAT_SPECIALS))
            b = (b + rng.choice([-2, -1, 1, 2])) % (1 << 64)
            v = b2f(b)
        else:
            v = rng.choice([-1, 1]) * rng.random() * 10 ** rng.randint(-20, 20)
        if v != v:  # NaN: outside the property's domain
            v = 0.0
        if not signed:
            if f2b(v) >> 63:
                v = -v
        res.append(v)
    return res


DT_MIN = datetime.datetime.min
DT_MAX = datetime.datetime.max


def dt_long(dt):
    td = dt - DT_MIN
    return (td.days * 86400 + td.seconds) * 1000000 + td.microseconds


def gen_datetimes(rng, k):
    total = dt_long(DT_MAX)
    res = []
    for _ in range(k):
        r = rng.random()
        if r < 0.15:
            x = rng.choice([0, 1, 2, total, total - 1, 86400000000 - 1, 86400000000, 86400000000 + 1,
                            999999, 1000000, 1000001])
        elif r < 0.5:
            p = rng.randint(0, 58)
            x = (1 << p) * rng.randint(1, 9) + rng.choice([-1, 0, 1])
        elif r < 0.7:
            x = rng.randint(0, 3000) * 86400000000 * 100 + rng.choice([-1, 0, 1])
        else:
            x = rng.randint(0, total)
        x = max(0, min(total, x))
        res.append(DT_MIN + datetime.timedelta(microseconds=x % 1000000, seconds=(x // 1000000) % 86400,
                                               days=x // 86400000000))
    return res


def gen_config(rng):
    r = rng.random()
    step = rng.choice([0, 1, 2, 3, 4, 4, 4, 5, 6, 7, 8, 8])
    if rng.random() < 0.12:
        # steps beyond the documented 1..8: the constructor accepts any, a step >= bits means one tier
        step = rng.choice([9, 12, 16, 31, 32, 33, 63, 64, 100])
    sortable = rng.random() < 0.5
    if r < 0.55:
        return {"kind": "int", "bits": rng.choice([8, 8, 16, 32, 64]), "signed": rng.random() < 0.5,
                "step": step, "sortable": sortable, "dc": 0}
    if r < 0.75:
        # sortable float columns are a separate, recorded defect (probed on its own)
        return {"kind": "float", "bits": 64, "signed": rng.random() < 0.6, "step": step, "sortable": False,
                "dc": 0, "ctor_bits": rng.choice([8, 16, 32, 64])}
    if r < 0.88:
        return {"kind": "decimal", "bits": rng.choice([8, 16, 32, 64]), "signed": rng.random() < 0.6,
                "step": step, "sortable": sortable, "dc": rng.choice([1, 2, 3, 5])}
    return {"kind": "datetime", "bits": 64, "signed": True, "step": 8, "sortable": sortable, "dc": 0}


# values travel to the Lean spec in "spec space": ints as themselves, floats as patterns, decimals as
# scaled ints, datetimes as microsecond counts (computed here, independently of whoosh)

def to_spec(cfg, v):
    k = cfg["kind"]
    if v is None:
        return None
    if k == "int":
        return int(v)
    if k == "float":
        return f2b(v)
    if k == "decimal":
        # a value with at most dc places is its scaled integer; a range *bound* with more places is
        # prepared by truncation towards zero (exact behaviour: theorem range_query_decimal)
        m = v * (10 ** cfg["dc"])
        return int(m)
    if k == "datetime":
        return dt_long(v)


def gen_values(rng, cfg, k):
    kind = cfg["kind"]
    if kind == "int":
        lo, hi = int_domain(cfg)
        if cfg["bits"] == 8 and rng.random() < 0.5:
            vals = list(range(lo, hi + 1))
            rng.shuffle(vals)
            return vals
        return gen_int_values(rng, lo, hi, k, cfg["step"])
    if kind == "float":
        return gen_float_values(rng, k, cfg["signed"])
    if kind == "decimal":
        lo, hi = int_domain(cfg)
        return [Decimal(m).scaleb(-cfg["dc"]) for m in gen_int_values(rng, lo, hi, k)]
    if kind == "datetime":
        return gen_datetimes(rng, k)


def neighbour(rng, cfg, v):
    """A value next to v in the field's order (may leave the domain for ints: clipped by caller)."""
    kind = cfg["kind"]
    d = rng.choice([-1, 1])
    if kind == "int":
        return v + d
    if kind == "float":
        b = f2b(v)
        nb = b + d
        if nb < 0 or nb >= (1 << 64):
            return v
        x = b2f(nb)
        return v if x != x else x
    if kind == "decimal":
        return v + Decimal(d).scaleb(-cfg["dc"])
    if kind == "datetime":
        try:
            return v + datetime.timedelta(microseconds=d)
        except OverflowError:
            return v


def in_domain(cfg, v):
    kind = cfg["kind"]
    if kind in ("int", "decimal"):
        lo, hi = int_domain(cfg)
        m = to_spec(cfg, v)
        return lo <= m <= hi
    if kind == "float":
        return cfg["signed"] or not (f2b(v) >> 63)
    return True


def gen_interval(rng, cfg, flat):
    """(start, end, startexcl, endexcl) biased to indexed values, their neighbours, domain limits."""
    def end():
        r = rng.random()
        if r < 0.15:
            return None
        if r < 0.6 and flat:
            v = rng.choice(flat)
        else:
            v = gen_values(rng, cfg, 1)[0]
        if rng.random() < 0.3:
            w = neighbour(rng, cfg, v)
            if in_domain(cfg, w):
                v = w
        if cfg["kind"] == "decimal" and rng.random() < 0.15:
            # more places than the field keeps (either direction; still inside the domain after truncation)
            extra = rng.choice([1, 2])
            w = v + Decimal(rng.randint(1, 10 ** extra - 1)).scaleb(-cfg["dc"] - extra) * rng.choice([-1, 1])
            if in_domain(cfg, w):
                v = w
        return v
    a, b = end(), end()
    if a is not None and b is not None and rng.random() < 0.85:
        if to_spec_key(cfg, a) > to_spec_key(cfg, b):
            a, b = b, a
    if a is not None and rng.random() < 0.12:
        # bounds that compare equal as Python numbers: the same value, or (floats) its twin with a
        # different encoding (the two zeros), in both orders
        a, b = twin_bounds(rng, cfg, a)
        return a, b, rng.random() < 0.25, rng.random() < 0.25
    return a, b, rng.random() < 0.4, rng.random() < 0.4


def twin_bounds(rng, cfg, v):
    """(start, end) that are equal under Python's `==`: (v, v), or for a float field in half of the cases
    the two zeros (the only doubles that are == with different sortable encodings), in either order."""
    if cfg["kind"] == "float" and (v == 0 or rng.random() < 0.5):
        z = [0.0, -0.0] if cfg["signed"] else [0.0, 0.0]
        if rng.random() < 0.5:
            z.reverse()
        return z[0], z[1]
    return v, v


def to_spec_key(cfg, v):
    """Sort key in Python that agrees with the spec order (totalOrder for floats)."""
    if cfg["kind"] == "float":
        b = f2b(v)
        return (b ^ (1 << 63)) if not (b >> 63) else ((1 << 64) - 1 - b)
    return to_spec(cfg, v)


# ------------------------------------------------------------------------------------------------
# end-to-end worker: real index, real searches

def run_index_case(case):
    """case = dict(cfg, docs=[[v,...],...], queries=[(start,end,sx,ex),...], sort=bool, parser=bool)
    Returns dict(ranges=[observed doc positions or 'exc Name'], sort=[...], rsort=[...], parsed=[...],
    roundtrip=[...])."""
    from whoosh import fields, query
    cfg = case["cfg"]
    out = {"ranges": [], "sort": None, "rsort": None, "parsed": [], "build": None, "roundtrip": []}
    try:
        fld = field_of(cfg)
        schema = fields.Schema(pos=fields.STORED, v=fld)
        ix = new_ram_index(schema)
        docs = case["docs"]
        nseg = case.get("segments", 1)
        per = max(1, (len(docs) + nseg - 1) // nseg)
        for base in range(0, len(docs), per):
            w = ix.writer()
            for i in range(base, min(len(docs), base + per)):
                vs = docs[i]
                w.add_document(pos=i, v=(vs[0] if len(vs) == 1 else list(vs)))
            w.commit(merge=False)
    except Exception as ex:  # noqa
        out["build"] = "exc " + exc_name(ex)
        return out
    with ix.searcher() as s:
        cls = query.DateRange if cfg["kind"] == "datetime" else query.NumericRange
        for (a, b, sx, ex_) in case["queries"]:
            try:
                q = cls("v", a, b, sx, ex_)
                if case.get("path", 0) == 1:
                    got = sorted(s.stored_fields(d)["pos"] for d in q.docs(s))
                elif case.get("path", 0) == 2:
                    got = sorted(s.stored_fields(d)["pos"] for d in s.docs_for_query(q))
                else:
                    got = sorted(h["pos"] for h in s.search(q, limit=None))
                out["ranges"].append(got)
            except Exception as ex:  # noqa
                out["ranges"].append("exc " + exc_name(ex))
        if case.get("sort"):
            try:
                out["sort"] = [h["pos"] for h in s.search(query.Every(), sortedby="v", limit=None)]
                out["rsort"] = [h["pos"] for h in s.search(query.Every(), sortedby="v", reverse=True, limit=None)]
            except Exception as ex:  # noqa
                out["sort"] = "exc " + exc_name(ex)
        if case.get("parser"):
            from whoosh.qparser import QueryParser
            qp = QueryParser("v", schema)
            for text in case["parser"]:
                try:
                    q = qp.parse(text)
                    out["parsed"].append(sorted(h["pos"] for h in s.search(q, limit=None)))
                except Exception as ex:  # noqa
                    out["parsed"].append("exc " + exc_name(ex))
        # the term bytes decode back to the value (first value of each of the first docs)
        for vs in case["docs"][:12]:
            try:
                back = fld.from_bytes(fld.to_bytes(vs[0]))
                out["roundtrip"].append(to_spec(cfg, back) == to_spec(cfg, vs[0]))
            except Exception as ex:  # noqa
                out["roundtrip"].append("exc " + exc_name(ex))
    return out


def run_reject_case(case):
    """Out-of-domain values at indexing and query time.  case = dict(cfg, good=[...], bad=[...])."""
    from whoosh import fields, query
    cfg = case["cfg"]
    fld = field_of(cfg)
    schema = fields.Schema(pos=fields.STORED, v=fld)
    ix = new_ram_index(schema)
    with ix.writer() as w:
        for i, v in enumerate(case["good"]):
            w.add_document(pos=i, v=v)
    res = []
    for bad in case["bad"]:
        r = {}
        w = ix.writer()
        try:
            w.add_document(pos=999, v=bad)
            r["index"] = "accepted"
        except Exception as ex:  # noqa
            r["index"] = "exc " + exc_name(ex)
        w.cancel()
        r["is_valid"] = bool(fld.is_valid(bad))
        with ix.searcher() as s:
            for nm, q in (("start", query.NumericRange("v", bad, None)), ("end", query.NumericRange("v", None, bad))):
                try:
                    r[nm] = sorted(h["pos"] for h in s.search(q, limit=None))
                except Exception as ex:  # noqa
                    r[nm] = "exc " + exc_name(ex)
            from whoosh.qparser import QueryParser
            try:
                q = QueryParser("v", schema).parse("[%s TO]" % (bad,))
                r["parser"] = sorted(h["pos"] for h in s.search(q, limit=None))
            except Exception as ex:  # noqa
                r["parser"] = "exc " + exc_name(ex)
        res.append(r)
    # the index must be unchanged
    with ix.searcher() as s:
        count = s.doc_count()
    return {"results": res, "count": count}


# ------------------------------------------------------------------------------------------------
# correspondence worker: codec-level functions of NUMERIC and _compile_query

class _FakeReader(object):
    def __init__(self, schema):
        self.schema = schema


def ser_query(q):
    """Serialise what _compile_query returned into the model's vocabulary."""
    from whoosh import query
    from whoosh.query import qcore
    if q is qcore.NullQuery or isinstance(q, type(qcore.NullQuery)):
        return []
    if isinstance(q, query.ConstantScoreQuery):
        q = q.child
    if isinstance(q, query.Or):
        subs = list(q.subqueries)
    else:
        subs = [q]
    res = []
    for sq in subs:
        if isinstance(sq, query.Term):
            res.append("(t %s)" % sq.text.hex())
        elif isinstance(sq, query.TermRange):
            if sq.startexcl or sq.endexcl:
                res.append("(rx %s %s)" % (sq.start.hex(), sq.end.hex()))
            else:
                res.append("(r %s %s)" % (sq.start.hex(), sq.end.hex()))
        else:
            res.append("(other %s)" % type(sq).__name__)
    return res


def w_compile(items):
    """items: (cfg, start, end, sx, ex) with int/float(bits) bounds already in Python space."""
    from whoosh import fields, query
    out = []
    for cfg, a, b, sx, ex_ in items:
        try:
            fld = field_of(cfg)
            rd = _FakeReader(fields.Schema(v=fld))
            q = query.NumericRange("v", a, b, sx, ex_)._compile_query(rd)
            out.append("ok (" + " ".join(ser_query(q)) + ")")
        except Exception as ex:  # noqa
            out.append("err " + exc_name(ex))
    return out
