"""Helpers for C17: catalogue of the shipped analyzers/filters, text generator, token capture."""
import sys
import traceback
import warnings

warnings.simplefilter("ignore")

from whoosh import analysis, fields  # noqa: E402
from whoosh.support.charset import accent_map, charset_table_to_dict, default_charset  # noqa: E402
from whoosh.lang import languages  # noqa: E402


# ------------------------------------------------------------------------------------------------
# analyzers.  traits:
#   rel     how a token's text relates to text[startchar:endchar]:
#           "exact", "lower", "strip" (stripped), "fold" (accent folded lower), "none" (not claimed)
#   onepos  at most one token per position (positions strictly increase)
#   offsets tokens carry meaningful offsets (0 <= start < end <= len, non-overlapping for onepos)

RT = analysis.RegexTokenizer
LOW = analysis.LowercaseFilter

_WORDSET = frozenset(["big", "time", "foot", "ball", "alfa", "bravo", "under", "score", "data", "base"])


def _charmap():
    return charset_table_to_dict(default_charset)


class _Rel(object):
    """a relation between a token's text and its source text[startchar:endchar] given by a function
    (for analyzers whose text transformation is a table or a simple string function)"""

    def __init__(self, name, fn):
        self.name, self.fn = name, fn

    def __call__(self, src, tokentext):
        try:
            return self.fn(src) == tokentext
        except Exception:
            return False


def _charmap_rel():
    cm = _charmap()

    def fn(src):
        # every source character is a token character of the table (no break character inside or at
        # the edges of the source range) and the token is the translated source
        out = [cm.get(ord(c)) for c in src]
        if not all(out):
            raise ValueError("break character inside the source range")
        return u"".join(out)
    return _Rel("charmap", fn)


CATALOGUE = {
    # name: (factory, rel, onepos)
    "id": (lambda: analysis.IDAnalyzer(), "exact", True),
    "id-lower": (lambda: analysis.IDAnalyzer(lowercase=True), "lower", True),
    "keyword": (lambda: analysis.KeywordAnalyzer(), "exact", True),
    "keyword-lower": (lambda: analysis.KeywordAnalyzer(lowercase=True), "lower", True),
    "keyword-commas": (lambda: analysis.KeywordAnalyzer(commas=True), "strip", True),
    "keyword-commas-lower": (lambda: analysis.KeywordAnalyzer(lowercase=True, commas=True), "striplower", True),
    "regex": (lambda: analysis.RegexAnalyzer(), "exact", True),
    "regex-gaps": (lambda: analysis.RegexAnalyzer(r"\s+", gaps=True), "exact", True),
    "simple": (lambda: analysis.SimpleAnalyzer(), "lower", True),
    "standard": (lambda: analysis.StandardAnalyzer(), "lower", True),
    "standard-nostop": (lambda: analysis.StandardAnalyzer(stoplist=None, minsize=1), "lower", True),
    "standard-maxsize": (lambda: analysis.StandardAnalyzer(maxsize=6), "lower", True),
    "standard-norenumber": (lambda: RT() | LOW() | analysis.StopFilter(renumber=False), "lower", True),
    "standard-gaps": (lambda: analysis.StandardAnalyzer(r"[\s,.]+", gaps=True), "lower", True),
    "stemming": (lambda: analysis.StemmingAnalyzer(), "none", True),
    "stemming-nocache": (lambda: analysis.StemmingAnalyzer(cachesize=0), "none", True),
    "fancy": (lambda: analysis.FancyAnalyzer(), "none", False),
    "ngram": (lambda: analysis.NgramAnalyzer(2, 4), "lower", False),
    "ngramword": (lambda: analysis.NgramWordAnalyzer(2, 4), "lower", False),
    "ngramword-start": (lambda: analysis.NgramWordAnalyzer(2, 4, at="start"), "lower", False),
    "ngramword-end": (lambda: analysis.NgramWordAnalyzer(2, 4, at="end"), "lower", False),
    "space": (lambda: analysis.SpaceSeparatedTokenizer(), "exact", True),
    "comma": (lambda: analysis.CommaSeparatedTokenizer(), "strip", True),
    "charset-tokenizer": (lambda: analysis.CharsetTokenizer(_charmap()), _charmap_rel(), True),
    "charset-tokenizer-lower": (lambda: analysis.CharsetTokenizer(_charmap()) | LOW(),
                                _Rel("charmap-lower", lambda src, f=_charmap_rel().fn: f(src).lower()), True),
    "path": (lambda: analysis.PathTokenizer(), "none", True),
    "url": (lambda: RT(analysis.url_pattern) | LOW(), "lower", True),
    "strip": (lambda: RT(r"[^,]+") | analysis.StripFilter(), "strip", True),
    "reverse": (lambda: RT() | analysis.ReverseTextFilter(), _Rel("reversed", lambda src: src[::-1]), True),
    "charset-filter": (lambda: RT() | LOW() | analysis.CharsetFilter(accent_map),
                       _Rel("lower-folded", lambda src: src.lower().translate(accent_map)), True),
    "substitution": (lambda: RT(r"\S+") | analysis.SubstitutionFilter("-", ""),
                     _Rel("hyphens-removed", lambda src: src.replace("-", "")), True),
    # DelimitedAttributeFilter cuts the token's text and its character range at the delimiter: what is
    # left is exactly the source text before it, whatever the delimiter's length
    "delimited": (lambda: RT(r"\S+") | analysis.DelimitedAttributeFilter(), "exact", True),
    "delimited-tag": (lambda: RT(r"\S+") | analysis.DelimitedAttributeFilter(delimiter="::", attribute="tag",
                                                                            default=u"", type=str) | LOW(),
                      "lower", True),
    "delimited-arrow": (lambda: RT(r"[^\s,]+") | analysis.DelimitedAttributeFilter(delimiter="-->", attribute="target",
                                                                                 default=None, type=str),
                        "exact", True),
    "delimited-first": (lambda: RT(r"\S+") | analysis.DelimitedAttributeFilter(delimiter="/", attribute="rest",
                                                                             default=u"", type=str) | LOW(),
                        "lower", True),
    "biword": (lambda: RT() | LOW() | analysis.BiWordFilter(), "none", False),
    "shingle2": (lambda: RT() | LOW() | analysis.ShingleFilter(2), "none", False),
    "shingle3": (lambda: RT() | LOW() | analysis.ShingleFilter(3), "none", False),
    "intraword": (lambda: RT(r"\S+") | analysis.IntraWordFilter() | LOW(), "none", False),
    "intraword-merge": (lambda: RT(r"\S+") | analysis.IntraWordFilter(mergewords=True, mergenums=True) | LOW(),
                        "none", False),
    "intraword-multi": (lambda: RT(r"\S+") | analysis.MultiFilter(
        index=analysis.IntraWordFilter(mergewords=True, mergenums=True),
        query=analysis.IntraWordFilter(mergewords=False, mergenums=False)) | LOW(), "none", False),
    "compound": (lambda: RT() | LOW() | analysis.CompoundWordFilter(_WORDSET, keep_compound=True), "none", False),
    "compound-nokeep": (lambda: RT() | LOW() | analysis.CompoundWordFilter(_WORDSET, keep_compound=False),
                        "none", False),
    "tee-biword": (lambda: RT() | analysis.TeeFilter(analysis.PassFilter(), analysis.BiWordFilter()) | LOW(),
                   "none", False),
    "tee-reverse": (lambda: RT() | analysis.TeeFilter(LOW(), analysis.ReverseTextFilter()), "none", False),
    "metaphone": (lambda: RT() | analysis.DoubleMetaphoneFilter(), "none", False),
    "metaphone-combine": (lambda: RT() | LOW() | analysis.DoubleMetaphoneFilter(combine=True), "none", False),
    "stemfilter-de": (lambda: RT() | LOW() | analysis.StemFilter(lang="de"), "none", True),
    "logging": (lambda: RT() | analysis.LoggingFilter() | analysis.PassFilter(), "exact", True),
    "ngramfilter": (lambda: RT() | analysis.NgramFilter(3), "exact", False),
    "ngramtokenizer": (lambda: analysis.NgramTokenizer(3), "exact", False),
    # MultiFilter with branches of the modelled filters (query-time texts are index-time texts)
    "ngramword-multi": (lambda: RT() | LOW() | analysis.MultiFilter(index=analysis.NgramFilter(2, 4),
                                                                   query=analysis.NgramFilter(2, 3)), "lower", False),
    "stemming-ignore": (lambda: analysis.StemmingAnalyzer(ignore=frozenset(["running", "geese"])), "none", True),
    # the same with bounded caches far smaller than the vocabulary of the generated texts (the cache
    # overflows many times within one run), and with the unbounded cache
    "stemming-ignore-cache4": (lambda: analysis.StemmingAnalyzer(ignore=frozenset(["running", "geese", "rendering"]),
                                                                 cachesize=4), "none", True),
    "stemming-ignore-cache32": (lambda: analysis.StemmingAnalyzer(ignore=frozenset(["running", "database"]),
                                                                  cachesize=32), "none", True),
    "stemming-ignore-unbounded": (lambda: analysis.StemmingAnalyzer(ignore=frozenset(["geese", "rendering"]),
                                                                    cachesize=-1), "none", True),
    "stemfilter-de-ignore-cache8": (lambda: RT() | LOW() | analysis.StemFilter(lang="de", ignore=["running", "straße"],
                                                                              cachesize=8), "none", True),
}
# analyzers that only take part in the model correspondence (a MultiFilter whose query branch is
# not a restriction of its index branch: query-time tokens need not find the document)
CORR_ONLY = {
    "multi-stop": lambda: RT() | LOW() | analysis.MultiFilter(index=analysis.PassFilter(), query=analysis.StopFilter())
    | analysis.ReverseTextFilter(),
    "multi-default": lambda: RT() | analysis.MultiFilter(index=LOW()),
    "multi-query-lower": lambda: RT() | analysis.MultiFilter(query=LOW(), index=analysis.StripFilter()),
}
for _lang in sorted(languages):
    CATALOGUE["language-" + _lang] = ((lambda lg=_lang: analysis.LanguageAnalyzer(lg)), "none", True)

# tokenizers that do not record character offsets (they cannot feed a Characters format)
NO_CHARS = {"path"}

_ANALYZERS = {}


def get_analyzer(name):
    if name not in _ANALYZERS:
        try:
            _ANALYZERS[name] = CORR_ONLY[name]() if name in CORR_ONLY else CATALOGUE[name][0]()
        except Exception as e:  # e.g. a language without stemmer
            _ANALYZERS[name] = e
    return _ANALYZERS[name]


def make_fields(name):
    """The text field types the analyzer is exercised in: characters, positions, frequency only."""
    ana = get_analyzer(name)
    return {"c": fields.TEXT(analyzer=ana, chars=True, stored=True),
            "p": fields.TEXT(analyzer=ana, phrase=True, stored=True),
            "f": fields.TEXT(analyzer=ana, phrase=False, stored=True)}


# field types with their own built-in analyzers
BUILTIN_FIELDS = {
    "text-default": lambda: fields.TEXT(stored=True),
    "text-chars": lambda: fields.TEXT(stored=True, chars=True),
    "text-lang-de": lambda: fields.TEXT(stored=True, lang="de"),
    "keyword": lambda: fields.KEYWORD(stored=True),
    "keyword-lc-commas": lambda: fields.KEYWORD(stored=True, lowercase=True, commas=True, scorable=True),
    "id": lambda: fields.ID(stored=True),
    "idlist": lambda: fields.IDLIST(stored=True),
    "ngram": lambda: fields.NGRAM(minsize=2, maxsize=4, stored=True),
    "ngram-phrase": lambda: fields.NGRAM(minsize=2, maxsize=3, stored=True, phrase=True),
    "ngramwords": lambda: fields.NGRAMWORDS(minsize=2, maxsize=4, stored=True),
    "ngramwords-start": lambda: fields.NGRAMWORDS(minsize=2, maxsize=4, stored=True, at="start"),
}


# ------------------------------------------------------------------------------------------------
# texts

POOL = [
    # plain words, stop words, case
    "alfa", "Bravo", "CHARLIE", "delta", "the", "a", "of", "and", "The", "IS", "x", "I",
    # stop words that a stemmer would change (StemFilter must leave stopped tokens alone)
    "this", "are", "This",
    # dots, underscores, hyphens, apostrophes
    "e.g.", "3.141", "a.b.c", "under_score", "big-time", "Wi-Fi", "don't", "O'Neil", "v1.2.3", "..", "a..b", "x.",
    # digits
    "42", "2012-03-04", "1,000", "0x1F", "٣٤", "１２",
    # multi-script
    "naïve", "Straße", "ÉCOLE", "Ǆungla", "İstanbul", "ΑΣ", "Σίσυφος", "Москва", "東京", "日本語テキスト", "한국어", "שלום", "مرحبا",
    "école", "ﬁnance", "𝔘nicode", "😀", "a​b",
    # urls, mail
    "http://example.com/a/b?q=1", "user@example.org", "www.test.co.uk", "/usr/local/bin",
    # long and short
    "x" * 70, "ab" * 150, "z",
    # stems, compounds
    "running", "rendering", "geese", "football", "database", "bigtime", "PowerShot", "SD500", "wi2fi",
    # boost syntax for DelimitedAttributeFilter
    "render^2", "file^0.5", "x^", "^3",
    # attribute syntax with delimiters of two and three characters
    "fox::noun", "Quick::adj", "a::b::c", "::x", "y::", "go-->there", "A-->B-->C", "lazy::", "dog:::n",
]
SEPS = [" ", " ", " ", "  ", "\t", "\n", ", ", ",", ". ", "-", "/", " - ", "　", ";",
        # runs of two and more break characters
        " -- ", "://", " (", ") ", "...", " , ", "\n\n", "--", "; ", "   "]


def gen_text(rng):
    n = rng.choice((0, 1, 1, 2, 3, 4, 5, 6, 8, 12, 20))
    parts = []
    for _ in range(n):
        parts.append(rng.choice(POOL))
        parts.append(rng.choice(SEPS))
    s = "".join(parts)
    r = rng.random()
    if r < 0.15:
        s = s.strip()
    elif r < 0.25:
        s = " " + s
    elif r < 0.32:
        s = rng.choice(SEPS) + rng.choice(SEPS) + s
    return s


def capture(ana, text, **kw):
    """Analyzer output as plain tuples (text, pos, startchar, endchar, boost, stopped)."""
    out = []
    for t in ana(text, **kw):
        out.append((t.text, getattr(t, "pos", None), getattr(t, "startchar", None), getattr(t, "endchar", None),
                    getattr(t, "boost", 1.0), getattr(t, "stopped", False)))
    return out


def exc_signature(e, tb):
    frames = [f for f in traceback.extract_tb(tb) if "/whoosh/" in f.filename]
    fn = frames[-1].name if frames else "?"
    fl = frames[-1].filename.rsplit("/", 1)[-1] if frames else "?"
    return type(e).__name__, "%s:%s" % (fl, fn)


# ------------------------------------------------------------------------------------------------
# correspondence with lean/WM/Model/Analysis.lean

def _s_str(t):
    return "(" + " ".join(str(ord(c)) for c in t) + ")"


def _stop_sexp(removestops, stoplist=analysis.STOP_WORDS, minsize=2, maxsize=None, renumber=True):
    stops = " ".join(_s_str(w) for w in sorted(stoplist or []))
    return "(stop (%s) %d %s %d %d)" % (stops, minsize, "none" if maxsize is None else maxsize, renumber, removestops)


def _with_text(fn):
    fn.needs_text = True
    return fn


def _flt(name, cls):
    """the (last) filter of class `cls` of the real analyzer: its parameters are read from it"""
    return [f for f in get_analyzer(name).items if isinstance(f, cls)][-1]


def _table(pairs):
    return "(" + " ".join("(%s %s)" % (_s_str(a), _s_str(b)) for a, b in sorted(pairs)) + ")"


def _mapchars(name, cls):
    def f(rs, text):
        cm = _flt(name, cls).charmap
        chars = sorted(set(text) | set(text.lower()))
        return "(mapchars (%s))" % " ".join("(%d %s)" % (ord(c), _s_str(c.translate(cm))) for c in chars)
    return _with_text(f)


def _substitution(name):
    def f(rs, text):
        import re
        flt = _flt(name, analysis.SubstitutionFilter)
        words = set(re.findall(r"\S+", text))
        return "(maptable %s)" % _table((w, flt.pattern.sub(flt.replacement, w)) for w in words)
    return _with_text(f)


def _stem(name):
    def f(rs, text):
        flt = _flt(name, analysis.StemFilter)
        words = set(t.text for t in (RT() | LOW())(text))
        return "(stem %s (%s))" % (_table((w, getattr(flt, "_stem", flt.stemfn)(w)) for w in words),
                                   " ".join(_s_str(w) for w in sorted(flt.ignore)))
    return _with_text(f)


# name -> (tokenizer, [filters]); a filter that is a callable gets the removestops flag (and the
# text when it needs a table of the words/characters that occur)
MODELLED = {
    "reverse": ("(regex default)", ["reverse"]),
    "charset-filter": ("(regex default)", ["lowercase", _mapchars("charset-filter", analysis.CharsetFilter)]),
    "substitution": ("(regex nonspace)", [_substitution("substitution")]),
    "stemfilter-de": ("(regex default)", ["lowercase", _stem("stemfilter-de")]),
    "stemming": ("(regex default)", ["lowercase", lambda rs: _stop_sexp(rs), _stem("stemming")]),
    "stemming-nocache": ("(regex default)", ["lowercase", lambda rs: _stop_sexp(rs), _stem("stemming-nocache")]),
    "stemming-ignore": ("(regex default)", ["lowercase", lambda rs: _stop_sexp(rs), _stem("stemming-ignore")]),
    "stemming-ignore-cache4": ("(regex default)", ["lowercase", lambda rs: _stop_sexp(rs), _stem("stemming-ignore-cache4")]),
    "stemming-ignore-cache32": ("(regex default)", ["lowercase", lambda rs: _stop_sexp(rs),
                                                    _stem("stemming-ignore-cache32")]),
    "stemming-ignore-unbounded": ("(regex default)", ["lowercase", lambda rs: _stop_sexp(rs),
                                                      _stem("stemming-ignore-unbounded")]),
    "stemfilter-de-ignore-cache8": ("(regex default)", ["lowercase", _stem("stemfilter-de-ignore-cache8")]),
    "ngramword-multi": ("(regex default)", ["lowercase", "(multi (ngram 2 4 all) (ngram 2 3 all))"]),
    "multi-stop": ("(regex default)", ["lowercase", lambda rs: "(multi pass %s)" % _stop_sexp(rs), "reverse"]),
    "multi-default": ("(regex default)", ["(multi lowercase pass)"]),
    "multi-query-lower": ("(regex default)", ["(multi strip lowercase)"]),
    "regex": ("(regex default)", []),
    "logging": ("(regex default)", ["pass"]),
    "simple": ("(regex default)", ["lowercase"]),
    "standard": ("(regex default)", ["lowercase", lambda rs: _stop_sexp(rs)]),
    "standard-nostop": ("(regex default)", ["lowercase", lambda rs: _stop_sexp(rs, stoplist=None, minsize=1)]),
    "standard-maxsize": ("(regex default)", ["lowercase", lambda rs: _stop_sexp(rs, maxsize=6)]),
    "standard-norenumber": ("(regex default)", ["lowercase", lambda rs: _stop_sexp(rs, renumber=False)]),
    "space": ("(regex space)", []),
    "keyword": ("(regex space)", []),
    "keyword-lower": ("(regex space)", ["lowercase"]),
    "comma": ("(regex comma)", ["strip"]),
    "strip": ("(regex comma)", ["strip"]),
    "keyword-commas": ("(regex comma)", ["strip"]),
    "keyword-commas-lower": ("(regex comma)", ["strip", "lowercase"]),
    "id": ("id", []),
    "id-lower": ("id", ["lowercase"]),
    "ngramword": ("(regex default)", ["lowercase", "(ngram 2 4 all)"]),
    "ngramword-start": ("(regex default)", ["lowercase", "(ngram 2 4 start)"]),
    "ngramword-end": ("(regex default)", ["lowercase", "(ngram 2 4 end)"]),
    "ngramfilter": ("(regex default)", ["(ngram 3 3 all)"]),
    "ngramtokenizer": ("(ngram 3 3)", []),
    "ngram": ("(ngram 2 4)", ["lowercase"]),
    "biword": ("(regex default)", ["lowercase", "(biword (45))"]),
    # DelimitedAttributeFilter: the delimiter is read from the real filter
    "delimited-tag": ("(regex nonspace)", [lambda rs: _delim_sexp("delimited-tag"), "lowercase"]),
    "delimited-first": ("(regex nonspace)", [lambda rs: _delim_sexp("delimited-first"), "lowercase"]),
}


def _delim_sexp(name):
    return "(delimited %s)" % _s_str(_flt(name, analysis.DelimitedAttributeFilter).delim)


def model_request(name, text, mode, removestops):
    tk, fs = MODELLED[name]
    fs = " ".join((f(removestops, text) if getattr(f, "needs_text", False) else f(removestops)) if callable(f) else f
                  for f in fs)
    chars = " ".join("(%d %d %d %s)" % (ord(c), bool(c.isalnum() or c == "_"), c.isspace(), _s_str(c.lower()))
                     for c in text)
    return "c17 analyze %s %s (%s) (%s)" % (mode, tk, fs, chars)


def real_tokens_sexp(name, text, mode, removestops):
    ana = get_analyzer(name)
    out = []
    for t in ana(text, positions=True, chars=True, mode=mode, removestops=removestops):
        out.append("(%s %d %d %d %d)" % (_s_str(t.text), t.pos, t.startchar, t.endchar, bool(t.stopped)))
    return "(" + " ".join(out) + ")"
