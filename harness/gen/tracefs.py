"""Shared helpers of the fs family (C02, C03, C04).

* `Tracer`, `TracingFileStorage`, `TracingRamStorage`: harness-side subclasses of the public whoosh
  storage classes that log every storage-level event (create / write / close / open / rename /
  delete / lock acquire+release / temp storage) of real writer and reader code.  No hook inside
  whoosh is needed.  A *boundary hook* is called between any two events (state = all events so
  far have taken effect, the next one has not), which is what the crash-point enumeration (C02),
  the reader schedule enumeration (C03) and the second-writer probe (C04) hang on.
* transaction generators (`gen_history`), the dictionary model of what an index should contain,
  `dump_reader` (canonical logical dump through the public read API) and `snapshot_dir`.
* protocol encoders for the Lean driver (`trace_sexp`, `toc_sexp`).
"""
import os
import shutil
import threading

from whoosh import fields, index, writing
from whoosh.filedb.filestore import FileStorage, RamStorage

INDEXNAME = "MAIN"


# ------------------------------------------------------------------------------------------------
# tracing

class Tracer(object):
    """Event log shared by a storage object, its temp storages, files and locks."""

    def __init__(self):
        self.events = []        # (actor, kind, args...) in program order
        self.hook = None        # hook(tracer, k) called when k events have taken effect
        self._in_hook = False
        self._pending = None    # [actor, name, nbytes] : coalesced writes not yet logged
        self.open_w = {}        # name -> _WFile (files open for writing)
        self.holders = {}       # lock name -> actor that really holds it right now
        self._tls = threading.local()
        self.enabled = True
        self.lock = threading.RLock()

    # actor = who issues the events (a writer, a reader under construction, a probing reader)
    default_actor = "w"

    @property
    def actor(self):
        return getattr(self._tls, "actor", self.default_actor)

    @actor.setter
    def actor(self, v):
        self._tls.actor = v

    def _flush_pending(self):
        p, self._pending = self._pending, None
        if p is not None:
            self.events.append((p[0], "write", p[1], p[2]))

    def _boundary(self):
        if self.hook is not None and not self._in_hook:
            self._in_hook = True
            saved = self.actor
            try:
                self.hook(self, len(self.events))
            finally:
                self.actor = saved
                self._in_hook = False

    def before(self, kind, *args):
        """Announce an event that is about to take effect."""
        if not self.enabled:
            return
        if self._in_hook:
            # events issued while the hook runs (probing readers, second writers, possibly from a
            # watchdog thread) are logged under their actor but never trigger nested boundaries
            with self.lock:
                self._flush_pending()
                self.events.append((self.actor, kind) + args)
            return
        with self.lock:
            self._flush_pending()
        self._boundary()
        with self.lock:
            self.events.append((self.actor, kind) + args)

    def wrote(self, name, n):
        if not self.enabled or n == 0:
            return
        with self.lock:
            p = self._pending
            if p is not None and p[1] == name and p[0] == self.actor:
                p[2] += n
                return
            if p is not None:
                self._flush_pending()
        if p is not None and not self._in_hook:
            self._boundary()
        with self.lock:
            self._pending = [self.actor, name, n]

    def finish(self):
        """Flush the pending write and call the hook for the final boundary."""
        with self.lock:
            self._flush_pending()
        self._boundary()

    def flush_open_files(self):
        for f in list(self.open_w.values()):
            try:
                f._raw.flush()
            except Exception:
                pass


class _WFile(object):
    """Proxy around the raw file object under a StructFile opened for writing."""

    def __init__(self, tracer, name, raw):
        self._t, self._name, self._raw = tracer, name, raw
        self.written = 0

    def write(self, b):
        r = self._raw.write(b)
        n = len(b)
        self.written += n
        self._t.wrote(self._name, n)
        return r

    def close(self):
        self._t.before("close", self._name)
        self._t.open_w.pop(self._name, None)
        return self._raw.close()

    def __getattr__(self, a):
        return getattr(self._raw, a)

    def __iter__(self):
        return iter(self._raw)

    def __enter__(self):
        return self

    def __exit__(self, *exc):
        self.close()


class _TLock(object):
    def __init__(self, tracer, name, inner):
        self._t, self._name, self._inner = tracer, name, inner

    def acquire(self, *a, **kw):
        ok = self._inner.acquire(*a, **kw)
        if ok:
            self._t.holders[self._name] = self._t.actor
        self._t.before("acquire", self._name, bool(ok))
        return ok

    def release(self):
        self._t.before("release", self._name)
        r = self._inner.release()
        self._t.holders.pop(self._name, None)
        return r

    def __getattr__(self, a):
        return getattr(self._inner, a)


class _TraceMixin(object):
    _prefix = ""

    def _n(self, name):
        return self._prefix + name

    def _wrap_created(self, name, sf):
        proxy = _WFile(self.tracer, self._n(name), sf.file)
        sf.file = proxy
        self.tracer.open_w[self._n(name)] = proxy
        return sf


class TracingFileStorage(_TraceMixin, FileStorage):
    def __init__(self, path, tracer=None, prefix="", **kw):
        FileStorage.__init__(self, path, **kw)
        self.tracer = tracer if tracer is not None else Tracer()
        self._prefix = prefix

    def create_file(self, name, **kw):
        self.tracer.before("create", self._n(name))
        return self._wrap_created(name, FileStorage.create_file(self, name, **kw))

    def open_file(self, name, **kw):
        self.tracer.before("open", self._n(name))
        return FileStorage.open_file(self, name, **kw)

    def rename_file(self, a, b, safe=False):
        self.tracer.before("rename", self._n(a), self._n(b))
        return FileStorage.rename_file(self, a, b, safe=safe)

    def delete_file(self, name):
        self.tracer.before("delete", self._n(name))
        return FileStorage.delete_file(self, name)

    def list(self):
        r = FileStorage.list(self)
        if not self._prefix:
            self.tracer.before("list")
        return r

    def file_length(self, name):
        self.tracer.before("stat", self._n(name))
        return FileStorage.file_length(self, name)

    def file_exists(self, name):
        r = FileStorage.file_exists(self, name)
        self.tracer.before("exists", self._n(name), bool(r))
        return r

    def lock(self, name):
        return _TLock(self.tracer, self._n(name), FileStorage.lock(self, name))

    def temp_storage(self, name=None):
        from whoosh.util import random_name
        name = name or "%s.tmp" % random_name()
        self.tracer.before("mktmp", self._n(name))
        path = os.path.join(self.folder, name)
        st = TracingFileStorage(path, tracer=self.tracer, prefix=self._n(name) + "/")
        return st.create()

    def destroy(self):
        if self._prefix:
            self.tracer.before("rmtmp", self._prefix[:-1])
        return FileStorage.destroy(self)


class TracingRamStorage(_TraceMixin, RamStorage):
    def __init__(self, tracer=None):
        RamStorage.__init__(self)
        self.tracer = tracer if tracer is not None else Tracer()

    def create_file(self, name, **kw):
        self.tracer.before("create", name)
        return self._wrap_created(name, RamStorage.create_file(self, name, **kw))

    def open_file(self, name, **kw):
        self.tracer.before("open", name)
        return RamStorage.open_file(self, name, **kw)

    def rename_file(self, a, b, safe=False):
        self.tracer.before("rename", a, b)
        return RamStorage.rename_file(self, a, b, safe=safe)

    def delete_file(self, name):
        self.tracer.before("delete", name)
        return RamStorage.delete_file(self, name)

    def list(self):
        r = RamStorage.list(self)
        self.tracer.before("list")
        return r

    def file_length(self, name):
        self.tracer.before("stat", name)
        return RamStorage.file_length(self, name)

    def file_exists(self, name):
        r = RamStorage.file_exists(self, name)
        self.tracer.before("exists", name, bool(r))
        return r

    def lock(self, name):
        return _TLock(self.tracer, name, RamStorage.lock(self, name))

    def temp_storage(self, name=None):
        import tempfile
        from whoosh.util import random_name
        name = name or "%s.tmp" % random_name()
        self.tracer.before("mktmp", name)
        path = os.path.join(self.tmpbase or tempfile.gettempdir(), name)
        st = TracingFileStorage(path, tracer=self.tracer, prefix=name + "/")
        return st.create()

    tmpbase = None


# ------------------------------------------------------------------------------------------------
# workloads: schema, transactions, dictionary model, dump

WORDS = ["alfa", "bravo", "charlie", "delta", "echo", "foxtrot", "golf", "hotel", "india", "juliet"]


def make_schema():
    return fields.Schema(k=fields.ID(stored=True, unique=True),
                         t=fields.TEXT(stored=True, vector=True),
                         g=fields.KEYWORD(stored=True),
                         n=fields.NUMERIC(stored=True, sortable=True))


MERGES = ["default", "nomerge", "optimize", "clear"]


def gen_doc(rng, key):
    nw = rng.choice([1, 1, 2, 3, 5])
    return {"k": u"k%d" % key, "t": u" ".join(rng.choice(WORDS) for _ in range(nw)),
            "g": rng.choice(WORDS[:3]), "n": rng.randint(0, 50)}


def gen_txn(rng, state, force=None):
    """One writer transaction as plain data (so that it replays).  `state` = {"next": int,
    "live": sorted keys the dictionary model holds} is only used to aim deletes/updates at
    existing documents most of the time."""
    ops = []
    live = list(state["live"])
    used = set()
    nops = rng.choice([0, 1, 1, 2, 3, 4, 6])
    for _ in range(nops):
        if state.get("tomb") and rng.random() < 0.4:
            # take a deletion back and delete another document of the same segment instead (which
            # documents: decided when the transaction runs, from the writer's own reader, and
            # recorded here so that the dictionary model and replays see it)
            ops.append(["undelete", None])
            continue
        r = rng.random()
        free = [k for k in live if k not in used]
        if r < 0.45 or not free:
            ops.append(("add", gen_doc(rng, state["next"])))
            state["next"] += 1
        elif r < 0.72:
            k = rng.choice(free) if rng.random() < 0.9 else 10 ** 6
            used.add(k)
            ops.append(("delete", u"k%d" % k))
        else:
            # every key is touched by at most one operation of a transaction (update_document
            # cannot see documents added by the same writer: documented whoosh behaviour)
            k = rng.choice(free)
            used.add(k)
            ops.append(("update", gen_doc(rng, k)))
    txn = {"ops": ops,
           "merge": rng.choice(["default", "default", "nomerge", "nomerge", "optimize", "clear"]),
           "compound": rng.random() < 0.6,
           "outcome": rng.choice(["commit"] * 5 + ["cancel", "exception"]),
           "schema": rng.choice([None] * 6 + ["add", "add", "add", "remove"])}
    if force:
        force = dict(force)
        min_adds = force.pop("min_adds", 0)
        txn.update(force)
        have = sum(1 for op in ops if op[0] == "add")
        if have < min_adds:
            # scripted histories that need documents in a transaction (e.g. values for a field added
            # by it); drawn from a derived generator so that the main stream of choices is unchanged
            import random as _random
            r2 = _random.Random("min-adds:%d" % state["next"])
            for _ in range(min_adds - have):
                ops.append(("add", gen_doc(r2, state["next"])))
                state["next"] += 1
    # The optional field goes through never -> present -> removed, once: a removed field's stored
    # values are only hidden by the schema (they come back if the name is added again, unless a
    # merge rewrote the segment meanwhile), which the dictionary model does not track.
    phase = state.get("xphase", "never")
    if txn["schema"] == "add" and phase != "never":
        txn["schema"] = None
    if txn["schema"] == "remove" and phase != "present":
        txn["schema"] = None
    if txn["schema"] and txn["outcome"] == "commit":
        state["xphase"] = "present" if txn["schema"] == "add" else "removed"
    # keys whose deleted version probably still sits in a segment (generation hint only)
    if txn["outcome"] == "commit":
        if txn["merge"] in ("optimize", "clear"):
            state["tomb"] = []
        else:
            tomb = list(state.get("tomb", []))
            for op in txn["ops"]:
                if op[0] == "delete" and op[1] != u"k%d" % 10 ** 6:
                    tomb.append(op[1])
                elif op[0] == "undelete" and tomb:
                    tomb.pop(0)
            state["tomb"] = tomb
    return txn


def model_apply(docs, txn):
    """Dictionary model (key -> stored fields) of a transaction that commits."""
    if txn["outcome"] != "commit":
        return dict(docs)
    new = {} if txn["merge"] == "clear" else dict(docs)
    added = {}
    for op in txn["ops"]:
        if op[0] == "add":
            added[op[1]["k"]] = dict(op[1])
        elif op[0] == "delete":
            # deletes act on the documents committed before this writer (whoosh semantics:
            # delete_by_term searches the existing segments only)
            new.pop(op[1], None)
        elif op[0] == "update":
            new.pop(op[1]["k"], None)
            added[op[1]["k"]] = dict(op[1])
        elif op[0] == "undelete" and op[1]:
            new[op[1]["restored"]["k"]] = dict(op[1]["restored"])
            if op[1]["deleted"]:
                new.pop(op[1]["deleted"], None)
    if txn.get("schema") == "remove":
        # stored values of a removed field are filtered out by the readers
        new = dict((k, dict((f, v) for f, v in d.items() if f != "x")) for k, d in new.items())
    if txn["merge"] == "clear":
        return added
    new.update(added)
    return new


def model_state(docs, nextkey):
    return {"next": nextkey, "live": sorted(int(k[1:]) for k in docs)}


class Boom(Exception):
    pass


def _plain_key(k):
    """keys of generated documents (`k<number>`); marker documents of the harness are left alone"""
    return isinstance(k, str) and k[:1] == "k" and k[1:].isdigit()


def _undelete_swap(w, txn):
    """`delete_document(n, delete=False)` for a deleted document of an existing segment plus the
    deletion of a live document of the same segment (so the segment's deletion *count* stays the
    same while the deletion *set* changes).  Returns what was done, for the dictionary model."""
    touched = set()
    for op in txn["ops"]:
        if op[0] == "delete":
            touched.add(op[1])
        elif op[0] in ("add", "update"):
            touched.add(op[1]["k"])
        elif op[0] == "undelete" and op[1]:
            touched.add(op[1]["restored"]["k"])
            if op[1]["deleted"]:
                touched.add(op[1]["deleted"])
    r = w.reader()
    try:
        live = {}
        for d in r.all_doc_ids():
            live[r.stored_fields(d).get("k")] = d
        bounds = [(off, off + lr.doc_count_all()) for lr, off in r.leaf_readers()]
        for lo, hi in bounds:
            dead = [d for d in range(lo, hi) if r.is_deleted(d)]
            for d in dead:
                sf = r.stored_fields(d)
                k = sf.get("k")
                if k is None or k in live or k in touched or not _plain_key(k):
                    continue
                victims = [(kk, dd) for kk, dd in sorted(live.items())
                           if lo <= dd < hi and kk not in touched and _plain_key(kk)]
                w.delete_document(d, delete=False)
                deleted = None
                if victims:
                    deleted = victims[0][0]
                    w.delete_document(victims[0][1])
                return {"restored": dict(sf), "deleted": deleted}
    finally:
        r.close()
    return None


def run_txn(ix, txn, writer_kwargs=None, on_writer=None, log=None):
    """Execute one transaction on the real index.  Returns the outcome actually taken.
    `log`: a Tracer that is told about the API calls (`("api", op)` events)."""
    kw = dict(writer_kwargs or {})
    kw.setdefault("compound", txn["compound"])
    w = ix.writer(**kw)
    if on_writer:
        on_writer(w)
    try:
        if txn.get("schema") == "add" and "x" not in w.schema.names():
            # the optional field has a column of its own (one more file per loose segment), so that a
            # schema change also concerns per-field segment data, not only the pickled schema
            w.add_field("x", fields.KEYWORD(stored=True, sortable=True))
        elif txn.get("schema") == "remove" and "x" in w.schema.names():
            w.remove_field("x")
        hasx = "x" in w.schema.names()
        for op in txn["ops"]:
            if log is not None:
                log.before("api", op[0])
            if op[0] in ("add", "update"):
                # documents carry a value for the optional field exactly while the schema has it
                # (recorded in the transaction itself so that the dictionary model sees it)
                op[1].pop("x", None)
                if hasx:
                    op[1]["x"] = u"xray" if int(op[1]["k"][1:]) % 2 else u"yankee"
            if op[0] == "undelete":
                op[1] = _undelete_swap(w, txn)
                continue
            if op[0] == "add":
                w.add_document(**op[1])
            elif op[0] == "delete":
                w.delete_by_term("k", op[1])
            elif op[0] == "update":
                w.update_document(**op[1])
        if txn["outcome"] == "exception":
            raise Boom()
    except Boom:
        # what IndexWriter.__exit__ does for a failing with-block
        w.__exit__(Boom, Boom(), None)
        return "exception"
    if txn["outcome"] == "cancel":
        w.cancel()
        return "cancel"
    m = txn["merge"]
    if m == "default":
        w.commit()
    elif m == "nomerge":
        w.commit(merge=False)
    elif m == "optimize":
        w.commit(optimize=True)
    elif m == "clear":
        w.commit(mergetype=writing.CLEAR)
    return "commit"


def dump_reader(r):
    """Canonical logical content of an IndexReader through the public read API: stored fields,
    lexicon with postings (docs named by their stored key), vectors, column values, counts."""
    out = {}
    stored = {}
    keyof = {}
    for docnum in r.all_doc_ids():
        # stored_fields() hides the values of fields that were removed from the schema
        # (iter_docs()/all_stored_fields() do not)
        sf = r.stored_fields(docnum)
        keyof[docnum] = sf.get("k")
        stored.setdefault(sf.get("k"), []).append(tuple(sorted(sf.items())))
    out["stored"] = sorted((k, sorted(v)) for k, v in stored.items())
    out["doc_count"] = r.doc_count()
    lex = []
    for fname in sorted(r.indexed_field_names()):
        if fname not in r.schema:
            # terms of a removed field stay in old segments until they are merged; the read API
            # refuses the field name (TermNotFound), so they are not part of the observable content
            continue
        for tbytes in r.lexicon(fname):
            m = r.postings(fname, tbytes)
            posts = []
            while m.is_active():
                d = m.id()
                if not r.is_deleted(d):
                    posts.append((keyof.get(d), m.weight()))
                m.next()
            ti = r.term_info(fname, tbytes)
            lex.append((fname, bytes(tbytes).hex(), sorted(posts, key=repr)))
    out["lexicon"] = lex
    vecs = []
    for docnum in sorted(keyof):
        if r.has_vector(docnum, "t"):
            vecs.append((keyof[docnum], sorted(r.vector_as("frequency", docnum, "t"))))
    out["vectors"] = sorted(vecs, key=repr)
    # every column the schema promises (the fixed sortable field and the optional one while the
    # schema has it): presence and per-document values
    for fname in sorted(r.schema.names()):
        if r.schema[fname].column_type is None:
            continue
        if r.has_column(fname) and r.doc_count_all():
            cr = r.column_reader(fname)
            out["column_" + fname] = sorted(((keyof[d], cr[d]) for d in keyof), key=repr)
    return out


def dump_keys(d):
    return [k for k, _ in d["stored"]]


def stored_of_model(docs, with_x=False):
    res = []
    for k in sorted(docs):
        res.append((k, [tuple(sorted(docs[k].items()))]))
    return res


def errname(e):
    return type(e).__name__


def snapshot_dir(src, dst, truncate=None):
    """Byte-for-byte copy of an index directory (one level of sub-directories: the temp storage).
    `truncate` maps relative file names to the number of leading bytes that survive."""
    truncate = truncate or {}
    os.makedirs(dst)
    for base, dirs, names in os.walk(src):
        rel = os.path.relpath(base, src)
        tgt = dst if rel == "." else os.path.join(dst, rel)
        if rel != ".":
            os.makedirs(tgt, exist_ok=True)
        for n in names:
            key = n if rel == "." else rel + "/" + n
            sp = os.path.join(base, n)
            try:
                with open(sp, "rb") as f:
                    data = f.read()
            except FileNotFoundError:
                continue
            if key in truncate:
                data = data[:truncate[key]]
            with open(os.path.join(tgt, n), "wb") as g:
                g.write(data)


# ------------------------------------------------------------------------------------------------
# canonical description of directories / TOCs / traces for the Lean driver

def schema_id(schema):
    import zlib
    return zlib.crc32(repr(sorted((n, type(f).__name__, bool(f.stored)) for n, f in schema.items())).encode()) % 100000


def toc_info(storage, indexname, gen, listing=None):
    """(gen, schema_id, [(segment_id, compound, [files], [deleted])]) of the TOC of generation `gen`,
    read through the real `TOC.read`.  The files of a loose segment are the names in `listing`
    that start with its id."""
    from whoosh.index import TOC
    was = getattr(getattr(storage, "tracer", None), "enabled", None)
    if was is not None:
        storage.tracer.enabled = False
    try:
        toc = TOC.read(storage, indexname, gen=gen)
        names = list(storage.list()) if listing is None else list(listing)
    finally:
        if was is not None:
            storage.tracer.enabled = was
    segs = []
    for s in toc.segments:
        sid = s.segment_id()
        if s.is_compound():
            files = [sid + ".seg"]
        else:
            files = sorted(n for n in names if n.startswith(sid + "."))
        segs.append((sid, bool(s.is_compound()), files, sorted(s.deleted_docs())))
    return (toc.generation, schema_id(toc.schema), segs)


class NameTable(object):
    def __init__(self):
        self.idx = {}
        self.names = []

    def __call__(self, name):
        i = self.idx.get(name)
        if i is None:
            i = self.idx[name] = len(self.names)
            self.names.append(name)
        return i

    def sexp(self):
        return "(" + " ".join("(" + " ".join(str(ord(c)) for c in n) + ")" for n in self.names) + ")"


def name_sexp(name):
    return "(" + " ".join(str(ord(c)) for c in name) + ")"


def toc_sexp(tab, info):
    if info is None:
        return "-"
    gen, sid, segs = info
    return "(%d %d (%s))" % (gen, sid, " ".join(
        "(%d (%s) (%s))" % (tab(s), " ".join(str(tab(f)) for f in files), " ".join(str(d) for d in dele))
        for s, _c, files, dele in segs))


def fs_sexp(tab, entries):
    """entries: [(name, status 'c'|'t'|'w', length, toc_info or None)]"""
    return "(" + " ".join("(%d %s %d %s)" % (tab(n), st, ln, toc_sexp(tab, ti)) for n, st, ln, ti in entries) + ")"


def events_sexp(tab, events, tmp=None, newinfo=None):
    """Map logged events to model events one-to-one (anything that does not change the directory
    becomes `(o)`).  When `tmp` is given, a `setToc` event is inserted right after its creation;
    returns (text, index_of_inserted_event or None)."""
    out = []
    ins = None
    for ev in events:
        kind = ev[1]
        if kind == "create":
            out.append("(c %d)" % tab(ev[2]))
            if tmp is not None and ev[2] == tmp and ins is None:
                ins = len(out)
                out.append("(t %d %s)" % (tab(tmp), toc_sexp(tab, newinfo)))
        elif kind == "write":
            out.append("(w %d %d)" % (tab(ev[2]), ev[3]))
        elif kind == "close":
            out.append("(x %d)" % tab(ev[2]))
        elif kind == "rename":
            out.append("(r %d %d)" % (tab(ev[2]), tab(ev[3])))
        elif kind == "delete":
            out.append("(d %d)" % tab(ev[2]))
        else:
            out.append("(o)")
    return "(" + " ".join(out) + ")", ins


def dir_entries(storage, indexname, torn=()):
    """Description of the index directory as the model's initial file system."""
    import re
    pat = re.compile("^_%s_([0-9]+)\\.toc$" % re.escape(indexname))
    was = storage.tracer.enabled if hasattr(storage, "tracer") else None
    if was is not None:
        storage.tracer.enabled = False
    try:
        names = sorted(storage.list())
        res = []
        for n in names:
            full = os.path.join(storage.folder, n)
            if os.path.isdir(full):
                res.append((n, "c", 0, None))
                continue
            ln = os.path.getsize(full)
            m = pat.match(n)
            ti = None
            if m and n not in torn:
                try:
                    ti = toc_info(storage, indexname, int(m.group(1)), names)
                except Exception:
                    ti = None
            res.append((n, "t" if n in torn else "c", ln, ti))
        return res
    finally:
        if was is not None:
            storage.tracer.enabled = was
