"""Helpers of the collect family (C05, C14): a scheduled fake matcher / searcher to drive the real
collectors of whoosh.collectors in isolation, protocol encoders for the Lean driver, and builders of
small real indexes with tiny posting blocks."""
import os
import tempfile
from fractions import Fraction

from vcheck import sexp


# ------------------------------------------------------------------------------------------------
# protocol helpers

def frac(x):
    """float/int/Fraction -> exact Fraction."""
    if isinstance(x, Fraction):
        return x
    if isinstance(x, float):
        return Fraction(*x.as_integer_ratio())
    return Fraction(x)


def rat(x):
    f = frac(x)
    return "%d" % f.numerator if f.denominator == 1 else "%d/%d" % (f.numerator, f.denominator)


def hits_sexp(hits):
    return "(" + " ".join("(%d %s)" % (d, rat(s)) for d, s in hits) + ")"


def parse_rat(tok):
    if "/" in tok:
        a, b = tok.split("/")
        return Fraction(int(a), int(b))
    return Fraction(int(tok))


def parse_hits(lst):
    return [(int(d), parse_rat(s)) for d, s in lst]


def segs_sexp(segs):
    """segs: list of (off, supports, [(doc, score, newblock)])."""
    return "(" + " ".join(
        "(%d %d (%s))" % (off, 1 if sup else 0,
                          " ".join("(%d %s %d)" % (d, rat(s), 1 if nb else 0) for d, s, nb in ps))
        for off, sup, ps in segs) + ")"


def wish_sexp(w):
    """a wish: falsy keep, ("l", score) lower the score, other truthy drop."""
    if isinstance(w, tuple):
        return "(l %s)" % rat(w[1])
    return "1" if w else "0"


def parse_wish(tok):
    if isinstance(tok, list):
        return ("l", float(parse_rat(tok[1])))
    return tok == "1"


def sched_sexp(sched):
    """sched: list of (mask, supports, skip[, skipmask])."""
    out = []
    for st in sched:
        s = "((%s) %d %d" % (" ".join(wish_sexp(b) for b in st[0]), 1 if st[1] else 0, st[2])
        if len(st) > 3:
            s += " (%s)" % " ".join(wish_sexp(b) for b in st[3])
        out.append(s + ")")
    return "(" + " ".join(out) + ")"


def parse_sched(lst):
    out = []
    for st in lst:
        t = ([parse_wish(b) for b in st[0]], st[1] == "1", int(st[2]))
        if len(st) > 3:
            t = t + ([parse_wish(b) for b in st[3]],)
        out.append(t)
    return out


# ------------------------------------------------------------------------------------------------
# the scheduled fake matcher: what the Lean model calls "an arbitrary schedule of drops within the
# C12 contract", executed against the real collectors

class SchedCtl(object):
    """Shared by all matchers of one search: which schedule step the current loop iteration uses,
    and the log of thresholds the collector handed to the matcher."""

    def __init__(self, sched):
        self.sched = sched
        self.it = 0
        self.dirty = False      # a replace/skip happened in an iteration that has not reached next() yet
        self.log = []           # thresholds in call order
        self.replaced = 0
        self.skipped = 0
        self.lowered = 0        # how many times a pending posting got a strictly lower score

    def step(self):
        if self.it < len(self.sched):
            return self.sched[self.it]
        return ([], True, 0)

    def new_segment(self):
        if self.dirty:
            self.it += 1
            self.dirty = False


_MCLASS = []


def make_matcher_class():
    if not _MCLASS:
        _MCLASS.append(_make_matcher_class())
    return _MCLASS[0]


def _make_matcher_class():
    from whoosh.matching import Matcher

    class SchedMatcher(Matcher):
        def __init__(self, postings, supports, ctl, terms=None):
            self.ps = list(postings)      # [(doc, score, newblock)]
            self.supports = supports
            self.ctl = ctl
            self.terms = terms            # doc -> list of terms (for TermsCollector), or None

        def is_active(self):
            return bool(self.ps)

        def id(self):
            return self.ps[0][0]

        def score(self):
            return self.ps[0][1]

        def weight(self):
            return 1.0

        def supports_block_quality(self):
            return self.supports

        def next(self):
            self.ps.pop(0)
            self.ctl.it += 1
            self.ctl.dirty = False
            return self.ps[0][2] if self.ps else True

        def replace(self, minquality=0):
            ctl = self.ctl
            ctl.log.append(minquality)
            ctl.dirty = True
            st = ctl.step()
            self.ps = self._apply(st[0], minquality)
            self.supports = st[1]
            return self

        def _apply(self, mask, minquality):
            """One wish per pending posting: 0 keep, 1 drop, ("l", s) lower the score to s — honoured
            only for postings at or below a non-zero threshold, and a score is never raised (the C12
            contract: `Keeps` = kept intact or `Dominated`)."""
            out = []
            for i, p in enumerate(self.ps):
                # a threshold of 0 is "no threshold" (every whoosh replace() tests `if minquality and ...`)
                if minquality and i < len(mask) and mask[i] and p[1] <= minquality:
                    w = mask[i]
                    if isinstance(w, tuple):
                        if w[1] <= p[1]:
                            if w[1] < p[1]:
                                self.ctl.lowered += 1
                            p = (p[0], w[1], p[2])
                    else:
                        continue
                out.append(p)
            return out

        def skip_to_quality(self, minquality):
            ctl = self.ctl
            ctl.log.append(minquality)
            ctl.dirty = True
            st = ctl.step()
            skip = st[2]
            n = 0
            while n < skip and self.ps and self.ps[0][1] <= minquality:
                self.ps.pop(0)
                n += 1
            if len(st) > 3:
                self.ps = self._apply(st[3], minquality)
            return n

        def all_ids(self):
            for p in list(self.ps):
                yield p[0]
            self.ps = []

        def term_matchers(self):
            return []

        # the rest of the public Matcher interface, answered from the pending postings (the collectors of
        # the unchanged tree do not call these; a rewrite that does gets consistent answers)
        def skip_to(self, id):
            while self.ps and self.ps[0][0] < id:
                self.next()

        def max_quality(self):
            return max([p[1] for p in self.ps] + [0.0])

        def block_quality(self):
            q = self.ps[0][1]
            for p in self.ps[1:]:
                if p[2]:
                    break
                q = max(q, p[1])
            return q

        def value(self):
            return b""

        def supports(self, astype):
            return False

        def spans(self):
            return []

        def children(self):
            return []

        def copy(self):
            return self.__class__(self.ps, self.supports, self.ctl, self.terms)

    return SchedMatcher


def _seg_sizes(segs):
    """Number of documents of each abstract segment: up to the next segment's offset, the last one up
    to its last posting."""
    sizes = []
    for i, (off, _, ps) in enumerate(segs):
        last = max([d for d, _, _ in ps] + [-1]) + 1
        if i + 1 < len(segs):
            sizes.append(max(last, segs[i + 1][0] - off))
        else:
            sizes.append(last)
    return sizes


def _build_fake_classes():
    """The fakes are subclasses of the real whoosh classes (scoring.WeightingModel, reading.IndexReader,
    searching.Searcher, query.Query): everything of the public interface that the collectors might call is
    there (inherited or answered from the abstract segments); only matcher construction is scripted."""
    from whoosh import fields, scoring
    from whoosh.query import Query
    from whoosh.reading import IndexReader
    from whoosh.searching import Searcher, SearchContext
    from whoosh.idsets import BitSet

    class FakeWeighting(scoring.WeightingModel):
        def __init__(self, table=None):
            self.use_final = table is not None
            self.table = table or {}

        def scorer(self, searcher, fieldname, text, qf=1):
            return scoring.WeightScorer(1.0)

        def final(self, searcher, docnum, score):
            return self.table.get(docnum, score)

    class FakeLeafReader(IndexReader):
        """One abstract segment: `size` documents, none deleted, nothing stored, no terms."""

        def __init__(self, index, size, schema):
            self.index = index
            self.size = size
            self.schema = schema
            self.is_closed = False

        def __contains__(self, term):
            return False

        def is_atomic(self):
            return True

        def close(self):
            self.is_closed = True

        def generation(self):
            return -1

        def indexed_field_names(self):
            return []

        def all_terms(self):
            return iter(())

        def terms_from(self, fieldname, prefix):
            return iter(())

        def has_deletions(self):
            return False

        def is_deleted(self, docnum):
            return False

        def stored_fields(self, docnum):
            return {}

        def all_stored_fields(self):
            return ({} for _ in range(self.size))

        def doc_count_all(self):
            return self.size

        def doc_count(self):
            return self.size

        def frequency(self, fieldname, text):
            return 0

        def doc_frequency(self, fieldname, text):
            return 0

        def field_length(self, fieldname):
            return 0

        def min_field_length(self, fieldname):
            return 0

        def max_field_length(self, fieldname):
            return 0

        def doc_field_length(self, docnum, fieldname, default=0):
            return default

        def has_vector(self, docnum, fieldname):
            return False

        def has_column(self, fieldname):
            return False

    class FakeTopReader(FakeLeafReader):
        """All abstract segments of a world (never atomic, also with one segment: the collectors are
        driven through the segment loop in every case)."""

        def __init__(self, subs, size, schema):
            FakeLeafReader.__init__(self, None, size, schema)
            self.subs = subs            # [(FakeLeafReader, offset)]

        def is_atomic(self):
            return False

        def leaf_readers(self):
            return list(self.subs)

    class FakeQuery(Query):
        def __init__(self, world):
            self.world = world

        def __eq__(self, other):
            return self is other

        def __hash__(self):
            return id(self)

        def is_leaf(self):
            return True

        def estimate_size(self, ixreader):
            return ixreader.doc_count()

        def estimate_min_size(self, ixreader):
            return 0

        def matcher(self, sub, context=None):
            w = self.world
            w.ctl.new_segment()
            off, sup, ps = w.segs[sub.index]
            return w.mclass(ps, sup, w.ctl)

    class FakeSub(Searcher):
        """The sub-searcher of one abstract segment (a real Searcher over a FakeLeafReader)."""

        def __init__(self, reader, weighting, parent):
            Searcher.__init__(self, reader, weighting=weighting, closereader=False, parent=parent)
            self.index = reader.index

    class FakeWorld(Searcher):
        """A searcher made of abstract segments: a real whoosh Searcher over fake readers whose query
        hands out the scheduled matcher."""

        def __init__(self, segs, sched, final_table=None, doccount=None):
            self.segs = segs
            self.ctl = SchedCtl(sched)
            self.mclass = make_matcher_class()
            self.q = FakeQuery(self)
            schema = fields.Schema()
            sizes = _seg_sizes(segs)
            subs = [(FakeLeafReader(i, sizes[i], schema), seg[0]) for i, seg in enumerate(segs)]
            total = 0
            for off, _, ps in segs:
                for d, _, _ in ps:
                    total = max(total, off + d + 1)
            if doccount is not None:
                total = doccount
            Searcher.__init__(self, FakeTopReader(subs, total, schema), weighting=FakeWeighting(final_table),
                              closereader=False)

        def _subsearcher(self, reader):
            return FakeSub(reader, self.weighting, self)

        def docs_for_query(self, q, for_deletion=False):
            # a FakeQuery stands for the postings of *its* world (a filter query handed to another search)
            for off, _, ps in getattr(q, "world", self).segs:
                for d, _, _ in ps:
                    yield off + d

        def _query_to_comb(self, fq):
            return BitSet(self.docs_for_query(fq), size=self.doc_count_all())

        def run(self, collector, needs_current=False):
            # the real Searcher.search_with_collector (prepare + run), then the collector's results()
            self.search_with_collector(self.q, collector, context=self.context(needs_current=needs_current))
            return collector.results()

    return {"FakeWeighting": FakeWeighting, "FakeLeafReader": FakeLeafReader, "FakeTopReader": FakeTopReader,
            "FakeQuery": FakeQuery, "FakeSub": FakeSub, "FakeWorld": FakeWorld}


_FAKES = ("FakeWeighting", "FakeLeafReader", "FakeTopReader", "FakeQuery", "FakeSub", "FakeWorld")


def __getattr__(name):
    # the fake classes subclass whoosh classes: built on first use (whoosh is imported lazily everywhere here)
    if name in _FAKES:
        globals().update(_build_fake_classes())
        return globals()[name]
    raise AttributeError(name)


def all_hits(segs, final_table=None):
    res = []
    for off, _, ps in segs:
        for d, s, _ in ps:
            g = off + d
            if final_table is not None:
                s = final_table.get(g, s)
            res.append((g, s))
    return res


def gen_world(rng, maxseg=4, maxpost=12, positive=True):
    """Random abstract segments + schedule. Scores are quarter-integers (exact as floats) from a small
    set so that ties are frequent."""
    nseg = rng.choice([1, 1, 2, 2, 3, 4]) if maxseg >= 4 else rng.randint(1, maxseg)
    pool = [0.25, 0.5, 0.75, 1.0, 1.0, 1.5, 2.0, 2.0, 2.5, 3.0, 4.0]
    if not positive:
        pool = pool + [0.0, 0.0, -0.5, -1.0]
    segs = []
    off = 0
    total = 0
    for _ in range(nseg):
        n = rng.choice([0, 1, 2, 3, 5, 8, maxpost]) if rng.random() < 0.5 else rng.randint(0, maxpost)
        doc = -1
        ps = []
        for i in range(n):
            doc += rng.choice([1, 1, 1, 2, 3])
            ps.append((doc, rng.choice(pool), rng.random() < 0.35))
        size = doc + 1 + rng.choice([0, 0, 1, 3])
        segs.append((off, rng.random() < 0.85, ps))
        off += max(size, 0)
        total += n
    steps = total + nseg + 2
    sched = []

    def wishes():
        # keep / drop / lower the score (a union that skipped one of its sub-matchers past the document)
        out = []
        for _ in range(rng.randint(0, 8)):
            x = rng.random()
            out.append(True if x < 0.3 else (("l", rng.choice(pool)) if x < 0.45 else False))
        return out

    for _ in range(steps):
        mask = wishes() if rng.random() < 0.55 else []
        st = (mask, rng.random() < 0.9, rng.choice([0, 0, 1, 1, 2, 3, 6]))
        if rng.random() < 0.3:
            st = st + (wishes(),)
        sched.append(st)
    return segs, sched


# ------------------------------------------------------------------------------------------------
# real indexes with tiny posting blocks

VOCAB = ["aa", "ab", "ac", "ba", "bb", "ca", "da", "ea"]


_BASE_TMP = os.environ.get("VERIF_SCRATCH") or tempfile.gettempdir()


def set_base_tmp(path):
    """Called by the parent before forking workers: all private temp dirs live under `path`, which the
    parent removes when the check is over."""
    global _BASE_TMP
    _BASE_TMP = path


def private_tmp(base=None):
    """RamStorage.temp_storage() puts '<indexname>.tmp' under tempfile.gettempdir(): processes that share
    it destroy each other's temporary files.  Give this process its own."""
    want = os.path.join(base or _BASE_TMP, "wverif-collect-tmp-%d" % os.getpid())
    if tempfile.tempdir != want:
        os.makedirs(want, exist_ok=True)
        tempfile.tempdir = want
    return want


def cleanup_private_tmp():
    import shutil
    d = tempfile.tempdir
    if d and "wverif-collect-tmp-" in d:
        tempfile.tempdir = None
        shutil.rmtree(d, ignore_errors=True)


def gen_corpus(rng, maxdocs=40):
    """A JSON-able corpus description."""
    n = rng.choice([6, 9, 12, 17, 24, 33, maxdocs]) if rng.random() < 0.7 else rng.randint(3, maxdocs)
    # word frequencies are skewed so that some posting lists are long (several blocks) and some short
    weights = [rng.choice([1, 2, 4, 8]) for _ in VOCAB]
    docs = []
    for i in range(n):
        ln = rng.choice([1, 2, 3, 4, 6, 9])
        t = rng.choices(VOCAB, weights, k=ln)
        u = rng.choices(VOCAB, k=rng.choice([0, 1, 2, 3]))
        d = {"t": t, "u": u, "n": rng.randint(0, 20), "k": rng.choice("pqrs"), "id": i}
        if rng.random() < 0.15:
            d["boost"] = rng.choice([0.5, 2.0, 4.0])
        docs.append(d)
    nseg = rng.choice([1, 1, 2, 3, 4])
    cuts = sorted(rng.sample(range(1, n), min(nseg - 1, n - 1))) if n > 1 else []
    dels = sorted(rng.sample(range(n), rng.choice([0, 0, 1, 2, n // 4]))) if n > 2 else []
    return {"docs": docs, "cuts": cuts, "dels": dels, "blocklimit": rng.choice([1, 2, 2, 4, 4, 8]),
            "tboost": rng.choice([1.0, 1.0, 2.0]), "uboost": rng.choice([1.0, 0.5])}


def build_index(corpus):
    """corpus description -> whoosh index in RAM (one segment per cut, deletions applied afterwards)."""
    from whoosh import fields, analysis
    from whoosh.filedb.filestore import RamStorage
    from whoosh.codec.whoosh3 import W3Codec
    private_tmp()
    ana = analysis.SpaceSeparatedTokenizer()
    schema = fields.Schema(
        t=fields.TEXT(analyzer=ana, phrase=True, field_boost=corpus.get("tboost", 1.0)),
        u=fields.KEYWORD(scorable=True, field_boost=corpus.get("uboost", 1.0)),
        n=fields.NUMERIC(int, 32, signed=False),
        k=fields.ID(),
        id=fields.STORED())
    ix = RamStorage().create_index(schema)
    docs = corpus["docs"]
    bounds = [0] + list(corpus["cuts"]) + [len(docs)]
    for a, b in zip(bounds, bounds[1:]):
        if a == b:
            continue
        w = ix.writer(codec=W3Codec(blocklimit=corpus["blocklimit"]))
        for d in docs[a:b]:
            kw = {"t": " ".join(d["t"]), "n": d["n"], "k": d["k"], "id": d["id"]}
            if d["u"]:
                kw["u"] = " ".join(d["u"])
            if "boost" in d:
                kw["_boost"] = d["boost"]
            w.add_document(**kw)
        w.commit(merge=False)
    if corpus["dels"]:
        w = ix.writer(codec=W3Codec(blocklimit=corpus["blocklimit"]))
        for i in corpus["dels"]:
            w.delete_document(i)
        w.commit(merge=False)
    return ix


# ------------------------------------------------------------------------------------------------
# query trees as JSON-able nested lists  [kind, args...]

LEAF_KINDS = ["term", "term", "term", "term", "phrase", "prefix", "wildcard", "termrange", "numrange", "fuzzy",
              "every", "uterm", "uterm"]
NODE_KINDS = ["and", "or", "or", "andnot", "andmaybe", "require", "dismax", "andwithnot", "const", "boost"]
DYADIC = [0.5, 2.0, 4.0, 0.25]
TIEBREAKS = [0.0, 0.0, 0.25, 0.5, 1.0, 2.0]
COORD_SCALES = [0.5, 0.9, 0.9, 1.0, 1.5, 1.75, 2.0]


def gen_query(rng, depth=3, allow_zero_boost=False):
    if depth <= 0 or rng.random() < 0.3:
        kind = rng.choice(LEAF_KINDS)
        if kind == "term":
            return ["term", "t", rng.choice(VOCAB)]
        if kind == "uterm":
            return ["term", "u", rng.choice(VOCAB)]
        if kind == "phrase":
            return ["phrase", "t", [rng.choice(VOCAB), rng.choice(VOCAB)], rng.choice([1, 1, 2, 3])]
        if kind == "prefix":
            return ["prefix", "t", rng.choice("abcde")]
        if kind == "wildcard":
            return ["wildcard", "t", rng.choice(["?a", "a*", "*b", "b?", "*"])]
        if kind == "termrange":
            a, b = sorted([rng.choice(VOCAB), rng.choice(VOCAB)])
            return ["termrange", "t", a, b]
        if kind == "numrange":
            a, b = sorted([rng.randint(0, 20), rng.randint(0, 20)])
            return ["numrange", a, b]
        if kind == "fuzzy":
            return ["fuzzy", "t", rng.choice(VOCAB), 1]
        return ["every", rng.choice([None, "t", "u"])]
    kind = rng.choice(NODE_KINDS)
    sub = lambda: gen_query(rng, depth - 1, allow_zero_boost)
    if kind == "dismax":
        # DisjunctionMax(..., tiebreak=t): every second one carries a non-zero tie-breaker (dyadic, so exact)
        return [kind, [sub() for _ in range(rng.choice([2, 2, 3, 4]))], rng.choice(TIEBREAKS)]
    if kind == "or" and rng.random() < 0.3:
        # Or(..., scale=s): the coordination bonus of qparser.OrGroup.factory(s) (CoordMatcher around the union)
        return [kind, [sub() for _ in range(rng.choice([2, 2, 3, 4]))], rng.choice(COORD_SCALES)]
    if kind in ("and", "or"):
        return [kind, [sub() for _ in range(rng.choice([2, 2, 3, 4]))]]
    if kind in ("andnot", "andmaybe", "require"):
        return [kind, sub(), sub()]
    if kind == "andwithnot":
        return ["and", [sub(), ["not", sub()]]]
    if kind == "const":
        return ["const", sub(), rng.choice([0.5, 1.0, 2.0])]
    boosts = DYADIC + ([0.0] if allow_zero_boost else [])
    return ["boost", sub(), rng.choice(boosts)]


def build_query(q):
    from whoosh import query
    k = q[0]
    if k == "term":
        return query.Term(q[1], q[2])
    if k == "phrase":
        return query.Phrase(q[1], list(q[2]), slop=q[3])
    if k == "prefix":
        return query.Prefix(q[1], q[2])
    if k == "wildcard":
        return query.Wildcard(q[1], q[2])
    if k == "termrange":
        return query.TermRange(q[1], q[2], q[3])
    if k == "numrange":
        return query.NumericRange("n", q[1], q[2])
    if k == "fuzzy":
        return query.FuzzyTerm(q[1], q[2], maxdist=q[3])
    if k == "every":
        return query.Every(q[1]) if q[1] else query.Every()
    if k == "and":
        return query.And([build_query(x) for x in q[1]])
    if k == "or":
        # ["or", subs] or ["or", subs, scale]
        return query.Or([build_query(x) for x in q[1]], scale=(q[2] if len(q) > 2 else None))
    if k == "dismax":
        # ["dismax", subs] or ["dismax", subs, tiebreak]
        return query.DisjunctionMax([build_query(x) for x in q[1]], tiebreak=(q[2] if len(q) > 2 else 0.0))
    if k == "andnot":
        return query.AndNot(build_query(q[1]), build_query(q[2]))
    if k == "andmaybe":
        return query.AndMaybe(build_query(q[1]), build_query(q[2]))
    if k == "require":
        return query.Require(build_query(q[1]), build_query(q[2]))
    if k == "not":
        return query.Not(build_query(q[1]))
    if k == "const":
        return query.ConstantScoreQuery(build_query(q[1]), q[2])
    if k == "boost":
        return build_query(q[1]).with_boost(q[2])
    if k == "null":
        return query.NullQuery
    raise ValueError(k)


def query_kinds(q, acc=None):
    acc = set() if acc is None else acc
    acc.add(q[0])
    if q[0] == "or" and len(q) > 2 and q[2]:
        acc.add("coord")
    for x in q[1:]:
        if isinstance(x, list) and x and isinstance(x[0], str) and x[0] in KINDS:
            query_kinds(x, acc)
        elif isinstance(x, list):
            for y in x:
                if isinstance(y, list) and y and isinstance(y[0], str) and y[0] in KINDS:
                    query_kinds(y, acc)
    return acc


KINDS = {"term", "phrase", "prefix", "wildcard", "termrange", "numrange", "fuzzy", "every", "and", "or", "dismax",
         "andnot", "andmaybe", "require", "not", "const", "boost", "null"}


def subqueries(q):
    """Immediate simplifications of a query tree (for shrinking)."""
    k = q[0]
    out = []
    if k in ("and", "or", "dismax"):
        for x in q[1]:
            out.append(x)
        if len(q[1]) > 2:
            for i in range(len(q[1])):
                out.append([k, q[1][:i] + q[1][i + 1:]] + q[2:])
        for i, x in enumerate(q[1]):
            for y in subqueries(x):
                out.append([k, q[1][:i] + [y] + q[1][i + 1:]] + q[2:])
        if k == "dismax" and len(q) > 2 and q[2]:
            out.append([k, q[1], 0.0])
        if k == "or" and len(q) > 2:
            out.append([k, q[1]])
    elif k in ("andnot", "andmaybe", "require"):
        out.append(q[1])
        out.append(q[2])
        for y in subqueries(q[1]):
            out.append([k, y, q[2]])
        for y in subqueries(q[2]):
            out.append([k, q[1], y])
    elif k in ("not", "const", "boost"):
        out.append(q[1])
        for y in subqueries(q[1]):
            out.append([k, y] + q[2:])
    elif k in ("phrase", "prefix", "wildcard", "termrange", "fuzzy"):
        out.append(["term", "t", VOCAB[0]])
    return out


WEIGHTINGS = ["freq", "freq", "freq", "bm25", "bm25", "bm25b0", "bm25k", "tfidf", "pl2", "dfree", "multi", "function"]


def build_weighting(name):
    from whoosh import scoring
    if name == "freq":
        return scoring.Frequency()
    if name == "bm25":
        return scoring.BM25F()
    if name == "bm25b0":
        return scoring.BM25F(B=0.0, K1=1.5)
    if name == "bm25k":
        return scoring.BM25F(B=1.0, K1=0.5, u_B=0.25)
    if name == "tfidf":
        return scoring.TF_IDF()
    if name == "pl2":
        return scoring.PL2()
    if name == "dfree":
        return scoring.DFree()
    if name == "multi":
        return scoring.MultiWeighting(scoring.BM25F(), u=scoring.Frequency())
    if name == "function":
        return scoring.FunctionWeighting(lambda searcher, fieldname, text, matcher: matcher.weight() * 0.5 + 0.25)
    if name == "revfreq":
        return scoring.ReverseWeighting(scoring.Frequency())
    if name == "finalhook":
        # a weighting with the documented final() hook: not monotone in the raw score
        class FinalHook(scoring.Frequency):
            use_final = True

            def final(self, searcher, docnum, score):
                return score * (8.0 if docnum % 3 == 0 else 1.0)
        return FinalHook()
    raise ValueError(name)


# ------------------------------------------------------------------------------------------------
# watchdog: some defects of the pinned tree make a search loop forever

class Hang(Exception):
    pass


class time_limit(object):
    """`with time_limit(2.0): ...` raises Hang inside the block when it takes longer (main thread of a
    worker process only)."""

    def __init__(self, seconds):
        self.seconds = seconds

    def _fire(self, signum, frame):
        raise Hang("no answer within %.1fs" % self.seconds)

    def __enter__(self):
        import signal
        self.old = signal.signal(signal.SIGALRM, self._fire)
        signal.setitimer(signal.ITIMER_REAL, self.seconds)
        return self

    def __exit__(self, *exc):
        import signal
        signal.setitimer(signal.ITIMER_REAL, 0)
        signal.signal(signal.SIGALRM, self.old)
        return False
