"""Helpers for C16: shipped parser configurations, serialisation of syntax nodes / query trees to the
protocol S-expressions of lean/WM/Drv/C16.lean, string and expression generators, a small index."""
import datetime
import sys
import traceback
import warnings

warnings.simplefilter("ignore")

from whoosh import fields, query  # noqa: E402
from whoosh import qparser  # noqa: E402
from whoosh.qparser import syntax, plugins, dateparse  # noqa: E402
from whoosh.qparser.common import QueryParserError  # noqa: E402
from whoosh.filedb.filestore import RamStorage  # noqa: E402


# ------------------------------------------------------------------------------------------------
# schema, index

def make_schema():
    from decimal import Decimal
    return fields.Schema(
        price=fields.NUMERIC(Decimal, decimal_places=2, stored=True), un=fields.NUMERIC(int, bits=16, signed=False),
        sn=fields.NUMERIC(int, sortable=True), sf=fields.NUMERIC(float, bits=32, sortable=True),
        ws=fields.NGRAMWORDS(minsize=2, maxsize=3, at="start"), kc=fields.KEYWORD(commas=True, scorable=True),
        il=fields.IDLIST(), ts=fields.TEXT(sortable=True, phrase=False), tl=fields.TEXT(lang="de"),
        t=fields.TEXT(stored=True), k=fields.KEYWORD(stored=True, lowercase=True), i=fields.ID(stored=True),
        n=fields.NUMERIC(int, stored=True), f=fields.NUMERIC(float), d=fields.DATETIME(stored=True),
        b=fields.BOOLEAN(stored=True), g=fields.NGRAM(minsize=2, maxsize=3), w=fields.NGRAMWORDS(minsize=2, maxsize=3),
        p=fields.TEXT(phrase=False), u=fields.TEXT(multitoken_query="or"), s=fields.STORED)


FIELD_NAMES = ["t", "k", "i", "n", "f", "d", "b", "g", "w", "p", "u", "price", "un", "sn", "sf", "ws", "kc", "il", "ts",
               "tl"]
WORDS = ["alfa", "bravo", "charlie", "delta", "echo", "foxtrot", "golf", "hotel", "india", "juliet",
         "kilo", "lima"]

_INDEX = {}


def make_docs():
    docs = []
    for j in range(24):
        ws = [WORDS[(j * 7 + 3 * m) % len(WORDS)] for m in range(1 + j % 5)]
        docs.append(dict(
            t=u" ".join(ws), k=u" ".join(ws[:2]), i=u"id%d" % j, n=j * 3 - 10, f=j / 4.0,
            d=datetime.datetime(2010 + j % 5, 1 + j % 12, 1 + j % 28), b=bool(j % 2),
            g=u"".join(ws[:1]), w=u" ".join(ws[:2]), p=u" ".join(ws), u=u" ".join(ws), s=u"x",
            price=u"%d.%02d" % (j, (j * 37) % 100), un=j * 100, sn=j - 5, sf=j / 8.0, ws=u" ".join(ws[:2]),
            kc=u", ".join(ws[:2]), il=u" ".join(ws[:2]), ts=u" ".join(ws), tl=u" ".join(ws)))
    return docs


def get_index():
    """A three-segment RAM index over make_schema()."""
    if "ix" not in _INDEX:
        st = RamStorage()
        ix = st.create_index(make_schema())
        docs = make_docs()
        for lo, hi in ((0, 9), (9, 17), (17, 24)):
            w = ix.writer()
            for dct in docs[lo:hi]:
                w.add_document(**dct)
            w.commit(merge=False)
        _INDEX["ix"] = ix
    return _INDEX["ix"]


# ------------------------------------------------------------------------------------------------
# parser configurations

def _fn_plugin():
    def hello(qs, *args, **kwargs):
        qs = [q for q in qs if q is not None]
        return query.Or(qs) if qs else query.NullQuery

    def every(qs, *args, **kwargs):
        return query.Every()
    return plugins.FunctionPlugin({"hello": hello, "all": every})


def _pseudo_plugin():
    def regex_maker(node):
        if node.has_text:
            node = plugins.RegexPlugin.RegexNode(node.text)
            node.set_fieldname("t")
            return node

    def rev_text(node):
        if node.has_text:
            rnode = syntax.WordNode(node.text[::-1])
            group = syntax.OrGroup([node, rnode])
            group.set_fieldname("k")
            return group
    return plugins.PseudoFieldPlugin({"regex": regex_maker, "k": rev_text})


def _custom_ops():
    ot = plugins.OperatorsPlugin.OpTagger
    return plugins.OperatorsPlugin(
        [(ot(r"(?<=\s)->(?=\s)", syntax.OrGroup, syntax.InfixOperator, leftassoc=False, memo="rarrow"), 0),
         (ot(r"!(?=\s|$)", syntax.NotGroup, syntax.PostfixOperator, memo="bang"), 0),
         (ot(r"(?<=\s)<-(?=\s)", syntax.AndNotGroup, syntax.InfixOperator, leftassoc=False, memo="larrow"), 0)])


def _mk(default="t", group=syntax.AndGroup, add=(), remove=(), schema=True, **kw):
    sch = make_schema() if schema else None
    p = qparser.QueryParser(default, sch, group=group, **kw)
    for cls in remove:
        p.remove_plugin_class(cls)
    for pl in add:
        if isinstance(pl, plugins.OperatorsPlugin) or isinstance(pl, plugins.FieldsPlugin):
            p.replace_plugin(pl)
        else:
            p.add_plugin(pl)
    return p


CONFIGS = {
    "default": lambda: _mk(),
    "default-k": lambda: _mk("k"),
    "default-i": lambda: _mk("i"),
    "default-n": lambda: _mk("n"),
    "default-f": lambda: _mk("f"),
    "default-d": lambda: _mk("d"),
    "default-b": lambda: _mk("b"),
    "default-g": lambda: _mk("g"),
    "default-w": lambda: _mk("w"),
    "default-p": lambda: _mk("p"),
    "default-u": lambda: _mk("u"),
    "default-price": lambda: _mk("price"),
    "default-un": lambda: _mk("un"),
    "default-sf": lambda: _mk("sf"),
    "default-ws": lambda: _mk("ws"),
    "default-kc": lambda: _mk("kc"),
    "multifield-num": lambda: qparser.MultifieldParser(["t", "price", "un", "sf"], make_schema()),
    "dismax-num": lambda: qparser.DisMaxParser({"t": 1.0, "price": 2.0, "sn": 0.5}, make_schema()),
    "or": lambda: _mk(group=syntax.OrGroup),
    "or-scaled": lambda: _mk(group=syntax.OrGroup.factory(0.9)),
    "noschema": lambda: _mk(schema=False),
    "keep-unknown": lambda: _mk(add=[plugins.FieldsPlugin(remove_unknown=False)]),
    "multifield": lambda: qparser.MultifieldParser(["t", "k"], make_schema()),
    "multifield-g": lambda: qparser.MultifieldParser(["t", "g"], make_schema()),
    "multifield-boost": lambda: qparser.MultifieldParser(["t", "k", "n"], make_schema(),
                                                         fieldboosts={"t": 2.0, "k": 0.5}),
    "multifield-or": lambda: qparser.MultifieldParser(["t", "d", "b"], make_schema(), group=syntax.OrGroup),
    "simple": lambda: qparser.SimpleParser("t", make_schema()),
    "simple-n": lambda: qparser.SimpleParser("n", make_schema()),
    "dismax": lambda: qparser.DisMaxParser({"t": 1.0, "k": 0.5}, make_schema()),
    "dismax-tb": lambda: qparser.DisMaxParser({"t": 1.0, "i": 2.0, "n": 1.5}, make_schema(), tiebreak=0.25),
    "fuzzy": lambda: _mk(add=[plugins.FuzzyTermPlugin()]),
    "gtlt": lambda: _mk(add=[plugins.GtLtPlugin()]),
    "regex": lambda: _mk(add=[plugins.RegexPlugin()]),
    "plusminus": lambda: _mk(add=[plugins.PlusMinusPlugin()]),
    "plusminus-or": lambda: _mk(add=[plugins.PlusMinusPlugin()], group=syntax.OrGroup),
    "copyfield": lambda: _mk(add=[plugins.CopyFieldPlugin({"t": "k", "i": "p"})]),
    "copyfield-inline": lambda: _mk(add=[plugins.CopyFieldPlugin({"t": "k"}, group=None)]),
    "copyfield-mirror": lambda: _mk(add=[plugins.CopyFieldPlugin({"t": "k"}, group=syntax.AndGroup, mirror=True)]),
    "alias": lambda: _mk(add=[plugins.FieldAliasPlugin({"t": ["text", "body"], "n": ["num"]})]),
    "prefix": lambda: _mk(add=[plugins.PrefixPlugin()], remove=[plugins.WildcardPlugin]),
    "custom-ops": lambda: _mk(add=[_custom_ops()]),
    "modelled-all": lambda: _mk(add=[plugins.FuzzyTermPlugin(), plugins.GtLtPlugin(), plugins.RegexPlugin(),
                                     plugins.CopyFieldPlugin({"i": "p"}),
                                     plugins.FieldAliasPlugin({"t": ["text"]})]),
    # configurations with filters/nodes that the Lean model does not cover (end-to-end only)
    "dateparse": lambda: _mk(add=[dateparse.DateParserPlugin(basedate=datetime.datetime(2012, 3, 4, 5, 6, 7))]),
    "dateparse-free": lambda: _mk(add=[dateparse.DateParserPlugin(basedate=datetime.datetime(2012, 3, 4, 5, 6, 7),
                                                                 free=True)]),
    "dateparse-d": lambda: _mk("d", add=[dateparse.DateParserPlugin(basedate=datetime.datetime(2012, 3, 4))]),
    "function": lambda: _mk(add=[_fn_plugin()]),
    "pseudofield": lambda: _mk(add=[_pseudo_plugin()]),
    "sequence": lambda: _mk(add=[plugins.SequencePlugin()], remove=[plugins.PhrasePlugin]),
    "everything": lambda: _mk(add=[plugins.FuzzyTermPlugin(), plugins.GtLtPlugin(), plugins.RegexPlugin(),
                                   plugins.PlusMinusPlugin(), _fn_plugin(), _pseudo_plugin(),
                                   plugins.CopyFieldPlugin({"i": "p"}),
                                   plugins.FieldAliasPlugin({"t": ["text"]}),
                                   dateparse.DateParserPlugin(basedate=datetime.datetime(2012, 3, 4))]),
}

_PARSERS = {}


def get_parser(name):
    if name not in _PARSERS:
        _PARSERS[name] = CONFIGS[name]()
    return _PARSERS[name]


# ------------------------------------------------------------------------------------------------
# serialisation

class Unsupported(Exception):
    pass


def s_str(s):
    return "(" + " ".join(str(ord(c)) for c in s) + ")"


def s_optstr(s):
    return "none" if s is None else s_str(s)


def s_rat(x):
    if isinstance(x, int):
        return str(x)
    if x != x or x in (float("inf"), float("-inf")):
        raise Unsupported("non-finite boost")
    n, d = float(x).as_integer_ratio()
    return "%d/%d" % (n, d) if d != 1 else "%d" % n


GROUP_KINDS = [(syntax.AndGroup, "and"), (syntax.OrGroup, "or"), (syntax.DisMaxGroup, "dismax"),
               (syntax.OrderedGroup, "ordered"), (syntax.AndNotGroup, "andnot"),
               (syntax.AndMaybeGroup, "andmaybe"), (syntax.RequireGroup, "require"), (syntax.NotGroup, "not"),
               (plugins.SequencePlugin.SequenceNode, "seq")]


def gk_of_class(cls):
    for c, name in GROUP_KINDS:
        if cls is c:
            return name
    for c, name in GROUP_KINDS:  # ScaledOrGroup etc.
        if issubclass(cls, c):
            return name
    raise Unsupported("group class %s" % cls.__name__)


def optype_of_class(cls):
    if issubclass(cls, syntax.PrefixOperator):
        return "pre"
    if issubclass(cls, syntax.PostfixOperator):
        return "post"
    if issubclass(cls, syntax.InfixOperator):
        return "inf"
    raise Unsupported("operator class %s" % cls.__name__)


def s_node(n, leafmap=None):
    """Syntax node -> protocol text.  With `leafmap` (a list), every leaf that has a query()
    (text/range/every) is replaced by a word node numbered in DFS order and appended to it."""
    c = n.__class__
    if isinstance(n, syntax.GroupNode):
        return "(g %s (%s) %s)" % (gk_of_class(c), " ".join(s_node(x, leafmap) for x in n.nodes), s_rat(n.boost))
    if leafmap is not None and (isinstance(n, (syntax.TextNode, syntax.RangeNode)) or c is plugins.EveryPlugin.EveryNode):
        leafmap.append(n)
        return "(t w (%d) none 1)" % (len(leafmap) - 1)
    if c is syntax.Whitespace:
        return "ws"
    if isinstance(n, syntax.TextNode):
        if c is syntax.WordNode:
            k = "w"
        elif c is plugins.WildcardPlugin.WildcardNode:
            k = "wild"
        elif c is plugins.PrefixPlugin.PrefixNode:
            k = "pre"
        elif c is plugins.RegexPlugin.RegexNode:
            k = "re"
        elif c is plugins.PhrasePlugin.PhraseNode:
            k = "(ph %d)" % n.slop
        elif c is plugins.FuzzyTermPlugin.FuzzyTermNode:
            k = "(fz %d %d)" % (n.maxdist, n.prefixlength)
        else:
            raise Unsupported("text node class %s" % c.__name__)
        return "(t %s %s %s %s)" % (k, s_str(n.text), s_optstr(n.fieldname), s_rat(n.boost))
    if c is syntax.RangeNode:
        if n.boost != 1.0:
            raise Unsupported("range boost")
        return "(r %s %s %d %d %s)" % (s_optstr(n.start), s_optstr(n.end), bool(n.startexcl), bool(n.endexcl),
                                       s_optstr(n.fieldname))
    if c is syntax.FieldnameNode:
        return "(fn %s %s)" % (s_str(n.fieldname), s_str(n.original))
    if c is plugins.GroupPlugin.OpenBracket:
        return "opn"
    if c is plugins.GroupPlugin.CloseBracket:
        return "cls"
    if isinstance(n, syntax.Operator):
        return "(op %s %s %d %s)" % (optype_of_class(c), gk_of_class(n.grouptype), bool(n.leftassoc), s_str(n.text))
    if c is plugins.BoostPlugin.BoostNode:
        return "(bst %s %s)" % (s_str(n.original), s_rat(n.boost))
    if c is plugins.EveryPlugin.EveryNode:
        return "every"
    if c is plugins.PlusMinusPlugin.Plus:
        return "plus"
    if c is plugins.PlusMinusPlugin.Minus:
        return "minus"
    if c is plugins.FuzzyTermPlugin.FuzzinessNode:
        return "(fuzz %d %d %s)" % (n.maxdist, n.prefixlength, s_str(n.original))
    if c is plugins.GtLtPlugin.GtLtNode:
        rel = {"<": "lt", ">": "gt", "<=": "le", "=<": "el", ">=": "ge", "=>": "eg"}.get(n.rel)
        if rel is None:
            raise Unsupported("GtLtNode rel %r" % (n.rel,))
        return "(gtlt %s)" % rel
    raise Unsupported("node class %s" % c.__name__)


MODELLED_FILTERS = {"do_groups", "clean_boost", "do_fuzzyterms", "do_wildcards", "do_aliases", "do_gtlt",
                    "do_fieldnames", "do_copyfield", "do_multifield", "remove_whitespace", "do_boost",
                    "do_plusminus", "do_operators"}


def s_cfg(p):
    """The parser's configuration as the model's `Cfg`; raises Unsupported when the parser has a
    filter the model does not cover."""
    flt = []
    ops, mf, mfg, cp, cpg, al, ru = [], [], "or", [], "none", [], True
    for pl in p.plugins:
        for fn, prio in pl.filters(p):
            name = fn.__name__
            if name not in MODELLED_FILTERS:
                raise Unsupported("filter %s" % name)
            flt.append("(%s %d)" % (name, prio))
        if isinstance(pl, plugins.OperatorsPlugin):
            if ops:
                raise Unsupported("two OperatorsPlugins")
            ops = ["(%s %s %d)" % (optype_of_class(t.optype), gk_of_class(t.grouptype), bool(t.leftassoc))
                   for t, _ in pl.ops]
        elif isinstance(pl, plugins.MultifieldPlugin):
            mf = ["(%s %s)" % (s_str(fn), s_rat(pl.boosts.get(fn, 1.0))) for fn in pl.fieldnames]
            mfg = gk_of_class(pl.group)
        elif isinstance(pl, plugins.CopyFieldPlugin):
            cp = ["(%s %s)" % (s_str(a), s_str(b)) for a, b in pl.map.items()]
            cpg = "none" if pl.group is None else gk_of_class(pl.group)
        elif isinstance(pl, plugins.FieldAliasPlugin):
            al = ["(%s %s)" % (s_str(a), s_str(b)) for a, b in pl.reverse.items()]
        elif isinstance(pl, plugins.FieldsPlugin):
            ru = bool(pl.removeunknown)
    sch = "none" if p.schema is None else "(" + " ".join(s_str(n) for n in p.schema.names()) + ")"
    return "(cfg %s %s %s %d (%s) (%s) %s (%s) %s (%s) (%s))" % (
        gk_of_class(p.group), s_optstr(p.fieldname), sch, ru, " ".join(ops), " ".join(mf), mfg,
        " ".join(cp), cpg, " ".join(al), " ".join(flt))


# ------------------------------------------------------------------------------------------------
# QueryParser.tag(): the taggers as the model sees them (lean/WM/Model/ParserTag.lean)

import re as _re  # noqa: E402

_OP_SHAPES = [
    # (regular expression over the tagger's pattern text, atStart, afterParen)
    (_re.compile(r"^\(\?<=\\s\)([A-Za-z]+)\(\?=\\s\)$"), False, False),
    (_re.compile(r"^\(\^\|\(\?<=\(\\s\|\[\(\)\]\)\)\)([A-Za-z]+)\(\?=\\s\)$"), True, True),
    (_re.compile(r"^\(\^\|\(\?<=\\s\)\)([A-Za-z]+)\(\?=\\s\)$"), True, False),
]


def s_node_opaque(n):
    """s_node, with node classes the model has no constructor for as opaque text nodes"""
    try:
        return s_node(n)
    except Unsupported:
        return "(t re %s none 1)" % s_str("\x00" + n.__class__.__name__)


class TaggerRaised(Exception):
    pass


def s_tagger(p, tg, text):
    """One tagger as the model's `Tagger`: the fixed-string taggers structurally (recognised by
    class and pattern text; anything else is semantic), every other tagger as the table of its
    answers at every position."""
    from whoosh.qparser import taggers as T
    pat = getattr(getattr(tg, "expr", None), "pattern", None)
    flags = getattr(getattr(tg, "expr", None), "flags", 0)
    plain = pat is not None and not (flags & (_re.IGNORECASE | _re.MULTILINE | _re.VERBOSE | _re.DOTALL))
    if plain and type(tg) is T.FnTagger and type(tg).match is T.RegexTagger.match:
        if pat == "[(]" and tg.fn is plugins.GroupPlugin.OpenBracket:
            return "opn"
        if pat == "[)]" and tg.fn is plugins.GroupPlugin.CloseBracket:
            return "cls"
    if (plain and type(tg) is plugins.WhitespacePlugin and pat == r"\s+" and tg.nodetype is syntax.Whitespace
            and type(tg).match is T.RegexTagger.match):
        return "ws"
    if plain and type(tg) is plugins.OperatorsPlugin.OpTagger and type(tg).match is T.RegexTagger.match:
        for rx, at_start, after_paren in _OP_SHAPES:
            m = rx.match(pat)
            if m:
                return "(op %s %d %d %s %s %d)" % (s_str(m.group(1)), at_start, after_paren, optype_of_class(tg.optype),
                                                    gk_of_class(tg.grouptype), bool(tg.leftassoc))
    hits = []
    for pos in range(len(text)):
        try:
            node = tg.match(p, text, pos)
        except Exception:
            raise TaggerRaised(type(tg).__name__)
        if node is not None:
            if not isinstance(node.endchar, int):
                raise TaggerRaised("endchar of %s" % type(node).__name__)
            hits.append("(%d %s %d %d)" % (pos, s_node_opaque(node), node.endchar, bool(node)))
    return "(ext (%s))" % " ".join(hits)


def tag_request(p, text):
    """(driver request, kinds of taggers) for the model of tag() on `text`"""
    tgs = [s_tagger(p, tg, text) for tg in p.taggers()]
    chars = " ".join("(%d %d)" % (ord(c), c.isspace()) for c in text)
    return "c16 tag (%s) (%s)" % (chars, " ".join(tgs)), [t if t[0] != "(" else t[1:4].strip() for t in tgs]


def real_tagged(p, text):
    try:
        nodes = list(p.tag(text))
    except Exception as e:
        return "err " + err_name(e)
    return "ok (" + " ".join("(%s %s %s)" % (s_node_opaque(n), n.startchar, n.endchar) for n in nodes) + ")"


COMPOUND_Q = [(query.And, "and"), (query.Or, "or"), (query.DisjunctionMax, "dismax"),
              (query.Ordered, "ordered"), (query.Sequence, "seq")]
BINARY_Q = [(query.AndNot, "andnot"), (query.AndMaybe, "andmaybe"), (query.Require, "require")]


def render_q(q):
    """Query object -> text; compound classes structurally, everything else as an opaque leaf."""
    if q is None:
        return "none"
    c = q.__class__
    for qc, name in COMPOUND_Q:
        if c is qc:
            return "(c %s (%s) %s)" % (name, " ".join(render_q(s) for s in q.subqueries), s_rat(q.boost))
    for qc, name in BINARY_Q:
        if c is qc:
            return "(bin %s %s %s)" % (name, render_q(q.a), render_q(q.b))
    if c is query.Not:
        return "(not %s)" % render_q(q.query)
    if c is query.qcore._NullQuery:
        return "null"
    return "L<%r|%r>" % (q, getattr(q, "boost", None))


def render_model_q(sx, leaves):
    """Parsed S-expression of the model's Q -> the same text, leaf i rendered from leaves[i]."""
    if sx == "null":
        return "null"
    if sx == "none":
        return "none"
    if sx[0] == "leaf":
        return render_q(leaves[int(sx[1])])
    if sx[0] == "c":
        return "(c %s (%s) %s)" % (sx[1], " ".join(render_model_q(s, leaves) for s in sx[2]), sx[3])
    if sx[0] == "not":
        return "(not %s)" % render_model_q(sx[1], leaves)
    if sx[0] == "bin":
        return "(bin %s %s %s)" % (sx[1], render_model_q(sx[2], leaves), render_model_q(sx[3], leaves))
    raise ValueError(sx)


def exc_signature(e, tb):
    """(exception class name, innermost whoosh function) of a traceback."""
    frames = [f for f in traceback.extract_tb(tb) if "/whoosh/" in f.filename]
    fn = frames[-1].name if frames else "?"
    fl = frames[-1].filename.rsplit("/", 1)[-1] if frames else "?"
    return type(e).__name__, "%s:%s" % (fl, fn)


def err_name(e):
    n = type(e).__name__
    if n in ("IndexError", "AssertionError", "NotImplementedError", "UnboundLocalError", "QueryParserError"):
        return n
    return "Other"


# ------------------------------------------------------------------------------------------------
# string generators

ATOMS_WORD = ["alfa", "bravo", "charlie", "delta", "Echo", "the", "a", "x", "中文", "é", "naïve", "𝔘", "12", "-3", "1.5",
              "20100101", "2012-03", "true", "false", "yes", "today", "tuesday", "id3", "to", "TO", "r", "al"]
ATOMS_OP = ["AND", "OR", "NOT", "ANDNOT", "ANDMAYBE", "REQUIRE", "->", "<-", "!"]
ATOMS_PUNCT = ["(", ")", "\"", "'", "^", "^2", "^0.5", "^.5", "^", "~", "~2", "~2/3", "~/2", ":", "*", "?", "*:*",
               "[", "]", "{", "}", "+", "-", "<", ">", "<=", ">=", "=<", "=>", "=", "!=", "#", "#hello", "#all",
               "[a,b]", "r\"", "\\", ".", ",", "/", "|", "&", "\u055e"]
ATOMS_FIELD = [f + ":" for f in FIELD_NAMES] + ["x:", "text:", "body:", "num:", "regex:", "*:", "s:", "_x:", "中:"]
ATOMS_RANGE = ["[a TO b]", "{1 TO 5]", "[ TO ]", "[TO]", "[alfa TO]", "{TO 20120101}", "['a b' TO 'c d']",
               "[2010 to 2012]", "[a TO b}", "[1 TO", "TO 5]", "[true TO false]", "[-5 TO 1.5]", "[today TO tomorrow]"]
ATOMS_WS = [" ", " ", " ", " ", "  ", "\t", "\n", "\u3000", ""]
ATOMS_DATE = ["today", "tomorrow", "yesterday", "last tuesday", "next friday", "5 days ago", "jan 5 2010",
              "2010-01-05", "midnight", "noon", "3pm", "march", "-1d", "+2 weeks", "now"]


def gen_fuzz_string(rng):
    """A grammar-aware random string: tokens of the query language glued with or without blanks."""
    n = rng.choice((1, 2, 2, 3, 3, 4, 5, 6, 8, 12))
    parts = []
    for _ in range(n):
        r = rng.random()
        if r < 0.30:
            tok = rng.choice(ATOMS_WORD)
        elif r < 0.45:
            tok = rng.choice(ATOMS_OP)
        elif r < 0.70:
            tok = rng.choice(ATOMS_PUNCT)
        elif r < 0.85:
            tok = rng.choice(ATOMS_FIELD)
        elif r < 0.93:
            tok = rng.choice(ATOMS_RANGE)
        else:
            tok = rng.choice(ATOMS_DATE)
        parts.append(tok)
        parts.append(rng.choice(ATOMS_WS) if rng.random() < 0.7 else "")
    return "".join(parts)


def gen_structured_string(rng, depth=0):
    """Mostly well-formed expression text (operators between operands, balanced brackets) with a
    small chance of corruption at every step."""
    def operand(d):
        r = rng.random()
        if r < 0.12 and d < 3:
            return "(" + gen_structured_string(rng, d + 1) + ")"
        base = rng.choice(ATOMS_WORD)
        r2 = rng.random()
        if r2 < 0.08:
            base = '"%s %s"' % (base, rng.choice(ATOMS_WORD))
            if rng.random() < 0.3:
                base += "~%d" % rng.randint(1, 3)
        elif r2 < 0.14:
            base = rng.choice(ATOMS_RANGE)
        elif r2 < 0.20:
            base = base + rng.choice(["*", "?", "*x", "?*"])
        elif r2 < 0.24:
            base = "'%s %s'" % (base, rng.choice(ATOMS_WORD))
        elif r2 < 0.28:
            base = base + rng.choice(["~", "~2", "~1/2"])
        elif r2 < 0.31:
            base = rng.choice(["<", ">", "<=", ">="]) + base
        if rng.random() < 0.25:
            base = rng.choice(ATOMS_FIELD) + base
        if rng.random() < 0.12:
            base += rng.choice(["^2", "^0.5", "^", "^3.25"])
        if rng.random() < 0.1:
            base = rng.choice(["NOT ", "+", "-"]) + base
        return base
    k = rng.choice((1, 2, 2, 3, 3, 4, 5))
    out = [operand(depth)]
    for _ in range(k - 1):
        r = rng.random()
        if r < 0.35:
            out.append(" ")
        elif r < 0.9:
            out.append(" %s " % rng.choice(ATOMS_OP[:6]))
        else:
            out.append(" %s " % rng.choice(ATOMS_OP))
        out.append(operand(depth))
    s = "".join(out)
    if rng.random() < 0.15:  # corruption
        pos = rng.randint(0, len(s))
        r = rng.random()
        if r < 0.4:
            s = s[:pos] + rng.choice(ATOMS_PUNCT + ATOMS_OP) + s[pos:]
        elif r < 0.7 and s:
            s = s[:pos] + s[pos + 1:]
        else:
            s = s[:pos] + " " + rng.choice(ATOMS_OP) + " " + s[pos:]
    return s


REGRESSION_STRINGS = [
    u"^^ g: NOT AND 中!=t:", u"d:[a TO b]", u"b:[a TO b]", u"alfa ANDNOT REQUIRE bravo", u"NOT NOT alfa",
    u"NOT ANDNOT bravo", u"alfa ANDNOT ANDMAYBE bravo", u">\"", u"d:>=+", u"b:\"x y\"", u"[ TO ]", u"(NOT) alfa",
    u"alfa NOT", u"", u" ", u"()", u"(", u")", u"((alfa)", u"alfa)) bravo", u"t:", u":", u"^", u"^2", u"alfa^2^3",
    u"*", u"?", u"*:*", u"x:y:alfa", u"t:k:alfa", u"alfa OR", u"OR alfa", u" AND ", u"alfa AND AND bravo",
    u"(alfa OR bravo)^2 AND charlie", u"(alfa bravo) AND charlie", u"t:(alfa OR k:bravo)", u"alfa* b?avo *x",
    u"'alfa bravo'", u"\"alfa bravo\"~2^3", u"k:[alfa TO charlie}", u"n:[1 TO 5]", u"n:abc", u"d:2010", u"b:yes",
    u"+alfa -bravo charlie", u"alfa~2/3", u"n:>5", u"n:<=abc", u"text:alfa", u"regex:al.a", u"#hello[1,2](alfa)",
    u"d:'last tuesday'", u"d:today", u"alfa ->  bravo -> charlie", u"alfa !", u"alfa <- bravo <- charlie",
    u"alfa REQUIRE bravo ANDMAYBE charlie ANDNOT delta", u"NOT (alfa OR bravo) AND charlie",
]


# ------------------------------------------------------------------------------------------------
# well-formed expressions of the documented language (mirrors lean/WM/Spec/Parser.lean `Expr`)

OP_LEVEL = {"and": 2, "or": 3, "andnot": 4, "andmaybe": 5, "require": 6}
OP_TEXT = {"and": "AND", "or": "OR", "andnot": "ANDNOT", "andmaybe": "ANDMAYBE", "require": "REQUIRE"}


WILD_ATOMS = ["al*", "*fa", "b?avo", "c*l?e", "*o*", "?????", "de*a", "*", "b*a*", "c*r*e*", "a*f*", "*l*a", "j*l*t",
              "g*l?", "e*o*", "k*l*", "*i*i*", "f*x*t*", "h*t*l", "l**", "d*l*a*"]
CMP_RELS = ["<", ">", "<=", ">=", "=<", "=>"]
CMP_FIELDS = {"n": (-10, 59, 1), "sn": (-5, 18, 1), "f": (0, 6, 0.25)}


def gen_expr(rng, maxlevel, depth=0, rich=False, gtlt=False):
    """Random well-formed expression of binding level <= maxlevel, as nested tuples:
    ("atom", text) | ("paren", [e...]) | ("not", e) | ("op", g, [e...]); with `rich` also
    ("field", name, e) around an atom or a parenthesised group, and wildcard atoms."""
    if rich:
        e = gen_expr(rng, maxlevel, depth, False)
        return _enrich(rng, e, gtlt)
    levels = [0, 0, 0]
    if maxlevel >= 1:
        levels += [1]
    for g, lv in OP_LEVEL.items():
        if lv <= maxlevel and depth < 4:
            levels += [lv] * (2 if lv <= 3 else 1)
    lv = rng.choice(levels)
    if lv == 0:
        if rng.random() < 0.22 and depth < 3:
            return ("paren", [gen_expr(rng, 6, depth + 1) for _ in range(rng.choice((1, 2, 2, 3)))])
        if rng.random() < 0.12:
            a, b = rng.sample(WORDS, 2)
            return ("atom", '"%s %s"' % (a, b))
        return ("atom", rng.choice(WORDS))
    if lv == 1:
        return ("not", gen_expr(rng, 0, depth + 1))
    g = [k for k, v in OP_LEVEL.items() if v == lv][0]
    n = rng.choice((2, 2, 2, 3, 4)) if lv <= 3 else rng.choice((2, 2, 3))
    return ("op", g, [gen_expr(rng, lv - 1, depth + 1) for _ in range(n)])


def _cmp_atom(rng):
    """A comparison on a numeric field, as GtLtPlugin reads it: field:<rel><number>."""
    fld = rng.choice(sorted(CMP_FIELDS))
    lo, hi, step = CMP_FIELDS[fld]
    v = lo + step * rng.randint(0, int((hi - lo) / step))
    txt = ("%g" % v) if step != 1 else ("%d" % v)
    return ("field", fld, ("atom", rng.choice(CMP_RELS) + txt))


RANGE_FIELDS = ["d", "d", "d", "n", "sn", "f", "t", "k", "g", "w", "ws"]
# n-gram fields of make_schema(): field -> (what is cut into grams, minsize, maxsize).  These field
# types are self-parsing but leave ranges to the parser (FieldType.parse_range returns None): the
# range is a TermRange over the field's grams, its ends lower-cased as single texts
GRAM_FIELDS = {"g": ("value", 2, 3), "w": ("words", 2, 3), "ws": ("starts", 2, 3)}


def field_terms(doc, field):
    """The terms one of make_docs() has in a word or n-gram field, computed without whoosh."""
    val = (doc[field] or u"").lower()
    if field not in GRAM_FIELDS:
        return val.split()
    how, lo, hi = GRAM_FIELDS[field]
    out = []
    for piece in ([val] if how == "value" else val.split()):
        for size in range(lo, hi + 1):
            if size > len(piece):
                continue
            for a in ((0,) if how == "starts" else range(0, len(piece) - size + 1)):
                out.append(piece[a:a + size])
    return out


def _range_end(rng, fld):
    if fld == "d":
        # a (partial) date taken from / next to a stored document's date, so that period
        # boundaries are hit: YYYY, YYYYMM, YYYYMMDD, with or without dashes
        j = rng.randint(0, 23)
        y, m, d = 2010 + j % 5 + rng.choice((0, 0, 0, -1, 1)), 1 + j % 12, 1 + j % 28
        form = rng.choice(("y", "y", "y", "ym", "ym", "ymd", "y-m", "y-m-d"))
        return {"y": "%04d" % y, "ym": "%04d%02d" % (y, m), "ymd": "%04d%02d%02d" % (y, m, d),
                "y-m": "%04d-%02d" % (y, m), "y-m-d": "%04d-%02d-%02d" % (y, m, d)}[form]
    if fld in CMP_FIELDS:
        lo, hi, step = CMP_FIELDS[fld]
        v = lo + step * rng.randint(0, int((hi - lo) / step))
        return ("%g" % v) if step != 1 else ("%d" % v)
    if fld in GRAM_FIELDS:
        # a gram of a word (most of them indexed), sometimes a single letter (shorter than the
        # field's minimum gram size: analysing it yields no token, it is still the bound).  Not
        # longer than the maximum size: of such a text the field's analyzer keeps the first gram
        w = rng.choice(WORDS)
        if rng.random() < 0.12:
            return w[0]
        size = rng.choice((2, 3))
        a = rng.randint(0, len(w) - size)
        return w[a:a + size]
    # some ends contain the letters "to": only a TO that stands on its own separates the ends
    return rng.choice(WORDS + ["tomato", "photo", "motto"])


def range_text(a, b, startexcl, endexcl):
    return "%s%sTO%s%s" % ("{" if startexcl else "[", (a + " ") if a else "", (" " + b) if b else "",
                           "}" if endexcl else "]")


def _range_atom(rng, fld=None, fielded=True):
    """A range on a date, numeric or text field with any of the four bracket combinations;
    one end may be open."""
    fld = fld or rng.choice(RANGE_FIELDS)
    a, b = _range_end(rng, fld), _range_end(rng, fld)
    if rng.random() < 0.75:
        ka, kb = (a.replace("-", ""), b.replace("-", "")) if fld == "d" else (a, b)
        if (fld in CMP_FIELDS and float(ka) > float(kb)) or (fld not in CMP_FIELDS and ka > kb):
            a, b = b, a
    r = rng.random()
    if r < 0.1:
        a = ""
    elif r < 0.2:
        b = ""
    atom = ("atom", range_text(a, b, rng.random() < 0.5, rng.random() < 0.5))
    return ("field", fld, atom) if fielded else atom


def parse_range_atom(text):
    """(start or None, end or None, startexcl, endexcl) of a range atom, else None."""
    import re
    m = re.match(r"^([\[{])\s*(.*?)\s*TO\s*(.*?)\s*([\]}])$", text)
    if not m:
        return None
    return (m.group(2) or None, m.group(3) or None, m.group(1) == "{", m.group(4) == "}")


def date_period(s):
    """First and last instant of the period a partial date YYYY[MM[DD]] stands for."""
    s = s.replace("-", "")
    y = int(s[:4])
    if len(s) >= 8:
        lo = datetime.datetime(y, int(s[4:6]), int(s[6:8]))
        nxt = lo + datetime.timedelta(days=1)
    elif len(s) >= 6:
        mo = int(s[4:6])
        lo = datetime.datetime(y, mo, 1)
        nxt = datetime.datetime(y + (mo == 12), mo % 12 + 1, 1)
    else:
        lo = datetime.datetime(y, 1, 1)
        nxt = datetime.datetime(y + 1, 1, 1)
    return lo, nxt - datetime.timedelta(microseconds=1)


def _enrich(rng, e, gtlt=False):
    if e[0] == "atom":
        if gtlt and rng.random() < 0.3:
            return _cmp_atom(rng)
        if rng.random() < 0.1:
            return _range_atom(rng)
        if not e[1].startswith('"') and rng.random() < 0.25:
            e = ("atom", rng.choice(WILD_ATOMS))
        if rng.random() < 0.25:
            return ("field", rng.choice(["t", "k", "k"]), e)
        return e
    if e[0] == "paren":
        p = ("paren", [_enrich(rng, x, gtlt) for x in e[1]])
        if rng.random() < 0.3:
            return ("field", rng.choice(["t", "k", "k"]), p)
        return p
    if e[0] == "not":
        return ("not", _enrich(rng, e[1], gtlt))
    return ("op", e[1], [_enrich(rng, x, gtlt) for x in e[2]])


def has_field(e):
    if e[0] == "field":
        return True
    if e[0] == "atom":
        return False
    if e[0] == "not":
        return has_field(e[1])
    return any(has_field(x) for x in (e[1] if e[0] == "paren" else e[2]))


def resolve_fields(e, field=None):
    """The reading of field prefixes: an atom belongs to the innermost prefix around it.  Returns
    the expression without `field` nodes, atoms as ("atom", text, field)."""
    if e[0] == "atom":
        return ("atom", e[1], field)
    if e[0] == "field":
        return resolve_fields(e[2], e[1])
    if e[0] == "paren":
        return ("paren", [resolve_fields(x, field) for x in e[1]])
    if e[0] == "not":
        return ("not", resolve_fields(e[1], field))
    return ("op", e[1], [resolve_fields(x, field) for x in e[2]])


def has_wild(e):
    """Has an atom that is not a plain word or phrase (wildcard pattern or range)."""
    if e[0] == "atom":
        return any(c in e[1] for c in "*?") or e[1][:1] in ("[", "{")
    if e[0] in ("not",):
        return has_wild(e[1])
    if e[0] == "field":
        return has_wild(e[2])
    return any(has_wild(x) for x in (e[1] if e[0] == "paren" else e[2]))


def parse_cmp(text):
    for rel in ("<=", ">=", "=<", "=>", "<", ">"):
        if text.startswith(rel):
            try:
                return rel, float(text[len(rel):])
            except ValueError:
                return None
    return None


def direct_leaf_query(text, field):
    """A leaf's query built without the parser."""
    r = parse_range_atom(text)
    if r is not None:
        a, b, sx, ex = r
        if field == "d":
            from whoosh.util.times import datetime_to_long
            if a is not None:
                lo, hi = date_period(a)
                a = datetime_to_long(hi if sx else lo)
            if b is not None:
                lo, hi = date_period(b)
                b = datetime_to_long(lo if ex else hi)
            return query.NumericRange(field, a, b, sx, ex)
        if field in CMP_FIELDS:
            conv = int if CMP_FIELDS[field][2] == 1 else float
            return query.NumericRange(field, None if a is None else conv(a), None if b is None else conv(b), sx, ex)
        return query.TermRange(field, a, b, sx, ex)
    c = parse_cmp(text)
    if c is not None and field in CMP_FIELDS:
        rel, v = c
        if CMP_FIELDS[field][2] == 1:
            v = int(v)
        if rel in ("<", "<=", "=<"):
            return query.NumericRange(field, None, v, False, rel == "<")
        return query.NumericRange(field, v, None, rel == ">", False)
    if text.startswith('"'):
        return query.Phrase(field, text[1:-1].split())
    if any(c in text for c in "*?"):
        return query.Wildcard(field, text)
    return query.Term(field, text)


def print_expr(e):
    if e[0] == "field":
        return e[1] + ":" + print_expr(e[2])
    if e[0] == "atom":
        return e[1]
    if e[0] == "paren":
        return "(" + " ".join(print_expr(x) for x in e[1]) + ")"
    if e[0] == "not":
        return "NOT " + print_expr(e[1])
    return (" %s " % OP_TEXT[e[1]]).join(print_expr(x) for x in e[2])


def expr_atoms(e, acc):
    if e[0] == "atom":
        acc.append(e[1:] if len(e) > 2 else e[1])
    elif e[0] == "paren":
        for x in e[1]:
            expr_atoms(x, acc)
    elif e[0] == "not":
        expr_atoms(e[1], acc)
    else:
        for x in e[2]:
            expr_atoms(x, acc)
    return acc


def atom_node_sexp(text, field=None):
    """The tagged node of an atom as the default taggers produce it (word or phrase)."""
    f = "none" if field is None else s_str(field)
    if text.startswith('"'):
        return "(t (ph 1) %s %s 1)" % (s_str(text[1:-1]), f)
    return "(t w %s %s 1)" % (s_str(text), f)


def atom_key(text, field=None):
    """(field, text) key of an atom for the Lean valuation table."""
    inner = text[1:-1] if text.startswith('"') else text
    return "(%s %s)" % ("none" if field is None else s_str(field), s_str(inner))


def s_expr(e):
    if e[0] == "atom":
        return "(atom %s)" % atom_node_sexp(e[1], e[2] if len(e) > 2 else None)
    if e[0] == "paren":
        return "(paren %s)" % " ".join(s_expr(x) for x in e[1])
    if e[0] == "not":
        return "(not %s)" % s_expr(e[1])
    return "(op %s %s)" % (e[1], " ".join(s_expr(x) for x in e[2]))


def expr_shape(e):
    """Coarse shape used to classify a semantic disagreement (operator nesting, no leaves)."""
    if e[0] == "atom":
        return "x"
    if e[0] == "paren":
        return "(" + " ".join(expr_shape(x) for x in e[1]) + ")"
    if e[0] == "not":
        return "NOT " + expr_shape(e[1])
    return (" %s " % OP_TEXT[e[1]]).join(expr_shape(x) for x in e[2])


def leaf_matches(doc, text, field):
    """Independent oracle for a leaf on one of make_docs(): word, phrase or wildcard pattern."""
    import fnmatch
    r = parse_range_atom(text)
    if r is not None:
        a, b, sx, ex = r
        if field == "d":
            # a partial date is a period: `[`/`]` take the period in, `{`/`}` leave all of it out
            x = doc["d"]
            if a is not None:
                lo, hi = date_period(a)
                if not (x > hi if sx else x >= lo):
                    return False
            if b is not None:
                lo, hi = date_period(b)
                if not (x < lo if ex else x <= hi):
                    return False
            return True
        if field in CMP_FIELDS:
            xs = [doc[field]]
            a = None if a is None else float(a)
            b = None if b is None else float(b)
        else:
            xs = field_terms(doc, field)
        return any((a is None or (x > a if sx else x >= a)) and (b is None or (x < b if ex else x <= b)) for x in xs)
    c = parse_cmp(text)
    if c is not None and field in CMP_FIELDS:
        rel, v = c
        x = doc[field]
        return {"<": x < v, ">": x > v, "<=": x <= v, "=<": x <= v, ">=": x >= v, "=>": x >= v}[rel]
    toks = (doc[field] or u"").split()
    if text.startswith('"'):
        ws = text[1:-1].split()
        return any(toks[i:i + len(ws)] == ws for i in range(len(toks) - len(ws) + 1))
    if any(c in text for c in "*?"):
        return any(fnmatch.fnmatchcase(t, text) for t in toks)
    return text in toks


def intended_query(e, leafq, gk):
    """The query object the reading of the expression denotes, built directly from query classes."""
    if e[0] == "atom":
        return leafq[e[1:] if len(e) > 2 else e[1]]
    if e[0] == "paren":
        subs = [intended_query(x, leafq, gk) for x in e[1]]
        return (query.Or if gk == "or" else query.And)(subs)
    if e[0] == "not":
        return query.Not(intended_query(e[1], leafq, gk))
    g, subs = e[1], [intended_query(x, leafq, gk) for x in e[2]]
    if g == "and":
        return query.And(subs)
    if g == "or":
        return query.Or(subs)
    cls = {"andnot": query.AndNot, "andmaybe": query.AndMaybe, "require": query.Require}[g]
    q = subs[0]
    for s in subs[1:]:
        q = cls(q, s)
    return q


def blank_op_text(sx):
    """Operator nodes compare without their source text."""
    import re
    return re.sub(r"\(op (pre|post|inf) (\w+) (\d) \([0-9 ]*\)\)", r"(op \1 \2 \3 ())", sx)
