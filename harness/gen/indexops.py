"""Shared machinery of the index family (C07, C06, C18).

* worlds: a schema configuration, a table of documents and a list of writer sessions (abstract,
  layout-independent operations), generated from one `random.Random`;
* `run_real`: executes a world on a real whoosh index under a configuration (storage, packing,
  codec block size, writer front-end, merge kinds) and returns, per session, the op results, the
  concrete operations (doc numbers resolved) and the canonical logical dump of the committed index;
* `lean_request` / `parse_reply`: the same concrete history for the Lean driver (model + spec);
* `expected_dump`: expands the spec's content (keys + visible fields) into the observable dump.

Everything a worker needs is plain data (JSON-able), so a case replays from its record.
"""
import os
import random
import shutil
import sys
import tempfile
import threading
import traceback

from vcheck import sexp, parse_sexp

# ------------------------------------------------------------------------------------------------
# field catalogue

FIELD_ORDER = ["cat", "num", "pc", "sid", "tag", "txt", "uk", "un", "vt", "x1", "x2", "y_dyn"]   # sorted names
DYNAMIC = {"y_dyn": "*_dyn"}          # concrete name -> the glob it is declared under
FID = dict((n, i) for i, n in enumerate(FIELD_ORDER))
WORDS = ["aa", "bb", "cc", "dd", "ee", "ff", "gg"]
CATS = ["red", "green", "blue", ""]
MERGE_KINDS = ["nomerge", "small", "optimize", "clear"]


def make_field(name):
    from whoosh import fields, analysis
    space = analysis.SpaceSeparatedTokenizer()
    if name == "sid":
        return fields.ID(stored=True)
    if name == "uk":
        return fields.ID(stored=True, unique=True)
    if name == "un":
        return fields.NUMERIC(int, bits=32, stored=True, unique=True)
    if name == "txt":
        return fields.TEXT(analyzer=space, stored=True, phrase=True)
    if name == "tag":
        return fields.KEYWORD(stored=False, scorable=True)
    if name == "vt":
        return fields.TEXT(analyzer=space, stored=False, vector=True)
    if name == "num":
        return fields.NUMERIC(int, bits=32, stored=True, sortable=True)
    if name == "cat":
        return fields.ID(stored=False, sortable=True)
    if name == "x1":
        return fields.KEYWORD(stored=True, scorable=True)
    if name == "x2":
        return fields.TEXT(analyzer=space, stored=True, phrase=False)
    if name == "pc":
        # a column and nothing else: no postings, no stored value
        from whoosh import columns
        return fields.COLUMN(columns.NumericColumn("i"))
    if name == "y_dyn":
        # declared as the glob "*_dyn": indexed, not stored, with lengths, a vector and a column
        return fields.TEXT(analyzer=space, stored=False, vector=True, sortable=True)
    raise KeyError(name)


def build_schema(names):
    from whoosh import fields
    sc = fields.Schema()
    for n in sorted(names):
        if n in DYNAMIC:
            sc.add(DYNAMIC[n], make_field(n), glob=True)
        else:
            sc.add(n, make_field(n))
    return sc


def concrete_names(schema):
    """explicit field names + the concrete names this module uses under a glob of the schema"""
    names = list(schema.names())
    return sorted(names + [n for n in DYNAMIC if n not in names and n in schema])


def _full_schema():
    return build_schema(FIELD_ORDER)


# ------------------------------------------------------------------------------------------------
# world generation

def gen_value(rng, name):
    if name == "pc":
        return rng.choice([0, 1, 7, -5, 100000])
    if name == "txt" or name == "vt" or name == "x2" or name == "y_dyn":
        n = rng.choice([1, 1, 2, 3, 4, 6, 12, 40])
        return " ".join(rng.choice(WORDS[:5]) for _ in range(n))
    if name == "tag" or name == "x1":
        return " ".join(rng.choice(WORDS[3:]) for _ in range(rng.choice([1, 1, 2, 3])))
    if name == "num":
        return rng.choice([0, 1, 2, 5, -3, 70000, 2 ** 31 - 1, -2 ** 31])
    if name == "cat":
        return rng.choice(CATS[:3])
    raise KeyError(name)


ADDLIKE = ("add", "upd", "group", "addbad")


def flat_group(g):
    """document indices of a (possibly nested) group, in the order they are added"""
    out = []
    for m in g:
        if isinstance(m, list):
            out.extend(flat_group(m))
        else:
            out.append(m)
    return out


def all_groups(g):
    """the group and every group nested in it, each flattened: the members of each must stay adjacent and in order"""
    out = [flat_group(g)]
    for m in g:
        if isinstance(m, list):
            out.extend(all_groups(m))
    return out


def gen_world(rng, nsessions=None, maxops=None, disciplined=True, schema_changes=True, uniq=None,
              merge_kinds=None, allow_clear=True, raw_docnums=True, groups=False, normalized=False, malformed=True,
              nested=False, group_p=0.0):
    """A world: {"fields": initial field names, "docs": [...], "sessions": [...]}.

    Abstract ops (layout independent):
      ["add", i] ["upd", i] ["delkey", sid] ["undelkey", sid] ["delterm", field, text]
      ["delq", Q] ["addf", name] ["remf", name] ["delnum", n] (raw, layout dependent)
      ["group", [i, ...]] (documents added inside start_group/end_group; with nested=True a member may itself
                           be a list = a group opened while the enclosing one is still open, to any depth;
                           group_p = extra probability mass of a group op, drawn before the ordinary choice)
    Session end: ["commit", kind] | ["cancel"] | ["raise"] (exception inside `with`).
    """
    if uniq is None:
        uniq = rng.choice([[], ["uk"], ["uk"], ["un"], ["uk", "un"]])
    optional = [f for f in ["txt", "tag", "vt", "num", "cat"] if rng.random() < 0.6]
    # (after the others, so that they do not move the choices above) a pure column field; a dynamic (glob) field
    late_optional = [f for f in ["pc", "y_dyn"] if rng.random() < 0.3]
    if not optional:
        optional = ["txt"]
    fields0 = sorted(["sid"] + list(uniq) + optional + late_optional)
    cur_fields = list(fields0)
    extras_unused = ["x1", "x2"] if schema_changes else []
    nsessions = nsessions or rng.choice([1, 2, 3, 4, 5, 6, 8, 10])
    maxops = maxops or rng.choice([2, 4, 6, 9])
    nkeys = rng.choice([1, 2, 3, 5])
    empty_key = rng.random() < 0.4
    docs = []
    sessions = []
    # generator-side bookkeeping (only to bias ops towards interesting ones)
    committed = {}      # sid -> doc index (live committed docs as the spec sees them, approx.)
    live_uk = {}
    kinds = merge_kinds or MERGE_KINDS

    def new_doc(use_key):
        d = {"sid": len(docs), "f": {}}
        d["f"]["sid"] = "s%d" % d["sid"]
        for name in cur_fields:
            if name in ("sid",):
                continue
            if name == "uk":
                if use_key:
                    # the empty string is a legal key: an ID field indexes it as the ordinary term b""
                    d["f"]["uk"] = "" if (empty_key and rng.random() < 0.3) else "k%d" % rng.randrange(nkeys)
                continue
            if name == "un":
                if use_key:
                    d["f"]["un"] = rng.choice([0, 1, 7, -1, 300000][:max(2, nkeys)])
                continue
            if rng.random() < 0.75:
                d["f"][name] = gen_value(rng, name)
        r = rng.random()
        if r < 0.1:
            d["boost"] = {"_boost": rng.choice([2.0, 0.5])}
        elif r < 0.2 and "txt" in d["f"]:
            d["boost"] = {"_txt_boost": rng.choice([2.0, 1.5])}
        docs.append(d)
        return d

    def keys_of(d):
        return [(n, d["f"][n]) for n in ("uk", "un") if n in d["f"] and n in cur_fields]

    def new_group(depth):
        g = []
        for _ in range(rng.choice([2, 3, 4]) if depth == 0 else rng.choice([1, 2, 3])):
            if nested and depth < 2 and rng.random() < (0.45 if depth == 0 else 0.25):
                g.append(new_group(depth + 1))
            else:
                g.append(new_doc(use_key=False)["sid"])
        return g

    for si in range(nsessions):
        ops = []
        added_any = False
        written_keys = set()
        pending_del = set()
        nops = rng.randrange(0, maxops + 1)
        # schema changes come first in a session (the writer refuses them after an add)
        if schema_changes and rng.random() < 0.2:
            if extras_unused and rng.random() < 0.6:
                name = extras_unused.pop(0)
                ops.append(["addf", name])
                cur_fields = sorted(cur_fields + [name])
            else:
                removable = [f for f in cur_fields if f not in ("sid", "pc", "y_dyn") and (f not in fields0 or rng.random() < 0.5)]
                if removable:
                    name = rng.choice(removable)
                    ops.append(["remf", name])
                    cur_fields = [f for f in cur_fields if f != name]
        for _ in range(nops):
            if groups and group_p and rng.random() < group_p:
                ops.append(["group", new_group(0)])
                added_any = True
                continue
            r = rng.random()
            livekeys = [k for k in committed if k not in pending_del]
            if r < 0.45 or not committed:
                has_uniq = any(u in cur_fields for u in ("uk", "un"))
                d = new_doc(use_key=has_uniq and rng.random() < 0.8)
                ks = keys_of(d)
                i = d["sid"]
                if disciplined and ks:
                    if any(k in written_keys for k in ks):
                        # the key was already written by this writer: drop the key from the doc
                        for n, _ in ks:
                            del d["f"][n]
                        ops.append(["add", i])
                    else:
                        written_keys.update(ks)
                        ops.append(["upd", i])
                else:
                    written_keys.update(ks)
                    ops.append([rng.choice(["add", "upd", "upd"]) if ks else rng.choice(["add", "add", "upd"]), i])
                added_any = True
            elif r < 0.60 and livekeys:
                k = rng.choice(livekeys)
                ops.append(["delkey", k])
                pending_del.add(k)
            elif r < 0.70:
                f = rng.choice([f for f in cur_fields if f in ("txt", "tag", "vt", "x1", "x2", "uk")] or ["sid"])
                if f == "sid":
                    text = "s%d" % rng.randrange(max(1, len(docs)))
                elif f == "uk":
                    text = "" if (empty_key and rng.random() < 0.3) else "k%d" % rng.randrange(nkeys)
                else:
                    text = rng.choice(WORDS)
                ops.append(["delterm", f, text])
            elif r < 0.80:
                ops.append(["delq", gen_query(rng, cur_fields, len(docs))])
            elif r < 0.83 and raw_docnums:
                ops.append(["delnum", rng.choice([0, 1, 2, 3, 5, 8, 13, 40])])
            elif r < 0.84 and raw_docnums and malformed:
                ops.append(["delneg", rng.choice([0, 1, 5])])
            elif r < 0.85 and malformed and ("un" in cur_fields or "num" in cur_fields):
                d = new_doc(use_key=False)
                ops.append(["addbad", d["sid"]])
            elif r < 0.90 and pending_del and raw_docnums and not disciplined:
                k = rng.choice(sorted(pending_del))
                ops.append(["undelkey", k])
                pending_del.discard(k)
                others = [x for x in committed if x not in pending_del and x != k]
                if others and rng.random() < 0.7:
                    k2 = rng.choice(others)
                    ops.append(["delkey", k2])
                    pending_del.add(k2)
            elif groups and r < 0.97:
                if nested:
                    g = new_group(0)
                else:
                    g = []
                    for _ in range(rng.choice([2, 3, 4])):
                        d = new_doc(use_key=False)
                        g.append(d["sid"])
                ops.append(["group", g])
                added_any = True
            else:
                d = new_doc(use_key=False)
                ops.append(["add", d["sid"]])
                added_any = True
        r = rng.random()
        if r < 0.8:
            end = ["commit", rng.choice([k for k in kinds if allow_clear or k != "clear"] if rng.random() < 0.9 else ["optimize"])]
            if end[1] == "clear" and rng.random() < 0.7:
                end = ["commit", "small"]
        elif r < 0.9:
            end = ["cancel"]
        else:
            end = ["raise"]
        # rough bookkeeping of what is committed (only used for biasing)
        if end[0] == "commit":
            if end[1] == "clear":
                committed = {}
            for k in pending_del:
                committed.pop(k, None)
            for op in ops:
                if op[0] in ("add", "upd"):
                    committed[op[1]] = op[1]
                elif op[0] == "group":
                    for i in flat_group(op[1]):
                        committed[i] = i
        else:
            # a cancelled session's schema changes are dropped
            cur_fields = _fields_after(fields0, sessions)
            extras_unused = [x for x in (["x1", "x2"] if schema_changes else []) if not _ever_added(x, sessions + [[ops, end]])]
        if normalized:
            # schema changes, then deletions, then additions: a session can then be cut into
            # several commits anywhere inside its additions without changing what it means
            ops = ([o for o in ops if o[0] in ("addf", "remf")] +
                   [o for o in ops if o[0] not in ("addf", "remf") and o[0] not in ADDLIKE] +
                   [o for o in ops if o[0] in ADDLIKE])
        sessions.append([ops, end])
    return {"fields": fields0, "docs": docs, "sessions": sessions, "disciplined": disciplined}


def make_variant(world, rng, kinds=("nomerge", "small", "optimize"), pcut=0.5):
    """Another history with the same meaning (world must be `normalized` and disciplined): committing
    sessions are cut inside their additions, merge kinds are re-drawn (CLEAR stays), no-op commits
    are inserted.  Returns (variant world, marks) where marks[i] = index of the variant session after
    which the state corresponds to base session i."""
    sessions = []
    marks = []
    for ops, end in world["sessions"]:
        if rng.random() < 0.15:
            sessions.append([[], ["commit", rng.choice(kinds)]])
        if end[0] == "commit" and end[1] != "clear":
            first_add = next((i for i, o in enumerate(ops) if o[0] in ADDLIKE), len(ops))
            cuts = [i for i in range(first_add + 1, len(ops)) if rng.random() < pcut]
            prev = 0
            for c in cuts:
                sessions.append([ops[prev:c], ["commit", rng.choice(kinds)]])
                prev = c
            sessions.append([ops[prev:], ["commit", rng.choice(kinds)]])
        else:
            sessions.append([ops, end])
        marks.append(len(sessions) - 1)
    v = dict(world)
    v["sessions"] = sessions
    return v, marks


def gen_boundary_world(rng):
    """A world on the MERGE_SMALL threshold: 5 (or 6) segments written with NO_MERGE whose running
    total of doc_count_all hits fib(i + 5) - 1, fib(i + 5) or fib(i + 5) + 1, then one default commit."""
    nseg = rng.choice([5, 5, 6])
    target = {5: 55, 6: 89}[nseg] + rng.choice([-1, 0, 0, 1])
    if nseg == 6:
        sizes = [11, 11, 11, 11, 12]          # 56 >= fib(9): no merge point at i = 4
        sizes.append(target - sum(sizes))
    else:
        base = target // 5
        sizes = [base] * 5
        for k in range(target - base * 5):
            sizes[k] += 1
    rng.shuffle(sizes)
    docs, sessions = [], []
    for n in sizes:
        ops = []
        for _ in range(n):
            d = {"sid": len(docs), "f": {"sid": "s%d" % len(docs), "txt": rng.choice(WORDS)}}
            docs.append(d)
            ops.append(["add", d["sid"]])
        sessions.append([ops, ["commit", "nomerge"]])
    last = []
    for _ in range(rng.choice([0, 1, 2])):
        d = {"sid": len(docs), "f": {"sid": "s%d" % len(docs), "txt": rng.choice(WORDS)}}
        docs.append(d)
        last.append(["add", d["sid"]])
    if rng.random() < 0.5 and docs:
        last.insert(0, ["delkey", rng.randrange(len(docs) - len(last))])
    sessions.append([last, ["commit", "small"]])
    return {"fields": ["sid", "txt"], "docs": docs, "sessions": sessions, "disciplined": True}


def gen_topk_world(rng):
    """Posting lists of several blocks whose best postings belong to deleted documents: most documents
    carry the term once, a few often (hot, mostly deleted later) or a few times (warm), so that a limited
    scored search skips blocks by quality and lands on blocks that open with a deleted document."""
    n = rng.choice([12, 20, 36, 60])
    nseg = rng.choice([1, 1, 2, 3])
    hot = set(rng.sample(range(n), max(2, n // 7)))
    warm = set(rng.sample(range(n), max(2, n // 8))) - hot
    docs = []
    for i in range(n):
        k = 8 if i in hot else (3 if i in warm else 1)
        docs.append({"sid": i, "f": {"sid": "s%d" % i, "txt": " ".join(["aa"] * k + ["bb"] * (10 - k))}})
    bounds = sorted(rng.sample(range(1, n), nseg - 1)) if nseg > 1 else []
    sessions, prev = [], 0
    for b in bounds + [n]:
        sessions.append([[["add", i] for i in range(prev, b)], ["commit", "nomerge"]])
        prev = b
    dels = [i for i in sorted(hot) if rng.random() < 0.8] + [i for i in range(n) if i not in hot and rng.random() < 0.1]
    sessions.append([[["delkey", i] for i in dels], ["commit", "nomerge"]])
    if rng.random() < 0.3:
        sessions.append([[["add", len(docs)]], ["commit", rng.choice(["nomerge", "small"])]])
        docs.append({"sid": len(docs), "f": {"sid": "s%d" % len(docs), "txt": "aa bb"}})
    return {"fields": ["sid", "txt"], "docs": docs, "sessions": sessions, "disciplined": True}


def gen_refresh_world(rng):
    """Commits that change a segment's deleted set without (always) changing its size: un-delete one
    document and delete another one of the same segment, for a long-lived refreshed searcher."""
    n = rng.choice([4, 6, 9])
    docs = [{"sid": i, "f": {"sid": "s%d" % i, "txt": rng.choice(WORDS) + " " + rng.choice(WORDS)}} for i in range(n)]
    cut = rng.choice([n, n, n // 2])
    sessions = [[[["add", i] for i in range(cut)], ["commit", "nomerge"]]]
    if cut < n:
        sessions.append([[["add", i] for i in range(cut, n)], ["commit", "nomerge"]])
    dead = set()
    for _ in range(rng.choice([2, 3, 5])):
        ops = []
        live = [i for i in range(n) if i not in dead]
        if dead and rng.random() < 0.8:
            a = rng.choice(sorted(dead))
            ops.append(["undelkey", a])
            dead.discard(a)
            if live and rng.random() < 0.85:
                b = rng.choice(live)
                ops.append(["delkey", b])
                dead.add(b)
        elif live:
            b = rng.choice(live)
            ops.append(["delkey", b])
            dead.add(b)
        rng.shuffle(ops)
        sessions.append([ops, ["commit", rng.choice(["nomerge", "nomerge", "small"])]])
    return {"fields": ["sid", "txt"], "docs": docs, "sessions": sessions, "disciplined": False}


def gen_purge_world(rng, ncuts=None):
    """remove_field followed by an optimising commit that adds nothing, on an index of 1..3 segments with or
    without a deletion; then the removed name is added again and new documents use it: optimize must have
    dropped the old terms / stored values / lengths / columns / vectors of the field whatever the layout was.
    Returns (world, index of the last initial session)."""
    extra = [f for f in ["txt", "tag", "vt", "num", "cat", "x1", "x2"] if rng.random() < 0.5]
    victim = rng.choice(["txt", "tag", "vt", "num", "cat", "x1", "x2"])
    fields0 = sorted(set(["sid", victim] + extra))
    docs = []

    def doc(fields):
        d = {"sid": len(docs), "f": {"sid": "s%d" % len(docs)}}
        for name in fields:
            if name != "sid" and (name == victim or rng.random() < 0.75):
                d["f"][name] = gen_value(rng, name)
        docs.append(d)
        return d["sid"]

    n = rng.choice([1, 2, 3, 5, 8])
    adds = [["add", doc(fields0)] for _ in range(n)]
    cuts = sorted(rng.sample(range(1, n), min(n - 1, ncuts if ncuts is not None else rng.choice([0, 0, 1, 2]))))
    sessions, prev = [], 0
    for c in cuts + [n]:
        sessions.append([adds[prev:c], ["commit", "nomerge"]])
        prev = c
    ninit = len(sessions)
    if rng.random() < 0.25 and n > 1:
        sessions.append([[["delkey", rng.randrange(n)]], ["commit", "nomerge"]])
    r = rng.random()
    if r < 0.6:
        sessions.append([[["remf", victim]], ["commit", "optimize"]])
    elif r < 0.8:
        sessions.append([[["remf", victim]], ["commit", rng.choice(["nomerge", "small"])]])
        sessions.append([[], ["commit", "optimize"]])
    else:
        sessions.append([[["remf", victim], ["add", doc([f for f in fields0 if f != victim])]], ["commit", "optimize"]])
    sessions.append([[["addf", victim]] + [["add", doc(fields0)] for _ in range(rng.choice([0, 1, 2]))],
                     ["commit", rng.choice(["nomerge", "small", "optimize"])]])
    return {"fields": fields0, "docs": docs, "sessions": sessions, "disciplined": True}, ninit


def _ever_added(name, sessions):
    return any(op[0] == "addf" and op[1] == name for ops, _ in sessions for op in ops)


def _fields_after(fields0, sessions):
    cur = list(fields0)
    for ops, end in sessions:
        if end[0] != "commit":
            continue
        for op in ops:
            if op[0] == "addf" and op[1] not in cur:
                cur = sorted(cur + [op[1]])
            elif op[0] == "remf":
                cur = [f for f in cur if f != op[1]]
    return cur


def gen_query(rng, cur_fields, ndocs, depth=2):
    """Query shapes that stay clear of the matcher-family defects (no AndNot/Require trees)."""
    r = rng.random()
    tf = [f for f in cur_fields if f in ("txt", "tag", "vt", "x1", "x2")]
    if depth <= 0 or r < 0.45 or not tf:
        r2 = rng.random()
        if r2 < 0.15:
            return ["every"]
        if r2 < 0.35 or not tf:
            return ["key", rng.randrange(max(1, ndocs))]
        return ["term", rng.choice(tf), rng.choice(WORDS)]
    if r < 0.65:
        return ["or", gen_query(rng, cur_fields, ndocs, depth - 1), gen_query(rng, cur_fields, ndocs, depth - 1)]
    if r < 0.85:
        return ["and", gen_query(rng, cur_fields, ndocs, 0), gen_query(rng, cur_fields, ndocs, 0)]
    return ["not", gen_query(rng, cur_fields, ndocs, 0)]


def has_not(q):
    return q[0] == "not" or (q[0] in ("and", "or") and (has_not(q[1]) or has_not(q[2])))


def to_whoosh_query(q):
    from whoosh import query
    if q[0] == "term":
        return query.Term(q[1], q[2])
    if q[0] == "key":
        return query.Term("sid", "s%d" % q[1])
    if q[0] == "every":
        return query.Every()
    if q[0] == "and":
        return query.And([to_whoosh_query(q[1]), to_whoosh_query(q[2])])
    if q[0] == "or":
        return query.Or([to_whoosh_query(q[1]), to_whoosh_query(q[2])])
    if q[0] == "not":
        return query.Not(to_whoosh_query(q[1]))
    raise ValueError(q)


# ------------------------------------------------------------------------------------------------
# what a document contributes (mirror of the per-field part of add_document, on the field objects)

class Interner(object):
    def __init__(self):
        self.ids = {}
        self.vals = []

    def id(self, v):
        k = repr(v)
        if k not in self.ids:
            self.ids[k] = len(self.vals)
            self.vals.append(v)
        return self.ids[k]


def qlen(n):
    from whoosh.util.numeric import length_to_byte, byte_to_length
    return byte_to_length(length_to_byte(n))


def doc_record(schema_full, d):
    """{field: {"stored":..., "toks": [(tbytes, weight, vbytes)], "len": n, "col": v, "vec": [...], "ukey": tbytes}}"""
    rec = {}
    boosts = d.get("boost", {})
    docboost = float(boosts.get("_boost", 1.0))
    for name in sorted(d["f"]):
        field = schema_full[name]
        value = d["f"][name]
        fr = {"stored": None, "toks": [], "len": 0, "col": None, "vec": None, "ukey": None}
        if field.indexed:
            fb = float(boosts.get("_%s_boost" % name, docboost))
            length = 0
            for tbytes, freq, weight, vbytes in field.index(value):
                fr["toks"].append((tbytes, weight * fb, vbytes or b""))
                if field.scorable:
                    length += freq
            fr["len"] = qlen(length)
        if field.vector:
            vitems = field.vector.word_values(value, field.analyzer, mode="index")
            fr["vec"] = sorted((text, weight, vbytes or b"") for text, _, weight, vbytes in vitems) or None
        if field.stored:
            fr["stored"] = value
        if field.column_type:
            cv = field.to_column_value(value)
            # a value equal to the column default cannot be told from "no value"
            fr["col"] = None if cv == field.column_type.default_value() else cv
        if field.unique:
            fr["ukey"] = field.to_bytes(value)
        rec[name] = fr
    return rec


class WorldTables(object):
    """Doc records + the id tables shared with the Lean side (term ids follow byte order)."""

    def __init__(self, world):
        self.world = world
        self.schema_full = _full_schema()
        self.recs = [doc_record(self.schema_full, d) for d in world["docs"]]
        terms = set()
        for rec in self.recs:
            for fr in rec.values():
                for tb, _, _ in fr["toks"]:
                    terms.add(tb)
                if fr["ukey"] is not None:
                    terms.add(fr["ukey"])
        # terms mentioned by operations only
        for ops, _ in world["sessions"]:
            for op in ops:
                if op[0] == "delterm":
                    terms.add(self.term_bytes(op[1], op[2]))
                elif op[0] == "delq":
                    self._query_terms(op[1], terms)
        self.terms = sorted(terms)
        self.tid = dict((t, i) for i, t in enumerate(self.terms))
        self.vals = Interner()

    def term_bytes(self, fname, text):
        return self.schema_full[fname].to_bytes(text)

    def _query_terms(self, q, acc):
        if q[0] == "term":
            acc.add(self.term_bytes(q[1], q[2]))
        elif q[0] in ("and", "or"):
            self._query_terms(q[1], acc)
            self._query_terms(q[2], acc)
        elif q[0] == "not":
            self._query_terms(q[1], acc)

    @staticmethod
    def wnum(w):
        n, den = float(w).as_integer_ratio()
        if 1024 % den != 0:
            raise ValueError("weight %r is not a small dyadic number" % (w,))
        return n * (1024 // den)

    def lean_doc(self, i):
        d = self.world["docs"][i]
        rec = self.recs[i]
        parts = [str(d["sid"])]
        for name in sorted(rec):
            fr = rec[name]
            toks = "(" + " ".join("(%d %d %d)" % (self.tid[tb], self.wnum(w), self.vals.id(("v", vb)))
                                  for tb, w, vb in fr["toks"]) + ")"
            parts.append("(%d %s %s %d %s %s %s)" % (
                FID[name],
                "-" if fr["stored"] is None else self.vals.id(("s", fr["stored"])),
                toks, fr["len"],
                "-" if fr["col"] is None else self.vals.id(("c", fr["col"])),
                "-" if fr["vec"] is None else self.vals.id(("x", fr["vec"])),
                "-" if fr["ukey"] is None else self.tid[fr["ukey"]]))
        return "(" + " ".join(parts) + ")"

    def model_posts(self, rec):
        """model's global postings -> [(field, tbytes, docnum, key, weight, vbytes)] (term-index order)"""
        out = []
        for f, t, dn, key, w, v in rec["posts"]:
            out.append((FIELD_ORDER[f], self.terms[t], dn, key, w / 1024.0, self.vals.vals[v][1]))
        return out

    def model_stats(self, rec):
        return dict(((FIELD_ORDER[f], self.terms[t]), (df, w / 1024.0)) for (f, t), (df, w) in rec["stats"].items())

    def lean_query(self, q):
        if q[0] == "term":
            return "(term %d %d)" % (FID[q[1]], self.tid[self.term_bytes(q[1], q[2])])
        if q[0] == "key":
            return "(key %d)" % q[1]
        if q[0] == "every":
            return "(every)"
        if q[0] in ("and", "or"):
            return "(%s %s %s)" % (q[0], self.lean_query(q[1]), self.lean_query(q[2]))
        if q[0] == "not":
            return "(not %s)" % self.lean_query(q[1])
        raise ValueError(q)

    def lean_op(self, op):
        k = op[0]
        if k in ("gstart", "gend"):
            return "(%s)" % k
        if k in ("add", "upd", "deld", "undel"):
            return "(%s %d)" % (k, op[1])
        if k == "delq":
            return "(delq %s)" % self.lean_query(op[1])
        if k == "addf":
            return "(addf %d %d)" % (FID[op[1]], 1 if make_field(op[1]).unique else 0)
        if k == "remf":
            return "(remf %d)" % FID[op[1]]
        raise ValueError(op)

    def lean_buffered_request(self, steps, limit, kind):
        w = self.world
        schema = "((%s) (%s))" % (" ".join(str(FID[f]) for f in w["fields"]),
                                  " ".join(str(FID[f]) for f in w["fields"] if make_field(f).unique))
        docs = "(" + " ".join(self.lean_doc(i) for i in range(len(w["docs"]))) + ")"
        calls = []
        for st in steps:
            for o in st["raw"]:
                calls.append("(commit)" if o[0] == "commit" else self.lean_op(o))
        return "c18 buffered %d %s %s %s (%s)" % (limit, kind, schema, docs, " ".join(calls))

    def lean_request(self, concrete_sessions, dump=0, family="c07"):
        """concrete_sessions: [(ops, end)] with ops already concrete (see run_real)."""
        w = self.world
        schema = "((%s) (%s))" % (" ".join(str(FID[f]) for f in w["fields"]),
                                  " ".join(str(FID[f]) for f in w["fields"] if make_field(f).unique))
        docs = "(" + " ".join(self.lean_doc(i) for i in range(len(w["docs"]))) + ")"
        sess = []
        for ops, end in concrete_sessions:
            e = "(commit %s)" % end[1] if end[0] == "commit" else "(cancel)"
            if family != "c18":
                ops = [o for o in ops if o[0] not in ("gstart", "gend")]
            sess.append("((%s) %s)" % (" ".join(self.lean_op(o) for o in ops), e))
        if family == "c18":
            return "c18 serialmp %d %s %s (%s)" % (dump, schema, docs, " ".join(sess))   # dump = procs
        return "%s run %d %s %s (%s)" % (family, dump, schema, docs, " ".join(sess))


def parse_reply(line):
    """-> list of per-session dicts {results, toc, model, spec, posts?} or {"error":...}"""
    if line == "bad-op":
        raise ValueError("driver rejected the request")
    out = []
    for s in parse_sexp(line)[0]:
        if len(s) == 2:
            out.append({"results": s[0], "error": s[1]})
            continue
        rec = {"results": s[0],
               "toc": [(int(x[0]), [int(y) for y in x[1]], [int(y) for y in x[2]]) for x in s[1]],
               "model": [(int(x[0]), sorted(int(y) for y in x[1:])) for x in s[2]],
               "spec": [(int(x[0]), sorted(int(y) for y in x[1:])) for x in s[3]]}
        if len(s) > 4:
            rec["posts"] = [tuple(int(y) if y != "?" else -1 for y in x) for x in s[4]]
            rec["stats"] = dict(((int(x[0]), int(x[1])), (int(x[2]), int(x[3]))) for x in s[5])
            rec["flens"] = dict((int(x[0]), int(x[1])) for x in s[6])
        out.append(rec)
    return out


# ------------------------------------------------------------------------------------------------
# expected observable dump from a content list [(key, [visible field ids])]

def expected_dump(tables, content):
    """-> {"docs": {sid: {...}}, "posts": sorted [(field, tbytes, sid, weight, vbytes)]}"""
    docs = {}
    posts = []
    for key, fids in content:
        rec = tables.recs[key]
        vis = set(FIELD_ORDER[i] for i in fids)
        stored, lens, cols, vecs = {}, {}, {}, {}
        for name, fr in rec.items():
            if name not in vis:
                continue
            if fr["stored"] is not None:
                stored[name] = fr["stored"]
            if fr["len"]:
                lens[name] = fr["len"]
            if fr["col"] is not None:
                cols[name] = fr["col"]
            if fr["vec"] is not None:
                vecs[name] = fr["vec"]
            for tb, w, vb in fr["toks"]:
                posts.append((name, tb, key, float(w), vb))
        if key in docs:
            docs[key] = {"dup": True}
        else:
            docs[key] = {"stored": stored, "len": lens, "col": cols, "vec": vecs}
    posts.sort()
    return {"docs": docs, "posts": posts, "count": len(content)}


# ------------------------------------------------------------------------------------------------
# canonical dump of a real index

def _sid_of(stored):
    s = stored.get("sid")
    return int(s[1:]) if s else None


def dump_reader(r, schema, probes=()):
    """Canonical logical dump through the reader API (`r` may be Empty/Segment/MultiReader)."""
    from whoosh.reading import TermNotFound
    out = {"doc_count": r.doc_count(), "doc_count_all": r.doc_count_all(),
           "has_deletions": bool(r.has_deletions())}
    names = concrete_names(schema)
    sid_at = {}
    docs = {}
    live = list(r.all_doc_ids())
    out["live_docnums"] = len(live)
    # per leaf column readers (MultiReader.column_reader is owned by C08)
    leaves = list(r.leaf_readers())
    colvals = {}
    for lr, off in leaves:
        for name in names:
            fobj = schema[name]
            if fobj.column_type and lr.has_column(name):
                cr = lr.column_reader(name, translate=False)
                for dn in lr.all_doc_ids():
                    colvals[(dn + off, name)] = cr[dn]
    for dn in live:
        st = r.stored_fields(dn)
        sid = _sid_of(st)
        sid_at[dn] = sid
        lens, vecs, cols = {}, {}, {}
        for name in names:
            fobj = schema[name]
            if fobj.scorable:
                ln = r.doc_field_length(dn, name)
                if ln:
                    lens[name] = ln
            if fobj.vector and r.has_vector(dn, name):
                v = r.vector(dn, name)
                items = []
                while v.is_active():
                    items.append((v.id(), v.weight(), v.value() or b""))
                    v.next()
                vecs[name] = items
            if fobj.column_type:
                if (dn, name) in colvals:
                    cv = colvals[(dn, name)]
                    if cv != fobj.column_type.default_value():
                        cols[name] = cv
        rec = {"stored": dict(st), "len": lens, "col": cols, "vec": vecs}
        if sid in docs:
            docs[sid] = {"dup": True}
        else:
            docs[sid] = rec
    out["docs"] = docs
    asf = sorted(_sid_of(st) for st in r.all_stored_fields())
    out["all_stored_sids"] = asf
    posts = []
    gposts = []
    lex = []
    stats = {}
    for fname, tbytes in r.all_terms():
        lex.append((fname, tbytes))
        try:
            m = r.postings(fname, tbytes)
        except TermNotFound:
            continue
        while m.is_active():
            dn = m.id()
            posts.append((fname, tbytes, sid_at.get(dn, ("dead", dn)), m.weight(), m.value() or b""))
            gposts.append((fname, tbytes, dn, sid_at.get(dn, -1), m.weight(), m.value() or b""))
            m.next()
        stats[(fname, tbytes)] = (r.doc_frequency(fname, tbytes), r.frequency(fname, tbytes))
    out["lexicon_sorted"] = lex == sorted(lex)
    out["posts"] = sorted(posts, key=repr) if any(isinstance(p[2], tuple) for p in posts) else sorted(posts)
    out["stats"] = stats
    out["gposts"] = gposts
    out["field_length"] = dict((n, r.field_length(n)) for n in names if schema[n].scorable)
    # the reader's own (top-level) column reader, row by row, against the per-segment rows
    topcol = []
    if live:
        for name in names:
            fobj = schema[name]
            if not fobj.column_type:
                continue
            try:
                cr = r.column_reader(name, translate=False)
            except Exception as e:  # noqa
                topcol.append((name, None, None, "column_reader raised %s" % type(e).__name__))
                continue
            dflt = fobj.column_type.default_value()
            for dn in live:
                want = colvals.get((dn, name), dflt)
                try:
                    got = cr[dn]
                except Exception as e:  # noqa
                    got = "raised %s" % type(e).__name__
                if got != want:
                    topcol.append((name, dn, sid_at.get(dn), want, got))
    out["topcol_mismatch"] = topcol[:10]
    # term statistics as the (multi) reader combines them
    tinfo = {}
    for fname, tbytes in lex:
        try:
            ti = r.term_info(fname, tbytes)
            tinfo[(fname, tbytes)] = (ti.doc_frequency(), ti.weight(), ti.min_length(), ti.max_length(),
                                      ti.max_weight(), ti.min_id(), ti.max_id())
        except Exception as e:  # noqa
            tinfo[(fname, tbytes)] = "raised %s" % type(e).__name__
    out["terminfo"] = tinfo
    return out


def dump_index(ix, probes=()):
    """Dump of the committed index + segment layout + probe searches (fresh reader)."""
    from whoosh import query, sorting
    segs = ix._segments()
    with ix.reader() as r:
        schema = ix.schema
        out = dump_reader(r, schema)
        layout = []
        physical = []
        for lr, off in r.leaf_readers():
            seg = lr.segment() if hasattr(lr, "segment") else None
            keys = []
            pdr = getattr(lr, "_perdoc", None)
            if pdr is None:
                continue
            phys = set(lr.indexed_field_names())
            for dn in range(lr.doc_count_all()):
                raw = pdr.stored_fields(dn)
                phys.update(raw)
                keys.append(_sid_of(raw))
            physical.append(sorted(phys))
            layout.append((lr.doc_count_all(), sorted(seg.deleted_docs()) if seg is not None else [], keys))
        out["layout"] = layout
        out["physical"] = physical          # per segment: field names with terms or stored values in the files
        out["physical_unknown"] = [[n for n in phys if n not in schema] for phys in physical]
        out["nsegments"] = len(segs)
        out["ix_doc_count"] = ix.doc_count()
        out["ix_doc_count_all"] = ix.doc_count_all()
    pr = {}
    with ix.searcher() as s:
        for name, q in probes:
            try:
                wq = to_whoosh_query(q)
                ids = sorted(_sid_of(s.stored_fields(dn)) for dn in s.docs_for_query(wq))
                res = s.search(wq, limit=None)
                hits = sorted(_sid_of(h.fields()) for h in res)
                pr[name] = {"docs": ids, "hits": hits, "len": len(res),
                            "scores": sorted((_sid_of(h.fields()), h.score) for h in res)}
                top = {}
                for k in (1, 2, 3):
                    rk = s.search(wq, limit=k)
                    top[k] = [(_sid_of(h.fields()), h.score) for h in rk]
                pr[name]["top"] = top
            except Exception as e:  # noqa
                pr[name] = {"error": "%s: %s" % (type(e).__name__, e)}
        out["probes"] = pr
    return out


# ------------------------------------------------------------------------------------------------
# running a world on real whoosh

class Boom(Exception):
    pass


def default_config():
    return {"storage": "file", "mmap": True, "compound": True, "blocklimit": 128, "frontend": "plain",
            "limitmb": 128}


def open_storage(cfg, path):
    from whoosh.filedb.filestore import FileStorage, RamStorage
    if cfg["storage"] == "ram":
        return RamStorage()
    st = FileStorage(path, supports_mmap=cfg.get("mmap", True))
    st.create()
    return st


def writer_kwargs(cfg):
    from whoosh.codec.whoosh3 import W3Codec
    kw = {"codec": W3Codec(blocklimit=cfg.get("blocklimit", 128)), "compound": cfg.get("compound", True)}
    if "limitmb" in cfg:
        kw["limitmb"] = cfg["limitmb"]
    return kw


def commit_kwargs(kind):
    from whoosh import writing
    if kind == "nomerge":
        return {"merge": False}
    if kind == "small":
        return {}
    if kind == "optimize":
        return {"optimize": True}
    if kind == "clear":
        return {"mergetype": writing.CLEAR}
    raise ValueError(kind)


def err_name(e):
    from whoosh.writing import IndexingError
    from whoosh.fields import UnknownFieldError, FieldConfigurationError
    if isinstance(e, IndexingError):
        return "noSuchDoc"
    if isinstance(e, UnknownFieldError):
        return "unknownField"
    if isinstance(e, FieldConfigurationError):
        return "fieldExists"
    if isinstance(e, KeyError):
        return "noSuchField"
    if type(e) is Exception and "modify schema" in str(e):
        return "schemaLocked"
    return type(e).__name__


def doc_kwargs(d):
    kw = dict(d["f"])
    kw.update(d.get("boost", {}))
    return kw


def apply_op(w, world, op, concrete, results, open_searcher, delkeys=None):
    """Execute one abstract op on writer `w`; append concrete op(s)/result(s)."""
    k = op[0]
    try:
        if k == "add":
            w.add_document(**doc_kwargs(world["docs"][op[1]]))
            concrete.append(["add", op[1]])
            results.append("ok")
        elif k == "group":
            def run_group(g):
                w.start_group()
                concrete.append(["gstart"])
                for i in g:
                    if isinstance(i, list):
                        run_group(i)
                        continue
                    w.add_document(**doc_kwargs(world["docs"][i]))
                    concrete.append(["add", i])
                    results.append("ok")
                w.end_group()
                concrete.append(["gend"])
            run_group(op[1])
        elif k == "upd":
            concrete.append(["upd", op[1]])
            w.update_document(**doc_kwargs(world["docs"][op[1]]))
            results.append("ok")
        elif k in ("delkey", "undelkey"):
            with open_searcher() as s:
                if k == "delkey":
                    dn = s.document_number(sid="s%d" % op[1])
                else:
                    dn = None
                    r = s.reader()
                    for n in range(r.doc_count_all()):
                        if r.is_deleted(n) and _raw_sid(r, n) == op[1]:
                            dn = n
                            break
            if dn is None:
                return
            concrete.append(["deld" if k == "delkey" else "undel", dn])
            if delkeys is not None and k == "delkey":
                delkeys.append(op[1])
            w.delete_document(dn, delete=(k == "delkey"))
            results.append("ok")
        elif k == "addbad":
            # a document whose last field (by name) is rejected: nothing of it may remain
            kw = doc_kwargs(world["docs"][op[1]])
            kw["un" if "un" in w.schema.names() else "num"] = u"not-a-number"
            try:
                w.add_document(**kw)
                results.append(("err", "addbad-accepted"))
            except ValueError:
                pass
        elif k == "delneg":
            try:
                w.delete_document(-1 - op[1])
                results.append(("err", "negative-docnum-accepted"))
            except Exception as e:  # noqa
                if err_name(e) != "noSuchDoc":
                    results.append(("err", "delneg:" + err_name(e)))
        elif k == "delnum":
            concrete.append(["deld", op[1]])
            w.delete_document(op[1])
            results.append("ok")
        elif k == "delterm":
            concrete.append(["delq", ["term", op[1], op[2]]])
            n = w.delete_by_term(op[1], op[2])
            results.append(("count", n))
        elif k == "delq":
            concrete.append(["delq", op[1]])
            n = w.delete_by_query(to_whoosh_query(op[1]))
            results.append(("count", n))
        elif k == "addf":
            concrete.append(["addf", op[1]])
            w.add_field(op[1], make_field(op[1]))
            results.append("ok")
        elif k == "remf":
            concrete.append(["remf", op[1]])
            w.remove_field(op[1])
            results.append("ok")
        else:
            raise ValueError(op)
    except Boom:
        raise
    except Exception as e:  # noqa
        results.append(("err", err_name(e)))


def _raw_sid(r, n):
    """stored key of a (possibly deleted) document number"""
    for lr, off in r.leaf_readers():
        if off <= n < off + lr.doc_count_all():
            return _sid_of(lr._perdoc.stored_fields(n - off))
    return None


def run_real(world, cfg, path, probes=(), dump_each=True, dump_at=None):
    """Plain SegmentWriter front-end.  Returns {"sessions": [{results, concrete, end, dump}], "error"?}."""
    from whoosh import index
    st = open_storage(cfg, os.path.join(path, "ix"))
    ix = st.create_index(build_schema(world["fields"]))
    out = []
    # a long-lived searcher, refreshed after every session (reader recycling): compound segments only,
    # loose segments opened lazily are the fs family's known finding (C03)
    held = st.open_index().searcher() if cfg.get("compound", True) else None
    for si, (ops, end) in enumerate(world["sessions"]):
        concrete, results = [], []
        rec = {"concrete": concrete, "results": results, "end": end}
        ix = st.open_index()
        w = ix.writer(**writer_kwargs(cfg))
        if end[0] == "raise":
            try:
                with w:
                    for op in ops:
                        apply_op(w, world, op, concrete, results, w.searcher)
                    raise Boom()
            except Boom:
                pass
        else:
            for op in ops:
                apply_op(w, world, op, concrete, results, w.searcher)
            if end[0] == "commit":
                w.commit(**commit_kwargs(end[1]))
            else:
                w.cancel()
        if held is not None:
            try:
                held = held.refresh()
                r = held.reader()
                rec["refreshed"] = {
                    "sids": sorted(_sid_of(r.stored_fields(dn)) for dn in r.all_doc_ids()),
                    "stored": sorted(_sid_of(st_) for st_ in r.all_stored_fields()),
                    "doc_count": r.doc_count(),
                    "every": sorted(_sid_of(held.stored_fields(dn)) for dn in held.docs_for_query(to_whoosh_query(["every"]))),
                    "sidterms": sorted(int(tb[1:]) for f, tb in r.all_terms() if f == "sid"
                                       and r.postings("sid", tb).is_active())}
            except Exception as e:  # noqa
                rec["refreshed"] = {"error": "%s: %s" % (type(e).__name__, e)}
                held = None
        if dump_each and (dump_at is None or si in dump_at):
            rec["dump"] = dump_index(st.open_index(), probes)
        out.append(rec)
    if held is not None:
        held.close()
    if not dump_each:
        out[-1]["dump"] = dump_index(st.open_index(), probes)
    return {"sessions": out, "storage": st}


def layout_free(concrete, keys):
    """replace deletions by number with the equivalent deletion by key (for front-ends whose doc
    numbering the model does not predict); `keys` are the stored keys the numbers were resolved from"""
    out = []
    ki = 0
    for op in concrete:
        if op[0] == "deld":
            out.append(["delq", ["key", keys[ki]]])
            ki += 1
        else:
            out.append(op)
    return out


def concrete_sessions(real, free=False):
    return [(layout_free(s["concrete"], s.get("delkeys", [])) if free else s["concrete"],
             ["commit", s["end"][1]] if s["end"][0] == "commit" else ["cancel"])
            for s in real["sessions"]]


# ------------------------------------------------------------------------------------------------
# comparison helpers

def norm_results(results):
    out = []
    for r in results:
        if isinstance(r, (tuple, list)):
            out.append(tuple(r))
        else:
            out.append(r)
    return out


def model_results(tokens):
    """driver result tokens -> [(kind, ...)] ; count carries (model, spec)"""
    out = []
    for t in tokens:
        if t == "ok":
            out.append("ok")
        elif t[0] == "count":
            out.append(("count", int(t[1]), int(t[2])))
        elif t[0] == "err":
            out.append(("err", t[1]))
        else:
            out.append(("?", t))
    return out


def diff_docs(exp_docs, got_docs):
    """first difference between two {sid: rec} maps, or None"""
    for k in sorted(set(exp_docs) | set(got_docs), key=repr):
        if k not in got_docs:
            return ("missing", k)
        if k not in exp_docs:
            return ("unexpected", k)
        e, g = exp_docs[k], got_docs[k]
        if e.get("dup") or g.get("dup"):
            if e.get("dup") != g.get("dup"):
                return ("duplicate", k)
            continue
        for part in ("stored", "len", "col", "vec"):
            if e[part] != g[part]:
                return (part, k, e[part], g[part])
    return None


SCRATCH_ROOT = os.environ.get("VERIF_SCRATCH") or tempfile.gettempdir()


def new_scratch(prefix):
    """a fresh scratch directory (always under the original temp root) whose `tmp/` sub-directory
    becomes this process's tempdir"""
    base = tempfile.mkdtemp(prefix=prefix, dir=SCRATCH_ROOT)
    private_tmp(os.path.join(base, "tmp"))
    return base


def expected_terminfo(tables, layout, schema_names):
    """{(field, tbytes): (df, weight, min_len, max_len, max_weight, min_id, max_id)} from the physical
    documents (layout: keys by doc number, deleted ones included) and the documents' records: the
    term index of a segment covers deleted documents until they are merged away."""
    acc = {}
    dn = 0
    for cnt, deleted, keys in layout:
        for k in keys:
            rec = tables.recs[k] if k is not None else {}
            for name, fr in rec.items():
                if name not in schema_names:
                    continue
                for tb, w, _ in fr["toks"]:
                    a = acc.setdefault((name, tb), [0, 0.0, None, None, 0.0, None, None])
                    a[0] += 1
                    a[1] += float(w)
                    ln = fr["len"]
                    a[2] = ln if a[2] is None else min(a[2], ln)
                    a[3] = ln if a[3] is None else max(a[3], ln)
                    a[4] = max(a[4], float(w))
                    a[5] = dn if a[5] is None else min(a[5], dn)
                    a[6] = dn if a[6] is None else max(a[6], dn)
            dn += 1
    return dict((k, tuple(v)) for k, v in acc.items())


def live_key_order(layout):
    """keys of the live documents in doc-number order, from a dump's layout"""
    order = []
    for cnt, deleted, keys in layout:
        dl = set(deleted)
        order.extend(k for i, k in enumerate(keys) if i not in dl)
    return order


def groups_of(world):
    return [g for ops, _ in world["sessions"] for op in ops if op[0] == "group" for g in all_groups(op[1])]


def group_violation(world, layout):
    """first group whose live members are not contiguous and in order, or None"""
    order = live_key_order(layout)
    pos = dict((k, i) for i, k in enumerate(order))
    for g in groups_of(world):
        ps = [pos[k] for k in g if k in pos]
        if ps and ps != list(range(ps[0], ps[0] + len(ps))):
            return g, ps
    return None


def corpus_items(pid):
    """[("corpus", path)] for every file of corpus/<pid>/ (replayed first on every run)"""
    d = os.path.join(os.path.dirname(os.path.dirname(os.path.dirname(os.path.abspath(__file__)))), "corpus", pid)
    if not os.path.isdir(d):
        return []
    return [("corpus", os.path.join(d, n)) for n in sorted(os.listdir(d)) if n.endswith(".json")]


def load_corpus(path):
    import json
    with open(path) as f:
        return json.load(f)


def private_tmp(path):
    """RamStorage.temp_storage() uses tempfile.gettempdir()/<indexname>.tmp, shared by every
    process on the machine: give each worker its own temp dir."""
    os.makedirs(path, exist_ok=True)
    tempfile.tempdir = path
    os.environ["TMPDIR"] = path


# ------------------------------------------------------------------------------------------------
# writer front-ends and storage back-ends (C18)


def gen_mp_failure(rng):
    """parameters of one `a document kills a sub-writer process` scenario: the bad document is never
    the first of its batch, so a good document indexed by the same sub-process precedes it; few enough
    batches that the bounded job queue cannot fill up"""
    batch = rng.choice([2, 3])
    ndocs = rng.randint(batch + 1, 3 * batch)
    cands = [i for i in range(ndocs) if i % batch >= 1]
    return {"kind": rng.choice(["unknown-field", "bad-number"]), "procs": rng.choice([1, 2, 3]), "batchsize": batch,
            "multisegment": rng.random() < 0.4, "ndocs": ndocs, "bad": rng.choice(cands),
            "withblock": rng.random() < 0.5}


def run_mp_failure(p, base):
    """MpWriter gets one document its sub-process cannot index (unknown field name / text for a NUMERIC
    field).  Records which add_document calls returned normally, how commit ended, what the index
    holds afterwards and whether it can be written again."""
    from whoosh import fields, index
    from whoosh.multiproc import MpWriter
    path = os.path.join(base, "ix")
    os.makedirs(path)
    schema = fields.Schema(id=fields.ID(stored=True), n=fields.NUMERIC(stored=True), txt=fields.TEXT)
    ix = index.create_in(path, schema)
    with ix.writer() as w:
        w.add_document(id=u"old", n=1, txt=u"old doc")
    out = {"params": p, "accepted": [], "add_errors": [], "good": []}
    # the dying sub-process prints its traceback: keep it out of the check's output
    sys.stderr.flush()
    saved = os.dup(2)
    devnull = os.open(os.devnull, os.O_WRONLY)
    os.dup2(devnull, 2)
    try:
        w = MpWriter(ix, procs=p["procs"], batchsize=p["batchsize"], multisegment=p["multisegment"])
        try:
            if p.get("withblock"):
                w.start_group()
                w.end_group()
            for i in range(p["ndocs"]):
                kw = dict(id=u"d%d" % i, n=i, txt=u"alfa bravo")
                if i == p["bad"]:
                    if p["kind"] == "unknown-field":
                        kw["nosuch"] = u"x"
                    else:
                        kw["n"] = u"notanumber"
                else:
                    out["good"].append(kw["id"])
                try:
                    w.add_document(**kw)
                    out["accepted"].append(kw["id"])
                except Exception as e:  # noqa
                    out["add_errors"].append([kw["id"], type(e).__name__])
            try:
                w.commit()
                out["commit"] = "ok"
            except Exception as e:  # noqa
                out["commit"] = "%s: %s" % (type(e).__name__, str(e)[:120])
        finally:
            for t in getattr(w, "tasks", []):
                try:
                    if t.is_alive():
                        t.terminate()
                        t.join(10)
                except Exception:  # noqa
                    pass
    finally:
        sys.stderr.flush()
        os.dup2(saved, 2)
        os.close(saved)
        os.close(devnull)
    ix2 = index.open_dir(path)
    with ix2.searcher() as s:
        out["stored"] = sorted(d["id"] for d in s.documents())
    try:
        with ix2.writer() as w2:
            w2.add_document(id=u"after", n=9, txt=u"x")
        out["relock"] = "ok"
    except Exception as e:  # noqa
        out["relock"] = type(e).__name__
    return out


class Watchdog(object):
    """raise TimeoutError in this process after `seconds` (worker processes only)"""

    def __init__(self, seconds):
        self.seconds = seconds

    def _fire(self, *a):
        raise TimeoutError("no progress for %d s" % self.seconds)

    def __enter__(self):
        import signal
        self.old = signal.signal(signal.SIGALRM, self._fire)
        signal.alarm(self.seconds)

    def __exit__(self, *a):
        import signal
        signal.alarm(0)
        signal.signal(signal.SIGALRM, self.old)


def allow_children():
    """pool workers are daemonic; MpWriter needs to start processes of its own"""
    import multiprocessing
    try:
        multiprocessing.current_process()._config["daemon"] = False
    except Exception:  # noqa
        pass


def make_writer(ix, cfg):
    """(writer, kind-specific cleanup) for one session"""
    fe = cfg.get("frontend", "plain")
    kw = writer_kwargs(cfg)
    if fe == "plain":
        return ix.writer(**kw)
    if fe == "mp":
        from whoosh.multiproc import MpWriter
        return MpWriter(ix, procs=cfg.get("procs", 2), batchsize=cfg.get("batchsize", 2),
                        multisegment=cfg.get("multisegment", False), **kw)
    if fe == "serialmp":
        from whoosh.multiproc import SerialMpWriter
        return SerialMpWriter(ix, procs=cfg.get("procs", 2), **kw)
    if fe == "async":
        from whoosh.writing import AsyncWriter
        return AsyncWriter(ix, delay=0.005, writerargs=kw)
    raise ValueError(fe)


def async_behind_writer_ok(session):
    """a session whose calls mean the same whenever they are resolved: additions, updates, delete_by_term
    (delete by number/query are resolved by the AsyncWriter against the index as it is at call time)"""
    ops, end = session
    return end[0] == "commit" and end[1] != "clear" and all(o[0] in ("add", "upd", "group", "delterm") for o in ops)


def _run_async_behind_writer(st, world, cfg, si):
    from whoosh.writing import AsyncWriter
    (ops0, end0), (ops1, end1) = world["sessions"][si], world["sessions"][si + 1]
    kw = writer_kwargs(cfg)
    rec0 = {"concrete": [], "results": [], "end": end0 if end0[0] == "commit" else ["cancel"], "delkeys": []}
    rec1 = {"concrete": [], "results": [], "end": end1, "delkeys": [], "async_buffered": True, "behind_writer": True}
    holder = st.open_index().writer(**kw)                  # holds the write lock
    try:
        aw = AsyncWriter(st.open_index(), delay=0.005, writerargs=kw)
        if aw.writer is not None:
            raise RuntimeError("AsyncWriter obtained the lock although another writer holds it")
        for op in ops1:
            apply_op(aw, world, op, rec1["concrete"], rec1["results"], aw.searcher, rec1["delkeys"])
        aw.commit(**commit_kwargs(end1[1]))                # starts the retry thread
        for op in ops0:
            apply_op(holder, world, op, rec0["concrete"], rec0["results"], holder.searcher, rec0["delkeys"])
        if end0[0] == "commit":
            holder.commit(**commit_kwargs(end0[1]))
        else:
            holder.cancel()
        holder = None
        aw.join(120)
        if aw.is_alive():
            raise RuntimeError("AsyncWriter thread did not finish")
    finally:
        if holder is not None:
            holder.cancel()
    return [rec0, rec1]


def gen_async_world(rng):
    """A deferred AsyncWriter behind a lock holder whose commit changes what the AsyncWriter's calls mean when
    resolved too early: the holder adds documents carrying the term the AsyncWriter deletes by, and/or deletes and
    merges (renumbering).  Sessions come in (holder, async) pairs after two or three committed segments."""
    docs, sessions = [], []

    def doc(tag=None, key=None):
        d = {"sid": len(docs), "f": {"sid": "s%d" % len(docs), "txt": " ".join(rng.choice(WORDS[:4]) for _ in range(rng.choice([1, 2, 3])))}}
        d["f"]["tag"] = tag if tag is not None else " ".join(rng.choice(WORDS[3:]) for _ in range(rng.choice([1, 2])))
        if key is not None:
            d["f"]["uk"] = key
        docs.append(d)
        return d["sid"]

    uniq = rng.random() < 0.5
    fields = sorted(["sid", "tag", "txt"] + (["uk"] if uniq else []))
    for _ in range(rng.choice([2, 2, 3])):
        sessions.append([[["upd" if uniq else "add", doc(key="k%d" % (len(docs) % 4) if uniq else None)]
                          for _ in range(rng.choice([1, 2, 3, 4]))], ["commit", "nomerge"]])
    for _ in range(rng.choice([1, 2])):
        t = rng.choice(WORDS[3:])
        hold = []
        if rng.random() < 0.6 and docs:
            hold.append(["delkey", rng.randrange(len(docs))])
        if rng.random() < 0.8:
            hold += [["add", doc(tag=t + (" " + rng.choice(WORDS[3:]) if rng.random() < 0.5 else ""))]
                     for _ in range(rng.choice([1, 2]))]
        sessions.append([hold, ["commit", rng.choice(["nomerge", "small", "optimize", "optimize"])] if rng.random() < 0.9
                         else ["cancel"]])
        later = [["delterm", "tag", t]]
        if rng.random() < 0.7:
            later.append(["upd" if uniq else "add", doc(key="k%d" % rng.randrange(4) if uniq else None)])
        if rng.random() < 0.3:
            later.insert(0, ["delterm", "txt", rng.choice(WORDS[:4])])
        sessions.append([later, ["commit", rng.choice(["nomerge", "small", "optimize"])]])
    return {"fields": fields, "docs": docs, "sessions": sessions, "disciplined": True}


def run_frontend(world, cfg, path, probes=(), dump_at=None, async_decoy=None):
    """Like run_real, one writer of the configured front-end per session.
    async_decoy: list of booleans (per session) — hold the write lock while the AsyncWriter is used."""
    import time
    st = open_storage(cfg, os.path.join(path, "ix"))
    ix = st.create_index(build_schema(world["fields"]))
    out = []
    fe = cfg.get("frontend", "plain")
    skip = False
    for si, (ops, end) in enumerate(world["sessions"]):
        if skip:
            skip = False
            continue
        if (fe == "async" and async_decoy and async_decoy[si % len(async_decoy)] == "writer" and cfg["storage"] == "file"
                and si + 1 < len(world["sessions"]) and async_behind_writer_ok(world["sessions"][si + 1])):
            # session si is performed by a plain writer that holds the lock while session si + 1 is handed to a
            # deferred AsyncWriter; the AsyncWriter's calls must take effect after the lock holder's commit
            out.extend(_run_async_behind_writer(st, world, cfg, si))
            if dump_at is None or si + 1 in dump_at:
                out[-1]["dump"] = dump_index(st.open_index(), probes)
            skip = True
            continue
        concrete, results, delkeys = [], [], []
        rec = {"concrete": concrete, "results": results, "end": end, "delkeys": delkeys}
        ix = st.open_index()
        decoy = None
        if (fe == "async" and async_decoy and async_decoy[si % len(async_decoy)] in ("late", "early", True)
                and cfg["storage"] == "file"):
            # (on RamStorage a second writer blocks for ever instead of raising LockError: C04)
            decoy = ix.lock("WRITELOCK")
            if not decoy.acquire():
                decoy = None
        w = make_writer(ix, cfg)
        buffered_async = fe == "async" and w.writer is None
        rec["async_buffered"] = buffered_async

        mode = async_decoy[si % len(async_decoy)] if (fe == "async" and async_decoy) else False
        if mode == "writer":
            mode = "late"
            if cfg["storage"] == "file":
                decoy = ix.lock("WRITELOCK")
                if not decoy.acquire():
                    decoy = None
        released = [False]

        def release_early():
            # the other writer goes away before commit() is called
            if buffered_async and mode == "early" and not released[0]:
                decoy.release()
                released[0] = True

        def finish():
            if buffered_async:
                if not released[0]:
                    time.sleep(0.01)
                    decoy.release()
                    released[0] = True
                if end[0] == "commit" and w.ident is not None:
                    w.join(120)
                    if w.is_alive():
                        raise RuntimeError("AsyncWriter thread did not finish")
            if fe == "mp":
                for t in getattr(w, "tasks", []):
                    t.join(20) if end[0] == "commit" else t.terminate()

        try:
            if end[0] == "raise":
                try:
                    with w:
                        for op in ops:
                            apply_op(w, world, op, concrete, results, w.searcher, delkeys)
                        raise Boom()
                except Boom:
                    pass
            else:
                for op in ops:
                    apply_op(w, world, op, concrete, results, w.searcher, delkeys)
                release_early()
                if end[0] == "commit":
                    w.commit(**commit_kwargs(end[1]))
                else:
                    w.cancel()
        finally:
            finish()
        if dump_at is None or si in dump_at:
            src = st
            if cfg.get("copy_to_ram") and cfg["storage"] == "file":
                from whoosh.filedb.filestore import copy_to_ram
                src = copy_to_ram(st)
            rec["dump"] = dump_index(src.open_index(), probes)
        out.append(rec)
    return {"sessions": out}


EXPANSION_BOUNDS = {"txt": ["a", "aa", "bb", "cc", "ee"], "tag": ["d", "dd", "ee", "gg"], "x1": ["dd", "ff"],
                    "x2": ["aa", "cc"], "uk": ["", "k", "k0", "k1", "k2"], "sid": ["s", "s1", "s2"], "vt": ["aa", "dd"]}


def expansion_probes(s, fieldnames):
    """Term expansions that start at a bound (Prefix, open/closed TermRange, Wildcard with a literal prefix,
    reader.expand_prefix / terms_from) through searcher `s`: {(kind, field, bound): sorted keys | term bytes}."""
    from whoosh import query
    out = {}
    r = s.reader()
    for f in sorted(fieldnames):
        for b in EXPANSION_BOUNDS.get(f, ()):
            try:
                for kind, q in (("prefix", query.Prefix(f, b)), ("range", query.TermRange(f, b, None)),
                                ("range1", query.TermRange(f, b, b)), ("wild", query.Wildcard(f, b + "*"))):
                    if kind == "wild" and b == "":
                        continue
                    out[(kind, f, b)] = sorted(_sid_of(s.stored_fields(dn)) for dn in s.docs_for_query(q))
            except Exception as e:  # noqa
                out[("raised", f, b)] = "%s: %s" % (type(e).__name__, e)
            try:
                out[("expand_prefix", f, b)] = list(r.expand_prefix(f, b))
                tf = []
                for fn, t in r.terms_from(f, b):
                    if fn != f or len(tf) >= 40:
                        break
                    tf.append(t)
                out[("terms_from", f, b)] = tf
            except Exception as e:  # noqa
                out[("walk-raised", f, b)] = "%s: %s" % (type(e).__name__, e)
    return out


def expected_expansion(tables, content, kind, f, b):
    """keys of the documents of `content` with a term of field f in the expansion (kind, bound b)"""
    bb = b.encode("utf8")
    test = {"prefix": lambda t: t.startswith(bb), "wild": lambda t: t.startswith(bb), "range": lambda t: t >= bb,
            "range1": lambda t: t == bb}[kind]
    hits = []
    for key, fids in content:
        fr = tables.recs[key].get(f)
        if fr is not None and FID[f] in fids and any(test(tb) for tb, _, _ in fr["toks"]):
            hits.append(key)
    return sorted(hits)


def run_buffered(world, cfg, path, probes=()):
    """The whole op list through one BufferedWriter (flat semantics: every call sees committed +
    buffered documents).  After every op the writer's own searcher is probed.
    Returns {"steps": [{op, concrete, result, sids}], "dump": final dump after close()}."""
    from whoosh.writing import BufferedWriter
    st = open_storage(cfg, os.path.join(path, "ix"))
    ix = st.create_index(build_schema(world["fields"]))
    bw = BufferedWriter(ix, period=None, limit=cfg.get("limit", 3), writerargs=writer_kwargs(cfg),
                        commitargs=commit_kwargs(cfg.get("bufkind", "small")))
    steps = []
    try:
        for ops, end in world["sessions"]:
            for op in ops:
                if op[0] in ("addf", "remf", "undelkey", "delnum", "delneg", "group", "addbad"):
                    continue
                concrete, results, delkeys = [], [], []
                apply_op(bw, world, op, concrete, results, bw.searcher, delkeys)
                raw = [o for o in concrete if o[0] not in ("gstart", "gend")]
                concrete = layout_free(raw, delkeys)
                with bw.searcher() as s:
                    r = s.reader()
                    sids = sorted(_sid_of(r.stored_fields(dn)) for dn in r.all_doc_ids())
                    cnt = r.doc_count()
                    hits = sorted(_sid_of(s.stored_fields(dn)) for dn in s.docs_for_query(to_whoosh_query(["every"])))
                    expn = expansion_probes(s, world["fields"])
                steps.append({"op": op, "concrete": list(concrete), "raw": raw, "results": list(results), "sids": sids,
                              "doc_count": cnt, "every": hits, "expansions": expn})
            if end[0] == "commit":
                bw.commit()
                with bw.searcher() as s:
                    r = s.reader()
                    sids = sorted(_sid_of(r.stored_fields(dn)) for dn in r.all_doc_ids())
                steps.append({"op": ["commit"], "concrete": [], "raw": [["commit"]], "results": ["ok"], "sids": sids,
                              "doc_count": len(sids), "every": sids})
    finally:
        bw.close()
    return {"steps": steps, "dump": dump_index(st.open_index(), probes)}
