"""Helpers of the codec family (C08): real-code runners for column writers/readers on several
storages, generators of (docnum, value) adds biased to the thresholds, canonical text that agrees
with WM/Drv/C08.lean."""
import itertools
import os
import shutil
import struct
import tempfile
import zlib

_COUNTER = itertools.count()


def hexs(b):
    return b.hex() if b else "-"


def lst(items):
    return "(" + " ".join(items) + ")"


def exc_name(e):
    n = type(e).__name__
    if n == "error":
        return "OverflowError"          # struct.error: value out of range
    return n


# ------------------------------------------------------------------------------------------------
# running a real column on a storage

STORAGES = ["ram", "file", "file-nommap", "compound"]


class Store(object):
    """A column written to / read from one of: RamStorage, FileStorage (mmap on/off), a compound
    file assembled from a FileStorage.  `prefix` junk bytes put the column at a non-zero basepos."""

    def __init__(self, kind, prefix=b""):
        self.kind = kind
        self.prefix = prefix
        self.dir = None
        from whoosh.filedb.filestore import RamStorage, FileStorage
        if kind == "ram":
            self.st = RamStorage()
        else:
            self.dir = tempfile.mkdtemp(prefix="wverif-C08-")
            self.st = FileStorage(self.dir, supports_mmap=(kind != "file-nommap"))

    def write(self, fn):
        f = self.st.create_file("col")
        f.write(self.prefix)
        fn(f)
        f.close()

    def raw(self):
        f = self.st.open_file("col")
        data = f.read()
        f.close()
        return data[len(self.prefix):]

    def open(self):
        """-> (dbfile, basepos, length)"""
        if self.kind == "compound":
            from whoosh.filedb.compound import CompoundStorage
            if not self.st.file_exists("cmp"):
                CompoundStorage.assemble(self.st.create_file("cmp"), self.st, ["col"])
            cst = CompoundStorage(self.st.open_file("cmp"), use_mmap=True)
            self._cst = cst
            length = cst.file_length("col")
            return cst.open_file("col"), len(self.prefix), length - len(self.prefix)
        length = self.st.file_length("col")
        return self.st.open_file("col"), len(self.prefix), length - len(self.prefix)

    def close(self):
        try:
            if getattr(self, "_cst", None) is not None:
                self._cst.close()
        except Exception:  # noqa
            pass
        if self.dir:
            shutil.rmtree(self.dir, ignore_errors=True)


def run_column(col, adds, doccount, storage="ram", prefix=b"", show=None, reads=None):
    """Write `adds` through col.writer, finish(doccount), reopen, read rows.
    Returns ("ok", filebytes, rows, reader) or ("err", name)."""
    store = Store(storage, prefix)
    try:
        err = []

        def w(f):
            try:
                cw = col.writer(f)
                for d, v in adds:
                    cw.add(d, v)
                cw.finish(doccount)
            except Exception as e:  # noqa
                err.append(exc_name(e))
        store.write(w)
        if err:
            return ("err", err[0])
        raw = store.raw()
        f, basepos, length = store.open()
        try:
            try:
                r = col.reader(f, basepos, length, doccount)
            except Exception as e:  # noqa
                return ("ok", raw, "open-err " + exc_name(e), None)
            rows = []
            for d in (range(doccount) if reads is None else reads):
                try:
                    rows.append(r[d])
                except Exception as e:  # noqa
                    rows.append(e)
            extra = {"had_stored_offsets": getattr(r, "had_stored_offsets", None)}
            try:
                extra["iter"] = list(r) if reads is None else None
            except Exception as e:  # noqa
                extra["iter"] = e
            try:
                if reads is None:
                    ld = r.load()
                    extra["load"] = [ld[d] for d in range(doccount)]
                else:
                    extra["load"] = None
            except Exception as e:  # noqa
                extra["load"] = e
            # sort keys, plain and after set_reverse() (last: set_reverse mutates the reader)
            for name in ("sort_keys", "rev_keys"):
                try:
                    if name == "rev_keys":
                        r.set_reverse()
                    extra[name] = [r.sort_key(d) for d in range(doccount)] if reads is None else None
                except Exception as e:  # noqa
                    extra[name] = e
            return ("ok", raw, rows, extra)
        finally:
            try:
                f.close()
            except Exception:  # noqa
                pass
    finally:
        store.close()


def adds_sexp(adds, show):
    return lst(["(%d %s)" % (d, show(v)) for d, v in adds])


# ------------------------------------------------------------------------------------------------
# generators

def gen_docnums(rng, n, tail=None):
    """n strictly increasing docnums with gaps, and a doccount beyond the last one."""
    ds, cur = [], rng.choice([0, 0, 0, 1, 3])
    for _ in range(n):
        ds.append(cur)
        cur += rng.choice([1, 1, 1, 1, 2, 3, 7])
    doccount = (ds[-1] + 1 if ds else 0) + (rng.choice([0, 0, 1, 2, 5]) if tail is None else tail)
    return ds, doccount


NASTY = [b"", b"\x00", b"\x00\x00", b"a", b"ab\x00cd", b"\xff" * 3, u"\U0001f600".encode("utf-8"),
         u"\xe9".encode("utf-8"), b"X", b"B", b"H", b"i", b"I", b"\x00X", b"BX", b"HIX"]


def gen_bytes(rng, maxlen=12):
    r = rng.random()
    if r < 0.3:
        return rng.choice(NASTY)
    n = rng.choice([0, 1, 1, 2, 3, 5, maxlen])
    return bytes(rng.randrange(256) for _ in range(n))


def gen_var_case(rng, tier):
    """VarBytes adds around the type-code thresholds of the lengths/offsets arrays."""
    mode = rng.choice(["small", "small", "small", "len255", "len256", "total255", "total256", "total65535",
                       "total65536", "many"])
    cutoff = rng.choice([0, 0, 1, 3, 2 ** 15])
    allow = rng.random() < 0.9
    n = rng.choice([0, 1, 2, 3, 5, 8])
    vals = [gen_bytes(rng) for _ in range(n)]
    if mode == "len255":
        vals.append(b"\x07" * 255)
    elif mode == "len256":
        vals.append(b"\x08" * rng.choice([256, 257, 300]))
    elif mode.startswith("total"):
        target = int(mode[5:])
        cur = sum(len(v) for v in vals)
        if target > cur:
            k = rng.randrange(len(vals) + 1)
            vals.insert(k, bytes([rng.randrange(256)]) * (target - cur))
        if rng.random() < 0.5:
            vals.append(gen_bytes(rng))       # something after the threshold
    elif mode == "many":
        vals += [gen_bytes(rng, 3) for _ in range(rng.choice([30, 300] if tier == "quick" else [300, 3000]))]
    rng_tail = rng.choice([None, None, 0, 3])
    ds, doccount = gen_docnums(rng, len(vals), rng_tail)
    return {"type": "var", "allow": allow, "cutoff": cutoff, "adds": list(zip(ds, vals)), "doccount": doccount,
            "mode": mode}


def gen_fixed_case(rng, tier):
    fl = rng.choice([1, 1, 2, 3, 4, 8])
    default = rng.choice([None, None, bytes(rng.randrange(256) for _ in range(fl))])
    db = default if default is not None else b"\x00" * fl
    n = rng.choice([0, 1, 2, 3, 6, 20])
    vals = []
    for _ in range(n):
        r = rng.random()
        if r < 0.25:
            vals.append(db)
        elif r < 0.35:
            vals.append(b"\x00" * fl)
        else:
            vals.append(bytes(rng.randrange(256) for _ in range(fl)))
    ds, doccount = gen_docnums(rng, n)
    return {"type": "fixed", "fixedlen": fl, "default": default, "adds": list(zip(ds, vals)), "doccount": doccount}


NUM_LIMITS = {"b": (-2 ** 7, 2 ** 7 - 1), "B": (0, 2 ** 8 - 1), "h": (-2 ** 15, 2 ** 15 - 1), "H": (0, 2 ** 16 - 1),
              "i": (-2 ** 31, 2 ** 31 - 1), "I": (0, 2 ** 32 - 1), "q": (-2 ** 63, 2 ** 63 - 1), "Q": (0, 2 ** 64 - 1)}


def gen_num_case(rng, tier, out_of_range=False):
    code = rng.choice(list(NUM_LIMITS))
    lo, hi = NUM_LIMITS[code]
    edge = [lo, lo + 1, hi, hi - 1, 0, 1, -1 if lo < 0 else 2, 255, 256, 65535, 65536]
    edge = [e for e in edge if lo <= e <= hi]
    default = rng.choice([0, 0, hi, lo, rng.choice(edge)])
    n = rng.choice([0, 1, 2, 3, 6, 20])
    vals = []
    for _ in range(n):
        r = rng.random()
        if r < 0.2:
            vals.append(default)
        elif r < 0.7:
            vals.append(rng.choice(edge))
        else:
            vals.append(rng.randint(lo, hi))
    if out_of_range and vals:
        vals[rng.randrange(len(vals))] = rng.choice([lo - 1, hi + 1])
    ds, doccount = gen_docnums(rng, n)
    return {"type": "num", "code": code, "default": default, "adds": list(zip(ds, vals)), "doccount": doccount}


def gen_ref_case(rng, tier, big=None):
    fl = rng.choice([0, 0, 0, 2])
    default = rng.choice([None, None, (b"dd" if fl else b"dflt")])
    db = default if default is not None else (b"\x00" * fl if fl else b"")
    nuniq = big or rng.choice([1, 2, 3, 5, 254, 255, 256, 257, 300])
    pool = []
    for k in range(nuniq):
        if fl:
            pool.append(struct.pack("!H", k % 65536) if k < 65536 else None)
        else:
            pool.append(b"u%d" % k if k % 7 else b"u\x00%d" % k)
    pool = [p for p in pool if p is not None]
    n = len(pool) + rng.choice([0, 1, 5])
    vals = list(pool)
    while len(vals) < n:
        vals.append(rng.choice(pool + [db]))
    if not big:
        rng.shuffle(vals)
    if rng.random() < 0.3 and vals:
        vals[rng.randrange(len(vals))] = db
    ds, doccount = gen_docnums(rng, len(vals))
    return {"type": "ref", "fixedlen": fl, "default": default, "adds": list(zip(ds, vals)), "doccount": doccount,
            "nuniq": nuniq}


def gen_bit_case(rng, tier):
    n = rng.choice([0, 1, 2, 7, 8, 9, 16, 17, 40, 200])
    vals = [rng.random() < 0.5 for _ in range(n)]
    ds, doccount = gen_docnums(rng, n)
    compress_at = rng.choice([2048, 0, 1, 2, 3])
    return {"type": "bit", "compress_at": compress_at, "adds": list(zip(ds, vals)), "doccount": doccount}


# ------------------------------------------------------------------------------------------------
# wrapped / experimental columns: end-to-end round trips (oracle: the spec rows)

FLOATS = [0.0, -0.0, 1.5, -2.25, float("inf"), float("-inf"), float("nan"), 1e-310, 1.7976931348623157e308,
          5e-324, 3.0, 0.1]


def fbits(x):
    return struct.pack("!d", x).hex()


def gen_wrapped_case(rng, tier):
    kind = rng.choice(["pickle-var", "pickle-compressed", "compressed", "struct", "float-d", "float-f", "varlist",
                       "fixlist", "cblock", "clamped"])
    n = rng.choice([0, 1, 2, 4, 9])
    ds, doccount = gen_docnums(rng, n)
    if kind.startswith("pickle"):
        pool = [None, u"", u"x", u"\U0001f600\x00", b"\x00b", 0, -1, 2 ** 70, 1.5, [1, u"a", None], {"k": [1, 2]},
                (1, 2), {}, [], True]
        vals = [rng.choice(pool) for _ in range(n)]
    elif kind == "cblock":
        # block-structured column: the number of blocks is what matters.  Block size in bytes 0 (every
        # value closes a block), a few bytes (some documents per block), 1 KB, the default 32 KB
        # (reached with a few large values); more rows than the other kinds so that there are 3+ blocks
        blockbytes = rng.choice([0, 0, 4, 16, 1024, 32 * 1024])
        n = rng.choice([0, 1, 2, 4, 9, 14, 25])
        ds, doccount = gen_docnums(rng, n)
        if blockbytes >= 1024:
            vals = [gen_bytes(rng, 40) if rng.random() < 0.5 else
                    bytes([rng.randrange(256)]) * rng.choice([blockbytes // 3, blockbytes // 2, blockbytes, blockbytes + 1])
                    for _ in range(n)]
        else:
            vals = [gen_bytes(rng, 40) for _ in range(n)]
        return {"type": kind, "adds": list(zip(ds, vals)), "doccount": doccount, "blockbytes": blockbytes}
    elif kind == "compressed":
        vals = [gen_bytes(rng, 40) for _ in range(n)]
    elif kind == "struct":
        vals = [(rng.randint(-2 ** 15, 2 ** 15 - 1), rng.randint(0, 2 ** 32 - 1)) for _ in range(n)]
    elif kind.startswith("float"):
        vals = [rng.choice(FLOATS) for _ in range(n)]
        if kind == "float-f":
            vals = [struct.unpack("!f", struct.pack("!f", v))[0] if abs(v) < 1e38 or v != v or abs(v) == float("inf")
                    else 1.0 for v in vals]
    elif kind == "varlist":
        vals = [[gen_bytes(rng, 6) for _ in range(rng.choice([0, 1, 2, 5]))] for _ in range(n)]
    elif kind == "fixlist":
        vals = [[bytes(rng.randrange(256) for _ in range(3)) for _ in range(rng.choice([0, 1, 2, 5]))]
                for _ in range(n)]
    elif kind == "clamped":
        vals = [rng.choice([0, 5, 255, 256, -1, 1000]) for _ in range(n)]
    return {"type": kind, "adds": list(zip(ds, vals)), "doccount": doccount}


def wrapped_column(case):
    from whoosh import columns
    k = case["type"]
    if k == "pickle-var":
        return columns.PickleColumn(columns.VarBytesColumn()), None
    if k == "pickle-compressed":
        return columns.PickleColumn(columns.CompressedBytesColumn()), None
    if k == "compressed":
        return columns.CompressedBytesColumn(), b""
    if k == "cblock":
        # blocksize is in KB (the writer multiplies by 1024); fractions give blocks of a few bytes
        return columns.CompressedBlockColumn(blocksize=case.get("blockbytes", 32 * 1024) / 1024.0), b""
    if k == "struct":
        return columns.StructColumn("!hI", (0, 7)), (0, 7)
    if k == "float-d":
        return columns.NumericColumn("d", default=0.0), 0.0
    if k == "float-f":
        return columns.NumericColumn("f", default=0.0), 0.0
    if k == "varlist":
        return columns.VarBytesListColumn(), []
    if k == "fixlist":
        return columns.FixedBytesListColumn(3), []
    if k == "clamped":
        return columns.ClampedNumericColumn(columns.NumericColumn("B")), 0
    raise ValueError(k)


def atom(v):
    """Canonical opaque atom of a Python value (floats by bit pattern, NaNs collapsed)."""
    if isinstance(v, float):
        if v != v:
            return "f:nan"
        return "f:" + fbits(v)
    if isinstance(v, Exception):
        return "!" + type(v).__name__
    return repr(v).encode("utf-8").hex() or "-"


# ------------------------------------------------------------------------------------------------
# public API end to end: stored + sortable fields through commits / merges / storages

import datetime as _dt

TEXTS = [u"", u"a", u"alfa bravo", u"\U0001f600 x", u"\xe9中", u"nul\x00inside", u"z" * 300, u"B", u"X", u"HIX"]
FOURS = [u"abcd", u"wxyz", u"0000", u"AAAA", u"q\x00rs"]
STOREDS = [u"s", 7, -2 ** 70, 1.25, float("nan"), float("inf"), -0.0, b"\x00bytes\xff", [1, [2, u"x"]], {"k": u"v"},
           (1, 2), True, False, u"\U0001f600", _dt.datetime(2001, 2, 3, 4, 5, 6, 789), {}, [], u""]
DATES = [_dt.datetime(1, 1, 1), _dt.datetime(9999, 12, 31, 23, 59, 59, 999999), _dt.datetime(1970, 1, 1),
         _dt.datetime(2024, 2, 29, 12, 0, 0, 1), _dt.datetime(1969, 12, 31, 23, 59, 59, 999999)]
INT_FIELDS = {"n8": (8, True), "u8": (8, False), "n16": (16, True), "u16": (16, False), "n32": (32, True),
              "u32": (32, False), "n64": (64, True), "u64": (64, False)}


def api_schema(case):
    from whoosh import fields, columns
    sch = {"id": fields.ID(stored=True, unique=True),
           "st": fields.STORED(),
           "t": fields.TEXT(stored=True, sortable=True),
           "k": fields.ID(sortable=True),
           "kr": fields.ID(sortable=columns.RefBytesColumn(), stored=True),
           "k4": fields.ID(sortable=columns.FixedBytesColumn(4)),
           "kp": fields.ID(sortable=columns.PickleColumn(columns.CompressedBytesColumn())),
           "dt": fields.DATETIME(sortable=True, stored=True),
           "nf": fields.NUMERIC(float, sortable=True),
           "nd": fields.NUMERIC(int, bits=32, signed=True, sortable=True, default=case["nd_default"]),
           "kw": fields.KEYWORD(sortable=True, stored=True),
           "zc": fields.COLUMN(columns.NumericColumn("i"))}
    for name, (bits, signed) in INT_FIELDS.items():
        sch[name] = fields.NUMERIC(int, bits=bits, signed=signed, sortable=True, stored=(bits == 16))
    return fields.Schema(**sch)


def int_range(bits, signed):
    return (-(2 ** (bits - 1)), 2 ** (bits - 1) - 1) if signed else (0, 2 ** bits - 1)


def gen_api_case(rng, tier):
    ndocs = rng.choice([1, 2, 3, 5, 8, 13])
    docs = []
    for d in range(ndocs):
        doc = {}
        if rng.random() < 0.6:
            doc["st"] = rng.choice(STOREDS)
        if rng.random() < 0.6:
            doc["t"] = rng.choice(TEXTS)
            if rng.random() < 0.25:
                doc["_stored_t"] = rng.choice(TEXTS + [u"override", None])
        elif rng.random() < 0.1:
            doc["_stored_t"] = u"override without a value"          # ignored: the field itself is absent
        if rng.random() < 0.5:
            doc["k"] = rng.choice(TEXTS[1:])
            if rng.random() < 0.15:
                doc["_stored_k"] = rng.choice(TEXTS[1:] + [None])  # not a stored field: only the column sees it
        if rng.random() < 0.5:
            doc["kr"] = rng.choice(TEXTS[1:6])
        if rng.random() < 0.4:
            doc["k4"] = rng.choice(FOURS)
        if rng.random() < 0.4:
            doc["kp"] = rng.choice(TEXTS[1:])
        if rng.random() < 0.4:
            doc["dt"] = rng.choice(DATES)
        if rng.random() < 0.4:
            doc["nf"] = rng.choice([0.0, -0.0, 1.5, -2.5, 1e300, -1e300, float("inf"), float("-inf"), 5e-324])
        if rng.random() < 0.4:
            doc["nd"] = rng.choice([0, 5, -5, 2 ** 31 - 1, -2 ** 31])
        if rng.random() < 0.3:
            doc["kw"] = rng.choice([u"a b", u"x", u"tag1 tag2 tag3"])
        for name, (bits, signed) in INT_FIELDS.items():
            if rng.random() < 0.3:
                lo, hi = int_range(bits, signed)
                doc[name] = rng.choice([lo, hi, 0, 1, hi - 1, lo + 1, rng.randint(lo, hi)])
        if rng.random() < 0.3:
            doc["zc"] = rng.choice([0, 1, -1, 2 ** 31 - 1, -2 ** 31, rng.randint(-1000, 1000)])
        docs.append(doc)
    # documents the writer must reject, tried in the middle of the session (before docs[pos]); the
    # application catches the exception and goes on indexing.  Stages: unknown field (before anything
    # is staged), a value the field cannot convert (during staging), a column value the column writer
    # cannot pack (inside the per-document writer, after the stored fields of the names sorted before
    # it were handed over) — with and without column values of its own written before the failure.
    rejects = {}
    if rng.random() < 0.45:
        for _ in range(rng.choice([1, 1, 2, 3])):
            kind = rng.choice(["unknown-field", "stage-number", "stage-surrogate", "perdoc-clean", "perdoc-clean",
                               "perdoc-cols"])
            bad = {"st": rng.choice([u"LEAK", {"leak": 1}, 12345])}
            if kind == "unknown-field":
                bad.update(nosuchfield=u"x", t=u"leak t")
            elif kind == "stage-number":
                bad.update(t=u"leak t", kr=u"leak", u8=rng.choice([-1, 256]), kw=u"leak kw")
            elif kind == "stage-surrogate":
                bad.update(kr=u"leak", t=u"bad \ud800 surrogate", dt=DATES[2])
            elif kind == "perdoc-clean":
                bad.update(zc=rng.choice([2 ** 31, -2 ** 31 - 1, 2 ** 40]))
            else:
                bad.update(t=u"leak t", k=u"leak k", n16=77, kw=u"leak kw", zc=2 ** 40)
            # after the last document only rarely: W3PerDocWriter.close() then writes the cancelled document's
            # stored fields (recorded finding), which hides everything else about the segment
            pos = ndocs if rng.random() < 0.1 else rng.randrange(ndocs)
            rejects.setdefault(pos, []).append((kind, bad))
    k = rng.choice([1, 1, 2, 3])
    storage = rng.choice(["ram", "file", "file-nommap", "file-to-ram"])
    final = rng.choice(["none", "none", "optimize", "merge"])
    deletes = []
    if final == "optimize" and ndocs > 2 and rng.random() < 0.5:
        deletes = rng.sample(range(ndocs), rng.randint(1, max(1, ndocs // 3)))
    return {"docs": docs, "ncommits": k, "storage": storage, "final": final, "deletes": sorted(deletes),
            "nd_default": rng.choice([5, -7, 0]), "compound": rng.random() < 0.7, "rejects": rejects}


def api_case_json(c):
    d = dict(c)
    d["docs"] = [{k: repr(v) for k, v in doc.items()} for doc in c["docs"]]
    d["rejects"] = {str(pos): [(kind, {k: repr(v) for k, v in doc.items()}) for kind, doc in lst_]
                    for pos, lst_ in c.get("rejects", {}).items()}
    return d


API_COLUMNS = ["t", "k", "kr", "k4", "kp", "dt", "nf", "nd", "kw", "zc"] + sorted(INT_FIELDS)


STORED_FLAGS = {"id": True, "st": True, "t": True, "k": False, "kr": True, "k4": False, "kp": False, "dt": True,
                "nf": False, "nd": False, "kw": True, "zc": False}
STORED_FLAGS.update({name: bits == 16 for name, (bits, signed) in INT_FIELDS.items()})


def custom_value(doc, f):
    """`customval` of `SegmentWriter.add_document` (None when the field itself is not supplied)."""
    if doc.get(f) is None:
        return None
    return doc.get("_stored_" + f, doc.get(f))


def sdict_line(i, doc):
    """`c08 sdict`: the model's stored dict of one document (fields in sorted name order)."""
    full = dict(doc)
    full["id"] = u"%d" % i
    items = []
    for f in sorted(k for k in full if not k.startswith("_")):
        v = full.get(f)
        has_o = ("_stored_" + f) in full
        o = full.get("_stored_" + f)
        items.append("(%s %s %s %d)" % (f, "-" if v is None else atom(v),
                                        "-" if not has_o else ("None" if o is None else atom(o)),
                                        1 if STORED_FLAGS[f] else 0))
    return "c08 sdict (%s)" % " ".join(items)


def api_expected_lines(c):
    """One `c08 rows` request per column (values as opaque atoms keyed by original doc index), then
    one `c08 sdict` per document (the model's stored dict)."""
    lines = []
    n = len(c["docs"])
    for col in API_COLUMNS:
        adds = []
        for i, doc in enumerate(c["docs"]):
            v = custom_value(doc, col)
            if v is not None:
                adds.append((i, v))
        lines.append("c08 rows %s %d %s" % (atom(api_default(c, col)), n, adds_sexp(adds, atom)))
    for i, doc in enumerate(c["docs"]):
        lines.append(sdict_line(i, doc))
    return lines


def stored_atom(sf):
    return "{" + ",".join("%s=%s" % (k, atom(sf[k])) for k in sorted(sf)) + "}" if sf else atom({})


def api_default(c, col):
    """What a document without a value shows in the column (after from_column_value)."""
    if col in ("t", "k", "kr", "kw"):
        return u""
    if col == "k4":
        return u"\x00\x00\x00\x00"
    if col == "kp":
        return "__raises__"        # PickleColumn yields None, ID.from_column_value(None) cannot decode it
    if col == "dt":
        return "__max__"
    if col == "nf":
        return float("nan")
    if col == "nd":
        return c["nd_default"]
    if col == "zc":
        return 0
    bits, signed = INT_FIELDS[col]
    return int_range(bits, signed)[1]


SIG_CANCEL_COLUMNS = "W3PerDocWriter.cancel_doc:column-data-written-before-the-failure-stays-in-the-column"
SIG_CANCEL_CLOSE = "W3PerDocWriter.close:writes-the-stored-fields-of-a-cancelled-last-document"


def reject_class(c):
    """(some document was rejected inside the per-document writer, one of them as the last of a session)"""
    n, k = len(c["docs"]), c["ncommits"]
    bounds = {round(i * n / k) for i in range(1, k + 1)}
    perdoc = [pos for pos, lst_ in c.get("rejects", {}).items() for kind, _ in lst_ if kind.startswith("perdoc")]
    return bool(perdoc), any(pos == n for pos in perdoc)


def run_api_case(arg):
    """Worker: build the index through the public API, read stored fields and columns back and
    compare with the spec rows.  Returns (violations, stats)."""
    import warnings
    warnings.simplefilter("ignore")
    from whoosh.filedb.filestore import RamStorage, FileStorage, copy_to_ram
    c, speclines = arg
    viol, stats = [], {}

    def bad(sig, exp, obs, desc):
        if len(viol) < 6:
            viol.append((sig, exp, obs, desc))
    # private temp dir: RamStorage.temp_storage() works in the shared <system tmp>/<indexname>.tmp
    tmpdir = tempfile.mkdtemp(prefix="wverif-C08-")
    saved_tmp = tempfile.tempdir
    tempfile.tempdir = tmpdir
    try:
        schema = api_schema(c)
        if c["storage"] == "ram":
            st = RamStorage()
        else:
            st = FileStorage(os.path.join(tmpdir, "ix"), supports_mmap=(c["storage"] != "file-nommap")).create()
        ix = st.create_index(schema, indexname="c08x%d_%d" % (os.getpid(), next(_COUNTER)))
        n = len(c["docs"])
        k = c["ncommits"]
        bounds = [round(i * n / k) for i in range(k + 1)]
        try:
            for i in range(k):
                w = ix.writer()
                for j in range(bounds[i], bounds[i + 1] + (1 if i == k - 1 else 0)):
                    for kind, baddoc in c.get("rejects", {}).get(j, []):
                        stats["rejects"] = stats.get("rejects", 0) + 1
                        try:
                            w.add_document(id=u"rejected", **baddoc)
                        except Exception:  # noqa  (the application catches it and keeps indexing)
                            pass
                        else:
                            bad("add_document:accepted-a-document-it-must-reject:" + kind, "an exception",
                                "accepted", "add_document(%r)" % (sorted(baddoc),))
                    if j < n:
                        w.add_document(id=u"%d" % j, **c["docs"][j])
                w.commit(merge=False)
            if c["final"] != "none":
                w = ix.writer()
                for d in c["deletes"]:
                    w.delete_by_term("id", u"%d" % d)
                w.commit(optimize=(c["final"] == "optimize"))
            if c["storage"] == "file-to-ram":
                ix.close()
                st = copy_to_ram(st)
                ix = st.open_index(indexname=ix.indexname, schema=schema)
        except Exception as e:  # noqa
            sig = "index-build:%s" % type(e).__name__
            if reject_class(c)[1]:
                sig = SIG_CANCEL_CLOSE
            return [(sig, "index builds", repr(e)[:300], "indexing raised")], stats
        r = ix.reader()
        try:
            _compare_api(c, r, speclines, bad, stats)
        finally:
            r.close()
    finally:
        tempfile.tempdir = saved_tmp
        shutil.rmtree(tmpdir, ignore_errors=True)
    return viol, stats


def _compare_api(c, r, speclines, bad, stats):
    from vcheck import parse_sexp
    n = len(c["docs"])
    deleted = set(c["deletes"]) if c["final"] == "optimize" else set()
    stats["segments"] = len(r.leaf_readers()) if hasattr(r, "leaf_readers") else 1
    # identify documents through the stored id
    orig = {}
    for dn in range(r.doc_count_all()):
        if r.is_deleted(dn):
            continue
        try:
            orig[dn] = int(r.stored_fields(dn)["id"])
        except Exception as e:  # noqa
            sig = "reader.stored_fields:exception:" + type(e).__name__
            if reject_class(c)[1]:
                sig = SIG_CANCEL_CLOSE
            bad(sig, "stored fields of doc %d" % dn, repr(e)[:200], "stored_fields raised")
            return
    live = sorted(set(range(n)) - deleted) if c["final"] == "optimize" else sorted(
        set(range(n)) - (set(c["deletes"]) if c["final"] != "none" else set()))
    if sorted(orig.values()) != live:
        bad("reader.stored_fields:doc-set", live, sorted(orig.values()), "documents lost or duplicated")
        return
    rows = [parse_sexp(l)[0] for l in speclines[:len(API_COLUMNS)]]
    # stored fields: the model's `storedDict` of every document
    exp_stored = []
    for l in speclines[len(API_COLUMNS):]:
        body, _, flag = l.partition(" ")
        if flag != "(model 1)":
            bad("model:storedDict-vs-specStored", "(model 1)", l[:200], "Lean storedDict and specStored disagree")
            return
        exp_stored.append(body if body != "{}" else atom({}))
    for dn, o in sorted(orig.items()):
        sf = r.stored_fields(dn)
        got = stored_atom(sf)
        if got != exp_stored[o]:
            bad("reader.stored_fields:value", exp_stored[o], got, "stored fields of document id=%d" % o)
            break
    stats["docs"] = len(orig)
    # columns
    for ci, col in enumerate(API_COLUMNS):
        exp = rows[ci]
        try:
            cr = r.column_reader(col)
        except Exception as e:  # noqa
            sig = "reader.column_reader:exception:%s:%s" % (col, type(e).__name__)
            if col == "kp" and isinstance(e, AttributeError) and "_default" in str(e):
                sig = "WrappedColumn.default_value:AttributeError-no-_default-for-segment-without-the-column"
            bad(sig, "column reader", repr(e)[:200], "column_reader raised")
            continue
        for dn, o in sorted(orig.items()):
            e = exp[o]
            try:
                v = cr[dn]
                got = atom(v)
            except Exception as ex:  # noqa
                got = "!" + type(ex).__name__
            if e == atom("__max__"):
                ok = got == atom(_dt.datetime.max) or got.startswith("!")      # see findings: DATETIME default
                e_show = "datetime of the largest sortable number"
                if got.startswith("!"):
                    bad("DATETIME.from_column_value:default-out-of-datetime-range", e_show, got,
                        "column %s, document id=%d without a value" % (col, o))
                    break
                continue
            if e == atom("__raises__"):
                if not got.startswith("!") and got != atom(None):
                    bad("reader.column_reader:value:" + col, "None / error", got, "document id=%d" % o)
                    break
                continue
            if got != e:
                sig = "reader.column_reader:value:" + col
                if reject_class(c)[0]:
                    # recorded finding: the rejected document had already written column data (values of
                    # its own, or the padding rows written by fill() before the value failed to pack)
                    sig = SIG_CANCEL_COLUMNS
                bad(sig, e, got,
                    "column %s of document id=%d (docnum %d, %d segments)" % (col, o, dn, stats["segments"]))
                break
        stats["columns"] = stats.get("columns", 0) + 1


# ------------------------------------------------------------------------------------------------
# segments: MultiColumnReader over segments with and without the column file, then the column copy
# of a merge (`SegmentWriter.write_per_doc`) — against the model's `multiGet` / `mergeColumnAdds`

SEG_KINDS = ["var", "ref", "num", "fixed", "cblock0", "cblock8"]


def seg_field(kind):
    from whoosh import fields, columns
    if kind == "var":
        return fields.ID(sortable=True), u""
    if kind == "ref":
        return fields.ID(sortable=columns.RefBytesColumn()), u""
    if kind == "fixed":
        return fields.ID(sortable=columns.FixedBytesColumn(4)), u"\x00\x00\x00\x00"
    if kind.startswith("cblock"):
        # CompressedBlockColumn with blocks of >= 0 / >= 8 bytes: every segment with values has several blocks
        return fields.ID(sortable=columns.CompressedBlockColumn(blocksize=int(kind[6:]) / 1024.0)), u""
    return fields.NUMERIC(int, bits=16, signed=True, sortable=True, default=-3), -3


def gen_seg_case(rng, tier):
    kind = rng.choice(SEG_KINDS)
    nseg = rng.choice([1, 2, 2, 3, 3, 4])
    segs = []
    for _ in range(nseg):
        n = rng.choice([1, 1, 2, 3, 5])
        mode = rng.choice(["none", "some", "some", "all"])
        if kind == "cblock8":
            # a document without a value *inside* a block raises KeyError (recorded finding, reported by the
            # wrapped stream); with several documents per block every document of a segment has a value or none has
            n = rng.choice([2, 3, 5, 8])
            mode = rng.choice(["none", "all", "all"])
        docs = []
        for _ in range(n):
            has = mode == "all" or (mode == "some" and rng.random() < 0.5)
            if not has:
                docs.append(None)
            elif kind == "num":
                docs.append(rng.choice([0, -3, 7, 32767, -32768, rng.randint(-500, 500)]))
            elif kind == "fixed":
                docs.append(rng.choice(FOURS))
            else:
                docs.append(rng.choice(TEXTS[1:]))
        segs.append(docs)
    total = sum(len(s) for s in segs)
    deletes = sorted(rng.sample(range(total), rng.choice([0, 0, 1, 2, total]) % (total + 1)))
    return {"kind": kind, "segs": segs, "deletes": deletes,
            "storage": rng.choice(["ram", "ram", "file", "file-nommap"])}


def seg_line(c, hascols):
    _, default = seg_field(c["kind"])
    parts, g = [], 0
    dels = set(c["deletes"])
    for docs, hc in zip(c["segs"], hascols):
        adds = [(i, v) for i, v in enumerate(docs) if v is not None]
        live = [i for i in range(len(docs)) if (g + i) not in dels]
        parts.append("(%d %d %s %s)" % (1 if hc else 0, len(docs), adds_sexp(adds, atom), lst(str(i) for i in live)))
        g += len(docs)
    return "c08 segs %s (%s)" % (atom(default), " ".join(parts))


def run_seg_case(c):
    """Worker: index the segments through the public API; returns (hascols, multi rows, merged rows)
    or an error string."""
    import warnings
    warnings.simplefilter("ignore")
    from whoosh import fields
    from whoosh.filedb.filestore import RamStorage, FileStorage
    tmpdir = tempfile.mkdtemp(prefix="wverif-C08-")
    saved_tmp = tempfile.tempdir
    tempfile.tempdir = tmpdir
    try:
        fld, _ = seg_field(c["kind"])
        schema = fields.Schema(id=fields.ID(stored=True, unique=True), k=fld)
        if c["storage"] == "ram":
            st = RamStorage()
        else:
            st = FileStorage(os.path.join(tmpdir, "ix"), supports_mmap=(c["storage"] != "file-nommap")).create()
        ix = st.create_index(schema, indexname="c08s%d_%d" % (os.getpid(), next(_COUNTER)))
        g = 0
        for docs in c["segs"]:
            w = ix.writer()
            for v in docs:
                if v is None:
                    w.add_document(id=u"%d" % g)
                else:
                    w.add_document(id=u"%d" % g, k=v)
                g += 1
            w.commit(merge=False)
        r = ix.reader()
        try:
            leaves = [lr for lr, _ in r.leaf_readers()]
            hascols = [bool(lr.has_column("k")) for lr in leaves]
            counts = [lr.doc_count_all() for lr in leaves]
            cr = r.column_reader("k")
            multi = []
            for d in range(r.doc_count_all()):
                try:
                    multi.append(atom(cr[d]))
                except Exception as e:  # noqa
                    multi.append("!" + type(e).__name__)
            try:
                multi_iter = [atom(v) for v in cr]
            except Exception as e:  # noqa
                multi_iter = ["!" + type(e).__name__]
        finally:
            r.close()
        if counts != [len(s) for s in c["segs"]]:
            return "segment sizes %r" % (counts,)
        w = ix.writer()
        for d in c["deletes"]:
            w.delete_by_term("id", u"%d" % d)
        w.commit(optimize=True)
        r = ix.reader()
        try:
            merged = []
            if r.doc_count_all():
                cr = r.column_reader("k")
                for d in range(r.doc_count_all()):
                    try:
                        merged.append(atom(cr[d]))
                    except Exception as e:  # noqa
                        merged.append("!" + type(e).__name__)
            ids = [r.stored_fields(d)["id"] for d in range(r.doc_count_all())]
        finally:
            r.close()
        return hascols, multi, merged, ids, multi_iter
    except Exception as e:  # noqa
        return "%s: %s" % (type(e).__name__, str(e)[:200])
    finally:
        tempfile.tempdir = saved_tmp
        shutil.rmtree(tmpdir, ignore_errors=True)


# ------------------------------------------------------------------------------------------------
# field level: FieldType.to_column_value -> the field's own column -> TranslatingColumnReader
# (from_column_value), against WM/Model/ColumnsField.lean (`c08 fint|ffloat|fdt|ftext|utf8|utf8dec`)

CPS_POOL = [0, 0x41, 0x7f, 0x80, 0xe9, 0x7ff, 0x800, 0x4e2d, 0xd7ff, 0xe000, 0xfffd, 0xffff, 0x10000, 0x1f600,
            0x10ffff, 0x20, 0x58]
SURROGATES = [0xd800, 0xdbff, 0xdc00, 0xdfff]
DT_POOL = [(0, 0, 0), (3652058, 86399, 999999), (719162, 0, 0), (719161, 86399, 999999), (738944, 43200, 1),
           (1, 0, 0), (0, 0, 1), (3652058, 0, 0)]
F_PATTERNS = [0x0, 0x8000000000000000, 0x3ff8000000000000, 0xc002000000000000, 0x7ff0000000000000,
              0xfff0000000000000, 0x7ff8000000000000, 0xffffffffffffffff, 0x7fffffffffffffff, 0x1,
              0x8000000000000001, 0x7fefffffffffffff, 0xffefffffffffffff, 0x000fffffffffffff, 0x0010000000000000]


def f_of_pattern(b):
    return struct.unpack(">d", struct.pack(">Q", b))[0]


def pattern_of_f(x):
    return struct.unpack(">Q", struct.pack(">d", x))[0]


def gen_cps(rng, malformed=False):
    n = rng.choice([0, 1, 1, 2, 3, 6, 70, 300] if rng.random() < 0.1 else [0, 1, 1, 2, 3, 6])
    cps = [rng.choice(CPS_POOL) if rng.random() < 0.6 else rng.choice(
        [rng.randrange(0x80), rng.randrange(0x80, 0x800), rng.randrange(0x800, 0xd800),
         rng.randrange(0xe000, 0x10000), rng.randrange(0x10000, 0x110000)]) for _ in range(n)]
    if malformed:
        cps.insert(rng.randrange(len(cps) + 1), rng.choice(SURROGATES))
    return cps


def gen_field_case(rng, tier):
    kind = rng.choice(["int"] * 5 + ["float"] * 3 + ["dt"] * 2 + ["text"] * 4 + ["utf8"] * 2 + ["utf8dec"] * 3)
    malformed = rng.random() < 0.08
    c = {"kind": kind, "malformed": malformed, "storage": rng.choice(STORAGES)}
    if kind == "utf8":
        c["cps"] = gen_cps(rng, malformed)
        return c
    if kind == "utf8dec":
        bs = bytearray("".join(chr(x) for x in gen_cps(rng)).encode("utf-8"))
        r = rng.random()
        if r < 0.6 and bs:
            for _ in range(rng.choice([1, 1, 2])):
                k = rng.randrange(len(bs))
                op = rng.choice(["flip", "del", "ins", "trunc"])
                if op == "flip":
                    bs[k] = rng.choice([0x80, 0xbf, 0xc0, 0xc1, 0xc2, 0xe0, 0xed, 0xf0, 0xf4, 0xf5, 0xff, 0xa0, 0x9f, 0x90,
                                        0x8f, rng.randrange(256)])
                elif op == "del":
                    del bs[k]
                elif op == "ins":
                    bs.insert(k, rng.choice([0x80, 0xc0, 0xe0, 0xed, 0xf0, 0xf4, 0xa0, 0x90, rng.randrange(256)]))
                else:
                    del bs[k:]
                if not bs:
                    break
        elif r < 0.75:
            bs = bytearray(rng.choice([b"\xc0\x80", b"\xe0\x80\x80", b"\xed\xa0\x80", b"\xed\x9f\xbf", b"\xf4\x90\x80\x80",
                                       b"\xf4\x8f\xbf\xbf", b"\xf0\x8f\xbf\xbf", b"\xf0\x90\x80\x80", b"\xe0\xa0\x80",
                                       b"\xc2", b"\xe1\x80", b"\xf1\x80\x80", b"\x80", b"\xf8\x88\x80\x80\x80", b"\xc1\xbf",
                                       b"\xee\x80\x80", b"\xef\xbf\xbf"]))
        c["bytes"] = bytes(bs)
        return c
    n = rng.choice([0, 1, 2, 3, 6, 12])
    ds, doccount = gen_docnums(rng, n)
    if kind == "int":
        bits = rng.choice([8, 16, 32, 64]) if not (malformed and rng.random() < 0.3) else rng.choice([0, 12, 24, 128])
        signed = rng.random() < 0.6
        lo, hi = int_range(bits, signed) if bits else (0, 0)
        edge = [e for e in [lo, lo + 1, hi, hi - 1, 0, 1, -1, 127, 128, 255, 256, 2 ** bits - 1] if lo <= e <= hi]
        default = rng.choice([None, None, rng.choice(edge), rng.randint(lo, hi)])
        if malformed and rng.random() < 0.3:
            default = rng.choice([lo - 1, hi + 1, 2 ** bits - 1 if signed else -1])
        vals = [(default if default is not None and rng.random() < 0.2 else
                 rng.choice(edge) if rng.random() < 0.6 else rng.randint(lo, hi)) for _ in range(n)]
        if malformed and vals and rng.random() < 0.6:
            vals[rng.randrange(n)] = rng.choice([lo - 1, hi + 1])
        c.update(bits=bits, signed=signed, default=default, adds=list(zip(ds, vals)), doccount=doccount)
    elif kind == "float":
        signed = rng.random() < 0.75
        default = rng.choice([None, None, None, rng.choice(F_PATTERNS)])
        vals = [rng.choice(F_PATTERNS) if rng.random() < 0.7 else pattern_of_f(rng.uniform(-1e6, 1e6)) for _ in range(n)]
        if default is not None and vals and rng.random() < 0.5:
            vals[rng.randrange(n)] = default
        c.update(signed=signed, default=default, adds=list(zip(ds, vals)), doccount=doccount)
    elif kind == "dt":
        vals = [rng.choice(DT_POOL) if rng.random() < 0.6 else
                (rng.randrange(3652059), rng.randrange(86400), rng.randrange(1000000)) for _ in range(n)]
        c.update(adds=list(zip(ds, vals)), doccount=doccount)
    else:
        vals = [gen_cps(rng) for _ in range(n)]
        if malformed and vals:
            vals[rng.randrange(n)] = gen_cps(rng, True)
        c.update(adds=list(zip(ds, vals)), doccount=doccount, ftype=rng.choice(["ID", "TEXT", "KEYWORD"]))
    return c


def field_model_line(c):
    k = c["kind"]
    if k == "utf8":
        return "c08 utf8 %s" % lst(map(str, c["cps"]))
    if k == "utf8dec":
        return "c08 utf8dec %s" % hexs(c["bytes"])
    if k == "int":
        return "c08 fint %d %d %s %d %s" % (c["bits"], int(c["signed"]), "-" if c["default"] is None else c["default"],
                                            c["doccount"], adds_sexp(c["adds"], str))
    if k == "float":
        d = c["default"]
        if d is None:
            d = 0xffffffffffffffff if c["signed"] else 0x7fffffffffffffff
        return "c08 ffloat %d %d %d %s" % (int(c["signed"]), d, c["doccount"], adds_sexp(c["adds"], str))
    if k == "dt":
        return "c08 fdt %d %s" % (c["doccount"], adds_sexp(c["adds"], lambda t: "(%d %d %d)" % t))
    return "c08 ftext %d %s" % (c["doccount"], adds_sexp(c["adds"], lambda cps: lst(map(str, cps))))


def _field_value(c, v):
    k = c["kind"]
    if k == "int":
        return v
    if k == "float":
        return f_of_pattern(v)
    if k == "dt":
        return _dt.datetime.min + _dt.timedelta(*v)
    return u"".join(chr(x) for x in v)


def _field_show(c, v):
    if isinstance(v, Exception):
        return "!" + exc_name(v)
    k = c["kind"]
    if k == "int":
        return "%d" % v
    if k == "float":
        return "%d" % pattern_of_f(v)
    if k == "dt":
        td = v - _dt.datetime.min
        return "(%d %d %d)" % (td.days, td.seconds, td.microseconds)
    return lst(["%d" % ord(ch) for ch in v])


def field_spec_line(c):
    """Layer S: every row is the supplied value, or the field default (opaque atoms)."""
    k = c["kind"]
    if k == "int":
        lo, hi = int_range(c["bits"], c["signed"])
        dflt = "%d" % (hi if c["default"] is None else c["default"])
        show = str
    elif k == "float":
        d = c["default"]
        if d is None:
            d = 0xffffffffffffffff if c["signed"] else 0x7fffffffffffffff
        dflt, show = "%d" % d, str
    elif k == "dt":
        dflt, show = "!OverflowError", (lambda t: "t%d.%d.%d" % t)
    else:
        dflt, show = "u", (lambda cps: "u" + ".".join(map(str, cps)))
    return "c08 rows %s %d %s" % (dflt, c["doccount"], adds_sexp(c["adds"], show))




def run_field_case(c):
    """-> (model-comparable text, iteration problem or None)"""
    import warnings
    warnings.simplefilter("ignore")
    from whoosh import fields, columns
    from whoosh.util.text import utf8encode, utf8decode
    k = c["kind"]
    if k == "utf8":
        try:
            return "ok " + hexs(utf8encode(u"".join(chr(x) for x in c["cps"]))[0]), None
        except UnicodeEncodeError:
            return "err UnicodeEncodeError", None
    if k == "utf8dec":
        try:
            return "ok " + lst(["%d" % ord(ch) for ch in utf8decode(c["bytes"])[0]]), None
        except UnicodeDecodeError:
            return "err UnicodeDecodeError", None
    try:
        if k == "int":
            field = fields.NUMERIC(int, bits=c["bits"], signed=c["signed"], sortable=True, default=c["default"])
        elif k == "float":
            d = None if c["default"] is None else f_of_pattern(c["default"])
            field = fields.NUMERIC(float, signed=c["signed"], sortable=True, default=d)
        elif k == "dt":
            field = fields.DATETIME(sortable=True)
        else:
            field = getattr(fields, c["ftype"])(sortable=True)
    except Exception:  # noqa  (NUMERIC.__init__ raises a bare Exception / TypeError)
        return "err ConfigError", None
    col = field.column_type
    try:
        cadds = [(d, field.to_column_value(_field_value(c, v))) for d, v in c["adds"]]
    except (ValueError, UnicodeEncodeError) as e:
        return "err " + type(e).__name__, None
    store = Store(c["storage"], b"")
    try:
        err = []

        def w(f):
            try:
                cw = col.writer(f)
                for d, v in cadds:
                    cw.add(d, v)
                cw.finish(c["doccount"])
            except Exception as e:  # noqa
                err.append(exc_name(e))
        store.write(w)
        if err:
            return "err " + err[0], None
        raw = store.raw()
        f, basepos, length = store.open()
        try:
            r = columns.TranslatingColumnReader(col.reader(f, basepos, length, c["doccount"]), field.from_column_value)
            rows = []
            for d in range(c["doccount"]):
                try:
                    rows.append(r[d])
                except Exception as e:  # noqa
                    rows.append(e)
            problem = None
            if not any(isinstance(v, Exception) for v in rows):
                try:
                    it = list(r)
                    if [_field_show(c, v) for v in it] != [_field_show(c, v) for v in rows]:
                        problem = "iter %r" % ([_field_show(c, v) for v in it][:8],)
                except Exception as e:  # noqa
                    problem = "iter raised " + type(e).__name__
                if problem is None and len(r) != c["doccount"]:
                    problem = "len %d" % len(r)
                if problem is None:
                    problem = _sort_key_problem(r, rows)
            return "ok %s %s" % (hexs(raw), lst([_field_show(c, v) for v in rows])), problem
        finally:
            try:
                f.close()
            except Exception:  # noqa
                pass
    finally:
        store.close()


def _sort_key_problem(r, rows):
    """`sort_key` must order documents like their values: x < y  =>  key(x) < key(y), and the other way
    round after set_reverse() (readers that cannot reverse raise NotImplementedError: skipped)."""
    n = len(rows)
    comparable = [d for d in range(n) if rows[d] == rows[d]]          # drops NaN
    for rev in (False, True):
        try:
            if rev:
                r.set_reverse()
            keys = [r.sort_key(d) for d in range(n)]
        except NotImplementedError:
            return None
        except Exception as e:  # noqa
            return "sortkey raised %s (reverse=%s)" % (type(e).__name__, rev)
        for a in comparable:
            for b in comparable:
                if rows[a] < rows[b] and not (keys[a] > keys[b] if rev else keys[a] < keys[b]):
                    return "sortkey reverse=%s docs %d,%d values %r < %r keys %r, %r" % (
                        rev, a, b, rows[a], rows[b], keys[a], keys[b])
    return None


def field_rows_as_spec(c, rowtext):
    """Re-express the rows of a model/real reply `(row*)` in the atoms of `field_spec_line`."""
    from vcheck import parse_sexp
    rows = parse_sexp(rowtext)[0]
    out = []
    for r in rows:
        if isinstance(r, str):
            out.append(r)
        elif c["kind"] == "dt":
            out.append("t%s.%s.%s" % tuple(r))
        else:
            out.append("u" + ".".join(r))
    return lst(out)
