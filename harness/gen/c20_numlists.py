"""C20 / number lists: delta coding, GrowableArray retyping, fixed-width / varint / Simple16 / GInts
number encodings.  Model <-> implementation on bytes, typecodes and errors; end-to-end round trips
through real StructFiles (RAM storage)."""
from vcheck import sexp, parse_sexp

EDGES = [0, 1, 127, 128, 253, 254, 255, 256, 65535, 65536, 2 ** 24 - 1, 2 ** 24, 2 ** 28 - 1, 2 ** 28,
         2 ** 31 - 1, 2 ** 31, 2 ** 32 - 1, 2 ** 32, 2 ** 63 - 1, 2 ** 63, 2 ** 64 - 1]


def fl(xs):
    def one(x):
        try:
            return str(int(x))
        except Exception:  # noqa  (e.g. the 1-tuples a defective read_nums yields)
            return repr(x).replace(" ", "")
    return "(" + " ".join(one(x) for x in xs) + ")"


def pick_nat(rng, hi_bits=34):
    r = rng.random()
    if r < 0.35:
        return max(0, rng.choice(EDGES[:17]) + rng.choice((-1, 0, 0, 1)))
    if r < 0.7:
        return rng.randrange(300)
    return rng.getrandbits(rng.randint(1, hi_bits))


def _ramfile(data=None):
    from whoosh.filedb.filestore import RamStorage
    st = RamStorage()
    f = st.create_file("x")
    if data is not None:
        f.write(data)
        f.close()
        return st, st.open_file("x")
    return st, f


# ------------------------------------------------------------------------------------------------

def _delta(ctx):
    from whoosh.util.numlists import delta_encode, delta_decode
    rng = ctx.rng("delta")
    cases = [[], [0], [5], [3, 10, 10, 4]]
    for _ in range(ctx.budget(4000, 60000)):
        n = rng.choice((0, 1, 2, 3, 8, 30))
        kind = rng.random()
        if kind < 0.5:      # ascending doc numbers, the way the codec uses it
            xs, cur = [], 0
            for _ in range(n):
                cur += rng.choice((0, 1, 1, 2, 127, 128, 255, 256, 65536, rng.getrandbits(rng.randint(1, 40))))
                xs.append(cur)
        elif kind < 0.85:
            xs = [pick_nat(rng, 66) for _ in range(n)]
        else:
            xs = [rng.randint(-2 ** 65, 2 ** 65) for _ in range(n)]
        cases.append(xs)
    encs = ctx.driver.ask(["c20 num delta-enc %s" % fl(xs) for xs in cases])
    decs = ctx.driver.ask(["c20 num delta-dec %s" % fl(xs) for xs in cases])
    for xs, me, md in zip(cases, encs, decs):
        e = list(delta_encode(xs))
        d = list(delta_decode(xs))
        ctx.case(("delta", tuple(xs)), nontrivial=len(xs) >= 2 and any(a > b for a, b in zip(xs, xs[1:])) or len(set(xs)) > 2)
        ctx.stat("delta:len=%d" % min(len(xs), 9))
        if fl(e) != me:
            ctx.divergence("numlists.delta_encode", xs, me, fl(e))
        if fl(d) != md:
            ctx.divergence("numlists.delta_decode", xs, md, fl(d))
        back = list(delta_decode(delta_encode(xs)))
        if back != xs:
            ctx.violation("delta_decode(delta_encode(x))!=x", xs, xs, back, "delta round trip")
        back = list(delta_encode(delta_decode(xs)))
        if back != xs:
            ctx.violation("delta_encode(delta_decode(x))!=x", xs, xs, back, "delta round trip (inverse order)")
    ctx.sample({"delta": cases[3], "encoded": encs[3]})


def _read_items(tc, data, n):
    """what OrderedHashReader does with the array: one big-endian item at a time"""
    from whoosh.filedb.structfile import StructFile
    from io import BytesIO
    import struct
    f = StructFile(BytesIO(data))
    get = {"B": f.get_byte, "H": f.get_ushort, "i": f.get_int, "I": f.get_uint, "q": f.get_long,
           "b": f.get_sbyte, "Q": f.get_ulong}.get(tc)
    size = struct.calcsize(tc)
    out = []
    for k in range(n):
        if get is None:
            out.append(struct.unpack("!" + tc, data[k * size:(k + 1) * size])[0])
        else:
            out.append(get(k * size))
    return out


def _growable(ctx):
    from whoosh.util.numlists import GrowableArray
    rng = ctx.rng("growable")
    cases = []
    for _ in range(ctx.budget(3000, 40000)):
        tc = rng.choice("BBHHHiIqbh")
        al = rng.random() < 0.7
        n = rng.choice((0, 1, 3, 6, 12))
        style = rng.random()
        xs = []
        cur = 0
        for _ in range(n):
            if style < 0.4:   # ascending file positions
                cur += rng.choice((1, 20, 200, 40000, 2 ** 20, 2 ** 30, 2 ** 31, 2 ** 33))
                xs.append(cur)
            elif style < 0.9:
                xs.append(pick_nat(rng, 66))
            else:
                xs.append(rng.choice((-1, -129, -2 ** 31, -2 ** 31 - 1, 5, 70000, 2 ** 40)))
        cases.append((tc, al, xs))
    outs = ctx.driver.ask(["c20 num ga %s %d %s" % (tc, int(al), fl(xs)) for tc, al, xs in cases])
    for (tc, al, xs), mo in zip(cases, outs):
        ga = GrowableArray(tc, allow_longs=al)
        obs, kept = [], []
        retyped = False
        for x in xs:
            before = ga.typecode
            try:
                ga.append(x)
                kept.append(x)
                obs.append(ga.typecode)
            except OverflowError:
                obs.append(ga.typecode + "!")
            if ga.typecode != before:
                retyped = True
                ctx.stat("growable-retype:%s->%s" % (before, ga.typecode))
        st, f = _ramfile()
        ga.to_file(f)
        f.close()
        data = st.open_file("x").read()
        readback = _read_items(ga.typecode, data, len(ga))
        impl = "(%s) %s %s %s" % (" ".join(obs), fl(list(ga)), sexp(data), fl(readback)[:-1] + (" " if readback else "") + "none)")
        ctx.case(("ga", tc, al, tuple(xs)), nontrivial=retyped)
        if impl != mo:
            ctx.divergence("numlists.GrowableArray", (tc, al, xs), mo, impl)
        # end-to-end: contents preserved, typecode fits, bytes read back
        if list(ga) != kept:
            ctx.violation("GrowableArray:contents-changed", (tc, al, xs), kept, list(ga),
                          "the array does not hold the successfully appended numbers")
        if readback != kept:
            ctx.violation("GrowableArray.to_file:readback", (tc, al, xs), kept, readback,
                          "items read back from to_file() bytes differ")
        if all(0 <= x < 2 ** 63 for x in xs) and tc in "BHiIq" and al and any(o.endswith("!") for o in obs):
            ctx.violation("GrowableArray.append:OverflowError-for-nat<2^63", (tc, al, xs), "no error", obs,
                          "append of a natural below 2^63 failed")
    ctx.sample({"growable": cases[5], "model": outs[5]})


def _encodings(ctx):
    from whoosh.util import numlists
    rng = ctx.rng("encodings")
    n = ctx.budget(4000, 50000)
    fixed = {"ByteEncoding": 1, "UShortEncoding": 2, "UIntEncoding": 4}
    packed = {"GInts": "gints", "Simple16": "s16"}
    codec = {"ByteEncoding": "fixed1", "UShortEncoding": "fixed2", "UIntEncoding": "fixed4", "Varints": "varints",
             "GInts": "gints", "Simple16": "s16"}
    reqs, metas = [], []
    for _ in range(n):
        name = rng.choice(["ByteEncoding", "UShortEncoding", "UIntEncoding", "Varints", "Varints", "Simple16", "GInts"])
        k = rng.choice((0, 1, 2, 3, 4, 5, 9, 28, 40))
        if name in fixed:
            lim = 256 ** fixed[name]
            xs = [min(pick_nat(rng), lim - 1) if rng.random() < 0.93 else pick_nat(rng, 40) for _ in range(k)]
        elif name == "Simple16":
            xs = [rng.choice((0, 1, 1, 2, 3, 7, 15, 100, 2 ** 14 - 1, 2 ** 14, 2 ** 28 - 1, rng.getrandbits(rng.randint(1, 28))))
                  for _ in range(k)]
            if rng.random() < 0.05 and xs:
                xs[rng.randrange(len(xs))] = 2 ** 28
        elif name == "GInts":
            xs = [min(pick_nat(rng), 2 ** 32 - 1) for _ in range(k)]
            if rng.random() < 0.05 and xs:
                xs[rng.randrange(len(xs))] = 2 ** 32 + rng.choice((0, 1, 2 ** 20))
        else:
            xs = [pick_nat(rng, 70) for _ in range(k)]
        if rng.random() < 0.3:
            xs.sort()       # ascending lists of every length: the delta variants below
        tail = b"\x09\xff" if rng.random() < 0.5 else b""
        enc = getattr(numlists, name)()
        st, f = _ramfile()
        werr = None
        try:
            enc.write_nums(f, xs)
        except Exception as e:  # noqa
            werr = type(e).__name__
        f.write(tail)
        f.close()
        data = st.open_file("x").read()
        inrange = all(x <= enc.maxint for x in xs) if enc.maxint is not None else True
        ctx.stat("encoding:%s" % name)
        ctx.case(("enc", name, tuple(xs), tail), nontrivial=len(xs) >= 2 and len(set(xs)) >= 2)
        if werr is not None:
            ctx.stat("encoding-write-error:%s:%s" % (name, werr))
            if inrange:
                ctx.violation("%s.write_nums:raises-%s" % (name, werr), xs, "written", werr,
                              "numbers within maxint rejected")
            elif name in fixed:
                reqs.append("c20 num fixed-write %d %s" % (fixed[name], fl(xs)))
                metas.append(("werr", name, xs, None, None))
            elif name in packed:
                reqs.append("c20 num %s-write %s" % (packed[name], fl(xs)))
                metas.append(("werr", name, xs, None, None))
            continue
        if not inrange:
            ctx.violation("%s.write_nums:accepts>maxint" % name, xs, "error", data.hex(), "numbers above maxint accepted")
            continue
        # end-to-end round trip on the real file
        f = st.open_file("x")
        try:
            back = list(enc.read_nums(f, len(xs)))
            rest = f.read()
        except Exception as e:  # noqa
            back, rest = "raises-" + type(e).__name__, b""
        if back != xs or rest != tail:
            sig = ("%s.read_nums:%s" % (name, back)) if isinstance(back, str) else "%s.read_nums(write_nums(x))!=x" % name
            ctx.violation(sig, xs, [xs, tail.hex()], [back, rest.hex()], "number list round trip")
        # delta variants
        if xs == sorted(xs):
            st2, f2 = _ramfile()
            data2 = None
            try:
                enc.write_deltas(f2, xs)
                f2.write(tail)
                f2.close()
                data2 = st2.open_file("x").read()
                f2 = st2.open_file("x")
                back2 = list(enc.read_deltas(f2, len(xs)))
                rest2 = f2.read()
            except Exception as e:  # noqa
                back2, rest2 = "raises-" + type(e).__name__, b""
            ctx.stat("encoding-deltas:%s:len=%d" % (name, min(len(xs), 5)))
            if back2 != xs or rest2 != tail:
                ctx.violation("%s.read_deltas(write_deltas(x))!=x" % name, xs, [xs, tail.hex()], [back2, rest2.hex()],
                              "delta number list round trip")
            elif data2 is not None:
                reqs.append("c20 num deltas-write %s %s" % (codec[name], fl(xs)))
                metas.append(("write_deltas", name, xs, None, sexp(data2[:len(data2) - len(tail)])))
                reqs.append("c20 num deltas-read %s %d %s" % (codec[name], len(xs), sexp(data2)))
                metas.append(("read_deltas", name, xs, None, "%s %s" % (fl(back2), sexp(rest2))))
        # random access
        if xs:
            i = rng.randrange(len(xs))
            f = st.open_file("x")
            try:
                got = enc.get(f, 0, i)
            except Exception as e:  # noqa
                got = "raises-" + type(e).__name__
            if got != xs[i]:
                sig = ("%s.get:%s" % (name, got)) if isinstance(got, str) else "%s.get(i)!=x[i]" % name
                ctx.violation(sig, [xs, i], xs[i], got, "NumberEncoding.get")
            if name in fixed:
                reqs.append("c20 num fixed-get %d %s 0 %d" % (fixed[name], sexp(data), i))
                metas.append(("get", name, xs, i, str(got)))
        # correspondence on bytes
        if name in fixed:
            reqs.append("c20 num fixed-write %d %s" % (fixed[name], fl(xs)))
            metas.append(("write", name, xs, None, sexp(data[:len(data) - len(tail)])))
            reqs.append("c20 num fixed-read %d %d %s" % (fixed[name], len(xs), sexp(data)))
            metas.append(("read", name, xs, None, "%s %s" % (fl(back) if not isinstance(back, str) else back, sexp(rest))))
        elif name in packed:
            reqs.append("c20 num %s-write %s" % (packed[name], fl(xs)))
            metas.append(("write", name, xs, None, sexp(data[:len(data) - len(tail)])))
            reqs.append("c20 num %s-read %d %s" % (packed[name], len(xs), sexp(data)))
            metas.append(("read", name, xs, None, "%s %s" % (fl(back) if not isinstance(back, str) else back, sexp(rest))))
        elif name == "Varints":
            reqs.append("c20 num varints-write %s" % fl(xs))
            metas.append(("write", name, xs, None, sexp(data[:len(data) - len(tail)])))
            reqs.append("c20 num varints-read %d %s" % (len(xs), sexp(data)))
            metas.append(("read", name, xs, None, "%s %s" % (fl(back) if not isinstance(back, str) else back, sexp(rest))))
    outs = ctx.driver.ask(reqs)
    for (what, name, xs, i, impl), mo in zip(metas, outs):
        if what == "werr":
            if mo != "err":
                ctx.divergence("numlists.%s.write_nums" % name, xs, mo, "err")
        elif mo != impl:
            ctx.divergence("numlists.%s.%s" % (name, what), [xs, i], mo, impl)
    # truncated files: the model says `err`, the implementation must not return numbers
    rng2 = ctx.rng("enc-malformed")
    for _ in range(ctx.budget(100, 2000)):
        size = rng2.choice((1, 2, 4))
        k = rng2.randrange(1, 5)
        data = bytes(rng2.randrange(256) for _ in range(size * k - rng2.randrange(1, size + 1)))
        enc = {1: numlists.ByteEncoding, 2: numlists.UShortEncoding, 4: numlists.UIntEncoding}[size]()
        st, f = _ramfile(data)
        try:
            got = list(enc.read_nums(f, k))
        except Exception as e:  # noqa
            got = "err"
        ctx.stat("encoding-malformed:%s" % ("err" if got == "err" else "value"))
        mo = ctx.driver.ask1("c20 num fixed-read %d %d %s" % (size, k, sexp(data)))
        if (mo == "err") != (got == "err"):
            ctx.divergence("numlists.FixedEncoding.read_nums(truncated)", data.hex(), mo, got)


def _packed(ctx):
    """Direct streams for the packed codecs: Simple16._compress/_decompress one word at a time (any
    offset into the input array, any 32-bit word), and GInts/Simple16.read_nums on arbitrary and on
    truncated files (model `err` <=> the implementation raises; otherwise the same numbers and rest)."""
    from whoosh.util import numlists
    rng = ctx.rng("packed")
    s16 = numlists.Simple16()
    widths = sorted(set(w for ws in s16._bits for w in ws))
    reqs, metas = [], []
    for _ in range(ctx.budget(1500, 20000)):
        k = rng.choice((1, 1, 2, 3, 4, 5, 6, 7, 8, 9, 13, 14, 15, 20, 21, 22, 27, 28, 29, 40))
        w = rng.choice(widths)
        xs = []
        for _ in range(k):
            r = rng.random()
            if r < 0.7:      # a run that fits width w, so the layout choice depends on the few outliers
                xs.append(rng.getrandbits(w) if rng.random() < 0.6 else (1 << w) - 1)
            elif r < 0.95:
                w2 = rng.choice(widths)
                xs.append(rng.choice(((1 << w2) - 1, 1 << w2 if w2 < 28 else 0, rng.getrandbits(w2))))
            else:
                xs.append(rng.choice((2 ** 28 - 1, 2 ** 28, 2 ** 28 + 1, 2 ** 31, 2 ** 32)))
        pre = [rng.getrandbits(30) for _ in range(rng.choice((0, 0, 1, 3)))]
        try:
            value, taken = s16._compress(pre + xs, len(pre), len(xs))
            impl = "%d %d" % (value, taken)
        except Exception:  # noqa
            impl = "err"
        ctx.case(("s16-compress", tuple(xs)), nontrivial=impl != "err" and len(xs) >= 2 and len(set(xs)) >= 2)
        ctx.stat("s16-compress:key=%s" % (impl if impl == "err" else int(impl.split()[0]) >> 28))
        reqs.append("c20 num s16-compress %s" % fl(xs))
        metas.append(("Simple16._compress", xs, impl))
        if impl != "err":
            # end to end on the single word: the numbers taken come back
            back = list(s16._decompress(value, len(xs)))
            if back != xs[:taken]:
                ctx.violation("Simple16._decompress(_compress(x))!=x", xs, xs[:taken], back, "one Simple16 word")
    for _ in range(ctx.budget(600, 8000)):
        value = (rng.randrange(16) << 28) | rng.getrandbits(28)
        n = rng.choice((1, 2, 3, 5, 9, 14, 21, 28, 30))
        impl = fl(list(s16._decompress(value, n)))
        ctx.case(("s16-decompress", value, n), nontrivial=True)
        reqs.append("c20 num s16-decompress %d %d" % (value, n))
        metas.append(("Simple16._decompress", [value, n], impl))
    # arbitrary / truncated files through read_nums
    for _ in range(ctx.budget(600, 8000)):
        name = rng.choice(("GInts", "Simple16"))
        enc = getattr(numlists, name)()
        n = rng.choice((0, 1, 2, 3, 4, 5, 8, 9))
        style = rng.random()
        if style < 0.5:
            xs = [min(pick_nat(rng), enc.maxint) for _ in range(n)]
            st, f = _ramfile()
            enc.write_nums(f, xs)
            f.close()
            data = st.open_file("x").read()
            data = data[:max(0, len(data) - rng.choice((1, 1, 2, 3)))]     # cut inside the last group
        else:
            data = bytes(rng.choice((0, 1, 3, 0x55, 0xaa, 0xe4, 0xff, rng.randrange(256)))
                         for _ in range(rng.choice((0, 1, 2, 4, 5, 8, 11, 17, 40))))
        st, f = _ramfile(data)
        try:
            got = list(enc.read_nums(f, n))
            impl = "%s %s" % (fl(got), sexp(f.read()))
        except Exception:  # noqa
            impl = "err"
        ctx.case(("packed-read", name, data, n), nontrivial=impl != "err" and n >= 2)
        ctx.stat("packed-read:%s:%s" % (name, "err" if impl == "err" else "value"))
        reqs.append("c20 num %s-read %d %s" % ({"GInts": "gints", "Simple16": "s16"}[name], n, sexp(data)))
        metas.append(("%s.read_nums(arbitrary file)" % name, [data.hex(), n], impl))
    # Simple16.get at every index (word boundaries included), the list written after a few foreign bytes
    for _ in range(ctx.budget(150, 2000)):
        k = rng.choice((1, 2, 5, 14, 15, 28, 29, 30, 45, 60))
        w = rng.choice(widths)
        xs = [rng.getrandbits(w) if rng.random() < 0.85 else rng.getrandbits(rng.choice(widths)) for _ in range(k)]
        pre = bytes(rng.randrange(256) for _ in range(rng.choice((0, 0, 1, 4, 7))))
        st, f = _ramfile()
        f.write(pre)
        s16.write_nums(f, xs)
        f.close()
        data = st.open_file("x").read()
        ctx.case(("s16-get", tuple(xs), len(pre)), nontrivial=len(data) - len(pre) > 4)
        for i in range(len(xs)):
            f = st.open_file("x")
            try:
                got = s16.get(f, len(pre), i)
            except Exception as e:  # noqa
                got = "raises-" + type(e).__name__
            if got != xs[i]:
                sig = ("Simple16.get:%s" % got) if isinstance(got, str) else "Simple16.get(i)!=x[i]"
                ctx.violation(sig, [xs, len(pre), i], xs[i], got, "NumberEncoding.get")
            if not isinstance(got, str):    # a raising get is reported above; nothing to compare the model with
                reqs.append("c20 num s16-get %s %d %d" % (sexp(data), len(pre), i))
                metas.append(("Simple16.get", [xs, len(pre), i], str(got)))
                ctx.stat("s16-get:%s" % ("first-word" if i < s16._num[data[len(pre) + 3] >> 4] else "later-word"))
    outs = ctx.driver.ask(reqs)
    for (comp, case, impl), mo in zip(metas, outs):
        if mo != impl:
            ctx.divergence("numlists." + comp, case, mo, impl)
    ctx.sample({"s16-compress": metas[0][1], "model": outs[0]})


def run(ctx):
    _delta(ctx)
    _growable(ctx)
    _encodings(ctx)
    _packed(ctx)
