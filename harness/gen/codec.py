"""Helpers of the codec family (C10): generators of posting lists and cursor programs, and the
real-code runners whose canonical output is diffed against the Lean driver (`c10 write|run|spec`)."""
import io
import itertools
import os
import pickle
import struct
import zlib
from fractions import Fraction


_COUNTER = itertools.count()

# ------------------------------------------------------------------------------------------------
# canonical text (must agree with WM/Drv/C10.lean)

def rat(x):
    """Number -> `n/d` in lowest terms (`n` when d == 1), exactly like `showRat`."""
    if isinstance(x, float):
        if x != x or x in (float("inf"), float("-inf")):
            return "nan" if x != x else ("inf" if x > 0 else "-inf")
        fr = Fraction(*x.as_integer_ratio())
    else:
        fr = Fraction(x)
    return "%d" % fr.numerator if fr.denominator == 1 else "%d/%d" % (fr.numerator, fr.denominator)


def hexs(b):
    return b.hex() if b else "-"


def show_id(kind, i):
    return "%d" % i if kind == "doc" else hexs(i.encode("utf-8"))


def opt(f, x):
    return "none" if x is None else f(x)


def lst(items):
    return "(" + " ".join(items) + ")"


def posting_sexp(kind, p):
    i, w, v, l = p
    return "(%s %s %s %s)" % (show_id(kind, i), rat(w), hexs(v), opt(str, l))


def exc_name(e):
    n = type(e).__name__
    if n in ("IndexError", "error", "EOFError", "UnpicklingError"):
        return "IndexError"
    if n == "Exception" and "No next block" in str(e):
        return "NoNextBlock"
    if n == "Exception" and "Block tag error" in str(e):
        return "BlockTag"
    return n


# ------------------------------------------------------------------------------------------------
# real code: writer

def make_format(fixedsize):
    from whoosh import formats

    class F(formats.Format):
        posting_size = -1 if fixedsize is None else fixedsize
    return F()


PAD = b"\x00pad\x01"      # the posting list does not start at offset 0


def real_write(kind, bl, comp, inl, fixedsize, postings):
    """Run the real W3PostingsWriter; returns (error-name | None, storage, terminfo)."""
    from whoosh.codec.whoosh3 import W3PostingsWriter, W3TermInfo
    from whoosh.filedb.filestore import RamStorage
    st = RamStorage()
    f = st.create_file("p")
    f.write(PAD)
    pw = W3PostingsWriter(f, blocklimit=bl, byteids=(kind == "term"), compression=comp, inlinelimit=inl)
    try:
        pw.start_postings(make_format(fixedsize), W3TermInfo())
        for (i, w, v, l) in postings:
            pw.add_posting(i, w, v, l)
        ti = pw.finish_postings()
    except Exception as e:  # noqa
        f.close()
        return exc_name(e), st, None
    f.close()
    return None, st, ti


def parse_blocks(data, offset, length):
    """Decode the on-disk block list the way the format is documented (independent of the reader)."""
    if length == 0:
        return []
    assert data[offset:offset + 4] == b"W3Bl", data[offset:offset + 4]
    pos = offset + 4
    end = offset + length
    blocks = []
    while pos < end:
        (blen,) = struct.unpack("!i", data[pos:pos + 4])
        last = blen < 0
        blen = abs(blen)
        bio = io.BytesIO(data[pos + 4:pos + 4 + blen])
        info = pickle.load(bio)
        rest = bio.read()
        comp = info[3]
        if comp:
            rest = zlib.decompress(rest)
        ids, weights, values = pickle.loads(rest)
        blocks.append((last, info, ids, weights, values))
        pos += 4 + blen
    assert pos == end, (pos, end)
    return blocks


def block_sexp(kind, blk):
    last, info, ids, weights, values = blk
    count, lastid, maxw, comp, mn, mx = info
    if weights is None:
        mw = "ones"
    elif isinstance(weights, float):
        mw = "(const %s)" % rat(weights)
    else:
        mw = "(each " + " ".join(rat(w) for w in weights) + ")"
    if values is None:
        mv = "none"
    elif isinstance(values, bytes):
        mv = "(joined %s)" % hexs(values)
    else:
        mv = "(tuple " + " ".join(hexs(v) for v in values) + ")"
    mids = lst([("%d" % i) if kind == "doc" else hexs(i.encode("utf-8")) for i in ids])
    return "(%d %d %s %s %d %d %d %s %s %s)" % (int(last), count, show_id(kind, lastid), rat(maxw), comp,
                                               mn, mx, mids, mw, mv)


def ti_sexp(kind, ti, nblocks):
    if ti.is_inlined():
        ids, ws, vs = ti.inlined_postings()
        inl = "(%s %s %s)" % (lst([show_id(kind, i) for i in ids]), lst([rat(w) for w in ws]),
                              lst([hexs(v) for v in vs]))
        ext = "none"
    else:
        inl = "none"
        ext = "%d" % nblocks
    return "(ti %s %d %s %d %s %s %s %s %s)" % (
        rat(ti._weight), ti._df, opt(str, ti._minlength), ti._maxlength, rat(ti._maxweight),
        opt(lambda i: show_id(kind, i), ti._minid),
        # TermInfo starts `_maxid` at 0 (not None); it is overwritten by the first add_block
        opt(lambda i: show_id(kind, i), ti._maxid if ti._df else None), ext, inl)


def real_write_sexp(kind, bl, comp, inl, fixedsize, postings):
    err, st, ti = real_write(kind, bl, comp, inl, fixedsize, postings)
    if err:
        return "err " + err
    data = st.open_file("p").read()
    if ti.is_inlined():
        blocks = []
        assert len(data) == len(PAD)
    else:
        off, length = ti.extent()
        assert off == len(PAD) and off + length == len(data), (off, length, len(data))
        blocks = parse_blocks(data, off, length)
    return "ok (blocks %s) %s" % (" ".join(block_sexp(kind, b) for b in blocks), ti_sexp(kind, ti, len(blocks)))


def real_tib(kind, bl, comp, inl, fixedsize, postings):
    """The term info as a reader gets it: W3TermInfo.from_bytes(ti.to_bytes())."""
    from whoosh.codec.whoosh3 import W3TermInfo
    err, st, ti = real_write(kind, bl, comp, inl, fixedsize, postings)
    if err:
        return "err " + err
    if ti.is_inlined():
        nblocks = 0
    else:
        data = st.open_file("p").read()
        off, length = ti.extent()
        nblocks = len(parse_blocks(data, off, length))
    try:
        ti2 = W3TermInfo.from_bytes(ti.to_bytes())
    except Exception as e:  # noqa
        return "err " + exc_name(e)
    if ti2._df == 0:
        ti2._df = 0
    return ti_sexp(kind, ti2, nblocks)


# ------------------------------------------------------------------------------------------------
# real code: reader programs

class MaxWeightScorer(object):
    """block_quality = block_max_weight (what the driver uses for `skipq`)."""

    def supports_block_quality(self):
        return True

    def block_quality(self, m):
        return m.block_max_weight()

    def max_quality(self):
        return 1e30

    def score(self, m):
        return m.weight()


def op_sexp(kind, op):
    if isinstance(op, tuple):
        if op[0] == "skip":
            return "(skip %s)" % show_id(kind, op[1])
        return "(skipq %s)" % rat(op[1])
    return op


def real_run(kind, bl, comp, inl, fixedsize, postings, ops):
    from whoosh.codec.whoosh3 import W3LeafMatcher
    from whoosh.matching import ListMatcher
    err, st, ti = real_write(kind, bl, comp, inl, fixedsize, postings)
    if err:
        return "err " + err
    fmt = make_format(fixedsize)
    if ti.is_inlined():
        ids, ws, vs = ti.inlined_postings()
        m = ListMatcher(ids, ws, vs, fmt, terminfo=ti)
        vals = []
        while m.is_active():
            try:
                v = m.value()
                vals.append(hexs(v if isinstance(v, bytes) else v.encode("latin1")))
            except Exception as e:  # noqa
                vals.append("!" + exc_name(e))
            m.next()
        return "inlined %s %s %s" % (lst([show_id(kind, i) for i in ids]), lst([rat(w) for w in ws]), lst(vals))
    f = st.open_file("p")
    off, length = ti.extent()
    try:
        m = W3LeafMatcher(f, off, length, fmt, byteids=(kind == "term"), scorer=MaxWeightScorer())
    except Exception as e:  # noqa
        return "open-err " + exc_name(e)
    out = []
    for op in ops:
        try:
            if op == "next":
                out.append("1" if m.next() else "0")
            elif op == "id":
                out.append(show_id(kind, m.id()))
            elif op == "weight":
                out.append(rat(m.weight()))
            elif op == "value":
                out.append(opt(hexs, m.value()))
            elif op == "active":
                out.append("1" if m.is_active() else "0")
            elif op == "maxid":
                out.append(show_id(kind, m.block_max_id()))
            elif op == "info":
                from whoosh.util.numeric import length_to_byte
                out.append("(%d %s %d %d)" % (m._blocklength, rat(m.block_max_weight()),
                                              length_to_byte(m.block_min_length()),
                                              length_to_byte(m.block_max_length())))
            elif op == "copynext":
                try:
                    c = m.copy()
                except NotImplementedError:
                    out.append("!copy-NotImplementedError")
                    continue
                try:
                    c.next()
                except Exception:  # noqa
                    pass

                def sid(x):
                    try:
                        return show_id(kind, x.id())
                    except Exception as e:  # noqa
                        return "!" + exc_name(e)
                out.append("(%s %s %s)" % (sid(m), sid(c), "1" if c.is_active() else "0"))
            elif op[0] == "skip":
                m.skip_to(op[1])
                out.append("ok")
            elif op[0] == "skipq":
                out.append("%d" % m.skip_to_quality(op[1]))
        except Exception as e:  # noqa
            out.append("!" + exc_name(e))
    return lst(out)


def real_reset_readout(kind, bl, comp, inl, fixedsize, postings, ops):
    """Run the cursor program, then reset(): the cursor must read the whole list again, exactly as a
    freshly opened one does (C10: the posting list read back is the list written, whatever was read
    before; C11: reset() returns to the start).  Returns (fresh, after_reset) readouts or None."""
    from whoosh.codec.whoosh3 import W3LeafMatcher
    err, st, ti = real_write(kind, bl, comp, inl, fixedsize, postings)
    if err or ti.is_inlined():
        return None
    fmt = make_format(fixedsize)
    off, length = ti.extent()

    def openm():
        return W3LeafMatcher(st.open_file("p"), off, length, fmt, byteids=(kind == "term"),
                             scorer=MaxWeightScorer())

    def readall(m):
        out = []
        guard = 0
        while m.is_active() and guard < 100000:
            out.append((show_id(kind, m.id()), rat(m.weight()), opt(hexs, m.value())))
            m.next()
            guard += 1
        return out
    fresh = readall(openm())
    m = openm()
    for op in ops:
        try:
            if op == "next":
                m.next()
            elif isinstance(op, tuple) and op[0] == "skip":
                m.skip_to(op[1])
            elif isinstance(op, tuple) and op[0] == "skipq":
                m.skip_to_quality(op[1])
        except Exception:  # noqa  (running past the end is part of the programs)
            pass
    try:
        m.reset()
        again = readall(m)
    except Exception as e:  # noqa
        again = "!" + exc_name(e)
    return fresh, again


# ------------------------------------------------------------------------------------------------
# generators

WEIGHTS = [0.5, 1.0, 1.5, 2.0, 2.5, 3.0, 0.25, 4.0, 7.0, 0.125]
TERMS = [u"a", u"ab", u"b", u"ba", u"\xe9", u"中文", u"\U0001f600", u"z" * 40, u"A", u"aa", u"\xe9a",
         u"b̀", u"￿", u"\U00010000", u"c", u"d", u"e", u"f", u"g", u"h", u"i", u"j", u"k", u"l"]


def gen_postings(rng, kind, bl, fixedsize, malformed=False):
    """One posting list biased to block multiples.  Returns (postings, tags)."""
    tags = []
    mult = rng.choice([0, 1, 1, 2, 2, 3, 5])
    n = max(0, mult * bl + rng.choice([-1, 0, 0, 1, 1, 2]))
    if rng.random() < 0.15:
        n = rng.randint(1, 3 * bl + 3)
    if n == 0 and not malformed:
        n = 1
    n = min(n, 700)
    # ids
    if kind == "doc":
        incs = [rng.choice([1, 1, 1, 2, 3, 10, 200, 70000]) for _ in range(max(0, n - 1))]
        if rng.random() < 0.08 and incs:
            incs[rng.randrange(len(incs))] = 0       # a repeated id (multi-valued field)
            tags.append("repeat-id")
        top = 2 ** 32 - 2 - sum(incs)      # 0xffffffff is W3TermInfo's NO_ID sentinel
        cur = rng.choice([0, 0, 1, 5, min(top, 2 ** 16 - 2), min(top, 2 ** 31 - 3), top])
        ids = []
        for k in range(n):
            ids.append(cur)
            if k < len(incs):
                cur += incs[k]
        if malformed and ids and rng.random() < 0.5:
            k = rng.randrange(len(ids))
            ids[k] = rng.choice([-1, 2 ** 32, ids[k - 1] if k else ids[k]])
            tags.append("bad-id")
    else:
        pool = list(TERMS) + [u"t%03d" % i for i in range(max(0, n - len(TERMS) + 3))]
        ids = sorted(rng.sample(pool, min(n, len(pool))))
    n = len(ids)
    # weights
    wmode = rng.choice(["ones", "const", "mixed", "mixed", "mixed-first-one"])
    if wmode == "ones":
        ws = [1.0] * n
    elif wmode == "const":
        ws = [rng.choice(WEIGHTS)] * n
    else:
        ws = [rng.choice(WEIGHTS) for _ in range(n)]
        if wmode == "mixed-first-one" and ws:
            ws[0] = 1.0
    if rng.random() < 0.1 and ws:
        ws[rng.randrange(n)] = rng.choice([1, 2, 3])   # int weights are accepted too
    tags.append("w-" + wmode)
    # values
    if fixedsize is None:
        vs = [bytes(rng.randrange(256) for _ in range(rng.choice([1, 1, 2, 5, 9]))) for _ in range(n)]
        if malformed and vs and rng.random() < 0.5:
            vs[rng.randrange(n)] = b""
            tags.append("empty-value")
    elif fixedsize == 0:
        vs = [b""] * n
    else:
        vs = [bytes(rng.randrange(256) for _ in range(fixedsize)) for _ in range(n)]
        if malformed and vs and rng.random() < 0.3:
            vs[rng.randrange(n)] = b""
            tags.append("empty-value")
    # lengths
    lmode = rng.choice(["len", "len", "len", "none", "zero"]) if kind == "doc" else "none"
    if lmode == "len":
        ls = [rng.choice([1, 1, 2, 3, 10, 11, 12, 50, 106373, 106374, 200000, 7]) for _ in range(n)]
    elif lmode == "none":
        ls = [None] * n
    else:
        ls = [0] * n
    if malformed and ls and rng.random() < 0.6:
        for _ in range(rng.randint(1, 3)):
            ls[rng.randrange(n)] = rng.choice([None, 0, 5])
        tags.append("mixed-lengths")
    tags.append("l-" + lmode)
    return list(zip(ids, ws, vs, ls)), tags


def gen_ops(rng, kind, postings, bl):
    """A cursor program: reads interleaved with next / skip_to / skip_to_quality, running past the
    end now and then."""
    ids = [p[0] for p in postings]
    ops = ["active", "id", "weight", "value", "info", "maxid"]
    steps = rng.randint(3, min(60, 2 * len(ids) + 6))
    for _ in range(steps):
        r = rng.random()
        if r < 0.45:
            ops.append("next")
        elif r < 0.8 and ids:
            base = rng.choice(ids)
            if kind == "doc":
                t = base + rng.choice([-1, 0, 0, 1, 1, 5])
                if rng.random() < 0.1:
                    t = rng.choice([0, ids[-1] + 1, ids[-1] + 1000])
                t = max(0, t)
            else:
                t = rng.choice([base, base + u"a", base[:-1], u"", u"\U0010ffff"])
            ops.append(("skip", t))
        elif r < 0.92:
            ops.append(("skipq", rng.choice([0.0, 0.25, 1.0, 1.5, 2.0, 3.0, 6.0, 7.0, 100.0])))
        else:
            ops.append("next")
        ops += ["active", "id", "weight", "value"]
        if rng.random() < 0.3:
            ops += ["info", "maxid"]
        if rng.random() < 0.15:
            ops.append("copynext")
    return ops


# ------------------------------------------------------------------------------------------------
# formats and the public API: a tokenizer that replays an explicit token stream

SEP_TOK, SEP_ATTR = u"\x1e", u"\x1f"
FMT_NAMES = ["existence", "frequency", "positions", "characters", "positionboosts", "characterboosts"]


def tokens_to_text(toks):
    """toks: list of (text, pos, startchar, endchar, boost) -> the field value handed to whoosh."""
    return SEP_TOK.join(SEP_ATTR.join([t[0], str(t[1]), str(t[2]), str(t[3]), repr(float(t[4]))]) for t in toks)


class TokAnalyzer(object):
    """Analyzer that yields exactly the encoded token stream (text, pos, chars, boost as given)."""

    def __eq__(self, other):
        return self.__class__ is other.__class__

    def __ne__(self, other):
        return not self == other

    def __call__(self, value, positions=False, chars=False, boosts=False, mode='', **kwargs):
        from whoosh.analysis import Token
        t = Token(positions=True, chars=True, boosts=True, removestops=True, mode=mode)
        if not value:
            return
        for part in value.split(SEP_TOK):
            text, pos, sc, ec, boost = part.split(SEP_ATTR)
            t.text = text
            t.pos = int(pos)
            t.startchar = int(sc)
            t.endchar = int(ec)
            t.boost = float(boost)
            t.stopped = False
            yield t

    def clean(self):
        pass


def make_fmt(name, fb):
    from whoosh import formats
    cls = {"existence": formats.Existence, "frequency": formats.Frequency, "positions": formats.Positions,
           "characters": formats.Characters, "positionboosts": formats.PositionBoosts,
           "characterboosts": formats.CharacterBoosts}[name]
    return cls(field_boost=float(fb))


def make_field(fmt, fb, vfmt, scorable, stored=False):
    from whoosh import fields
    f = fields.TEXT(analyzer=TokAnalyzer(), stored=stored)
    f.format = make_fmt(fmt, fb)
    f.vector = make_fmt(vfmt, fb) if vfmt else None
    f.scorable = scorable
    return f


def token_sexp(t):
    return "(%s %d %d %d %s)" % (hexs(t[0].encode("utf-8")), t[1], t[2], t[3], rat(t[4]))


def triples(l):
    return lst(["(%d %d %d)" % tuple(x) for x in l])


def fvalue_sexp(fmtname, v):
    """Parse real posting value bytes into the structure the model prints (showFValue)."""
    if fmtname == "existence":
        return "empty" if v == b"" else "bad:" + v.hex()
    (n,) = struct.unpack("!I", v[:4])
    if fmtname == "frequency":
        return "(freq %d)" % n if len(v) == 4 else "bad:" + v.hex()
    if fmtname == "positions":
        return "(pos %d %s)" % (n, lst(["%d" % d for d in pickle.loads(v[4:])]))
    if fmtname == "characters":
        return "(chars %d %s)" % (n, triples(pickle.loads(v[4:])))
    (sm,) = struct.unpack("!f", v[4:8])
    codes = pickle.loads(v[8:])
    if fmtname == "positionboosts":
        return "(pb %d %s %s)" % (n, rat(sm), lst(["(%d %s)" % (c[0], rat(c[1])) for c in codes]))
    return "(cb %d %s %s)" % (n, rat(sm), lst(["(%d %d %d %s)" % (c[0], c[1], c[2], rat(c[3])) for c in codes]))


def decoded_sexp(fmt, v):
    """All decoders the format supports, printed like showDecoded."""
    def get(name, show):
        if not fmt.supports(name):
            return "none"
        return show(fmt.decode_as(name, v))
    return "(%s %s %s %s %s)" % (
        get("frequency", lambda x: "%d" % x),
        get("positions", lambda x: lst(["%d" % p for p in x])),
        get("characters", triples),
        get("position_boosts", lambda x: lst(["(%d %s)" % (p, rat(b)) for p, b in x])),
        get("character_boosts", lambda x: lst(["(%d %d %d %s)" % (p, s, e, rat(b)) for p, s, e, b in x])))


def real_word_values(fmtname, fb, toks):
    fmt = make_fmt(fmtname, fb)
    items = list(fmt.word_values(tokens_to_text(toks), TokAnalyzer(), mode="index"))
    items.sort(key=lambda x: x[0])
    return lst(["(%s %d %s %s %s)" % (hexs(w.encode("utf-8")), freq, rat(weight), fvalue_sexp(fmtname, v),
                                      decoded_sexp(fmt, v)) for (w, freq, weight, v) in items])


VOCAB = [u"a", u"b", u"c", u"ab", u"\xe9", u"中", u"\U0001f600", u"zz", u"A", u"x=y", u"t\tb", u"q'\"\\"]
BOOSTS = [1.0, 1.0, 1.0, 2.0, 0.5, 1.5]


def gen_tokens(rng, nvocab=None, maxlen=8, longterm=False, vocab=None):
    n = rng.choice([0, 1, 1, 2, 3, 4, 5, maxlen])
    if vocab is None:
        vocab = rng.sample(VOCAB, nvocab or rng.randint(1, len(VOCAB)))
    if longterm and rng.random() < 0.2:
        vocab = vocab + [u"long" * 300 + u"\U0001f600"]
    toks = []
    pos = rng.choice([0, 0, 0, 3])
    ch = rng.choice([0, 0, 2])
    for _ in range(n):
        text = rng.choice(vocab)
        width = rng.choice([1, len(text), 3])
        boost = rng.choice(BOOSTS)
        toks.append((text, pos, ch, ch + width, boost))
        pos += rng.choice([1, 1, 1, 2, 5, 0])       # gaps and repeated positions
        ch += width + rng.choice([1, 1, 0, 4])
    return toks


# ------------------------------------------------------------------------------------------------
# public API end-to-end: index token streams, read postings / term_info / vectors back

def gen_index_case(rng, tier="quick"):
    fmt = rng.choice(FMT_NAMES)
    vfmt = rng.choice([None, None, fmt, rng.choice(FMT_NAMES)])
    fb = rng.choice([1.0, 1.0, 2.0, 0.5])
    scorable = rng.random() < 0.75
    codec = rng.choice(["w3"] * 8 + ["memory", "plain"])
    bl = rng.choice([1, 2, 3, 4, 5, 6, 7, 8, 9, 128])
    comp = rng.choice([0, 3])
    inl = rng.choice([0, 1, 1, 3])
    nvocab = rng.choice([1, 1, 2, 2, 3, 5])       # few terms: posting lists that span several blocks
    mult = rng.choice([1, 1, 2, 3])
    ndocs = max(1, min(60, mult * min(bl, 12) + rng.choice([-1, 0, 1, 2])))
    docs = []
    vocab = rng.sample(VOCAB, nvocab)        # one vocabulary per index, so that terms recur across documents
    for d in range(ndocs):
        toks = gen_tokens(rng, longterm=True, vocab=vocab)
        boost = rng.choice([1.0, 1.0, 1.0, 2.0, 0.5])
        if rng.random() < 0.1:
            toks = None       # the document does not have the field at all
        docs.append((boost, toks))
    history = rng.choice(["single", "single", "multi", "merged"])
    ncommits = 1 if history == "single" else rng.randint(2, 3)
    storage = rng.choice(["ram", "ram", "file", "file-nommap"])
    if codec != "w3":
        history, ncommits, storage = "single", 1, "ram"
    # further scorable fields, with names sorting before and after "f" and per-document lengths that
    # differ clearly from field to field (long body / short title): per-field statistics must not mix
    aux = rng.choice([[], ["a0"], ["z9"], ["a0", "z9"], ["a0", "z9"], ["a0", "b1", "z9"], ["g2", "z9"]])
    return {"fmt": fmt, "vfmt": vfmt, "fb": fb, "scorable": scorable, "codec": codec, "bl": bl, "comp": comp,
            "inl": inl, "docs": docs, "history": history, "ncommits": ncommits, "storage": storage, "aux": aux}


AUX_LEN = {"a0": lambda d: 40 + 3 * (d % 7), "b1": lambda d: 5 + (d * 5) % 11, "g2": lambda d: 90 - 2 * (d % 5),
           "z9": lambda d: 1 + d % 3}


def aux_has(name, d):
    """Does document `d` have the auxiliary field?  (some documents omit it)"""
    return (d + len(name) + ord(name[0])) % 5 != 0


def index_case_line(c):
    docs = []
    for n, (boost, toks) in enumerate(c["docs"]):
        docs.append("(%d %s %s)" % (n, rat(boost), lst([token_sexp(t) for t in (toks or [])])))
    return "c10 index %s %s %s %s" % (c["fmt"], c["vfmt"] or c["fmt"], rat(c["fb"]), lst(docs))


def index_case_json(c):
    d = dict(c)
    d["docs"] = [[b, None if t is None else [list(x) for x in t]] for b, t in c["docs"]]
    return d


def _build_index(c, tmpdir):
    from whoosh import fields
    from whoosh.codec.whoosh3 import W3Codec
    from whoosh.filedb.filestore import RamStorage, FileStorage
    schema = fields.Schema(id=fields.ID(stored=True),
                           f=make_field(c["fmt"], c["fb"], c["vfmt"], c["scorable"]))
    for name in c.get("aux", []):
        schema.add(name, fields.TEXT(phrase=False))
    if c["codec"] == "memory":
        from whoosh.codec.memory import MemoryCodec
        codec = MemoryCodec()
        w = codec.writer(schema)
        _add_docs(w, c["docs"], 0, c.get("aux", []))
        w.commit()
        return codec.reader(schema), None
    if c["storage"] == "ram":
        st = RamStorage()
    else:
        st = FileStorage(tmpdir, supports_mmap=(c["storage"] == "file"))
    # RamStorage.temp_storage() lives at <system tmp>/<indexname>.tmp: a private name per case keeps
    # parallel workers (and other checks) from sharing that directory
    ixname = "c10x%d_%d" % (os.getpid(), next(_COUNTER))
    ix = st.create_index(schema, indexname=ixname)
    if c["codec"] == "plain":
        from whoosh.codec.plaintext import PlainTextCodec
        codec = PlainTextCodec()
    else:
        codec = W3Codec(blocklimit=c["bl"], compression=c["comp"], inlinelimit=c["inl"])
    n = len(c["docs"])
    k = c["ncommits"]
    bounds = [round(i * n / k) for i in range(k + 1)]
    for i in range(k):
        w = ix.writer(codec=codec)
        _add_docs(w, c["docs"][bounds[i]:bounds[i + 1]], bounds[i], c.get("aux", []))
        last = i == k - 1
        if c["history"] == "merged" and last:
            w.commit(optimize=True)
        else:
            w.commit(merge=False)
    return ix.reader(), ix


def _add_docs(w, docs, base, aux=()):
    for j, (boost, toks) in enumerate(docs):
        kw = {"id": u"%d" % (base + j)}
        for name in aux:
            if aux_has(name, base + j):
                kw[name] = u" ".join([u"xx"] * AUX_LEN[name](base + j))
        if toks is not None:
            kw["f"] = tokens_to_text(toks)
        if boost != 1.0:
            kw["_f_boost"] = boost
        w.add_document(**kw)


def _show_value(m, fmtobj):
    """(freq positions chars posboosts charboosts) as far as the format supports them."""
    def get(name, show):
        if not fmtobj.supports(name):
            return "none"
        return show(m.value_as(name))
    return (get("frequency", lambda x: "%d" % x),
            get("positions", lambda x: lst(["%d" % p for p in x])),
            get("characters", triples),
            get("position_boosts", lambda x: lst(["(%d %s)" % (p, rat(b)) for p, b in x])),
            get("character_boosts", lambda x: lst(["(%d %d %d %s)" % (p, s, e, rat(b)) for p, s, e, b in x])))


def expected_value(fmtname, spec):
    """Project a spec posting (freq weight positions chars boosts) onto what the format can show."""
    freq, weight, positions, chars, boosts = spec
    sup = {"existence": 0, "frequency": 0, "positions": 1, "characters": 2, "positionboosts": 3,
           "characterboosts": 4}[fmtname]
    pos = lst(positions) if sup >= 1 else "none"
    chs = lst(["(%s)" % " ".join(x) for x in chars]) if sup in (2, 4) else "none"
    if sup in (1, 2):
        pbs = lst(["(%s 1)" % p for p in positions])
    elif sup >= 3:
        pbs = lst(["(%s %s)" % (p, b) for p, b in zip(positions, boosts)])
    else:
        pbs = "none"
    cbs = lst(["(%s %s)" % (" ".join(x), b) for x, b in zip(chars, boosts)]) if sup == 4 else "none"
    return (freq, pos, chs, pbs, cbs)


def run_index_case(arg):
    """Worker: build the real index, read everything back, compare with the parsed Lean spec.
    Returns (violations, stats) — a violation is (signature, expected, observed, desc)."""
    import shutil
    import tempfile
    from vcheck import parse_sexp
    c, specline = arg
    viol, stats = [], {}
    # RamStorage.temp_storage() and MemoryCodec work in <system tmp>/<indexname>.tmp (MemoryCodec always
    # "MAIN.tmp"), a directory shared with every other process on the machine: give each case a private
    # temp dir so that parallel workers and other checks cannot corrupt each other's run files
    tmpdir = tempfile.mkdtemp(prefix="wverif-C10-")
    saved_tmp = tempfile.tempdir
    tempfile.tempdir = tmpdir
    try:
        try:
            r, ix = _build_index(c, tmpdir)
        except Exception as e:  # noqa
            sig = "index-build:%s:%s" % (c["codec"], type(e).__name__)
            if isinstance(e, AttributeError) and "set_inline" in str(e):
                sig = "W3PostingsWriter.finish_postings:set_inline-AttributeError"
            elif c["codec"] == "plain" and isinstance(e, AttributeError) and "cancel_doc" in str(e):
                # the real error is hidden by the missing cancel_doc(); find it from the input
                def latin1(t):
                    try:
                        t.encode("latin1")
                        return True
                    except UnicodeEncodeError:
                        return False
                texts = [t[0] for _, toks in c["docs"] for t in (toks or [])]
                if c["vfmt"] and any(not latin1(t) for t in texts):
                    sig = "PlainPerDocWriter.add_vector_items:non-latin1-term+missing-cancel_doc"
            return [(sig, "index builds", repr(e)[:300], "indexing raised")], stats
        try:
            _compare_index(c, r, parse_sexp(specline), viol, stats)
        finally:
            try:
                r.close()
            except Exception:  # noqa
                pass
    finally:
        tempfile.tempdir = saved_tmp
        shutil.rmtree(tmpdir, ignore_errors=True)
    return viol, stats


def _compare_index(c, r, spec, viol, stats):
    from whoosh.util.numeric import length_to_byte, byte_to_length
    codec = c["codec"]
    tag = "" if codec == "w3" else ":" + codec

    def bad(sig, exp, obs, desc):
        if codec == "plain" and "too many values to unpack" in str(obs):
            # LineReader._parse_line splits `name=value` on every '=' (and lines on every tab)
            sig = "PlainTextCodec.LineReader._parse_line:equals-or-tab-inside-a-value"
        if len(viol) < 8:
            viol.append((sig if sig.startswith(("Plain", "IndexReader.")) else sig + tag, exp, obs, desc))

    posts = {p[0]: p[1] for p in spec[0][1:]}
    docs = {int(d[0]): (int(d[1]), d[2]) for d in spec[1][1:]}
    # real document numbers: a merge puts the writer's own documents before the merged segments,
    # so documents are identified through the stored id
    try:
        orig = {dn: int(r.stored_fields(dn)["id"]) for dn in range(r.doc_count_all())}
    except Exception as e:  # noqa
        bad("reader.stored_fields:exception:" + type(e).__name__, "stored ids", repr(e)[:200], "stored_fields raised")
        return
    real = {o: dn for dn, o in orig.items()}
    if sorted(orig.values()) != list(range(len(c["docs"]))):
        bad("reader.stored_fields:doc-set", len(c["docs"]), sorted(orig.values())[:30], "documents lost or duplicated")
        return
    fmtobj = make_fmt(c["fmt"], c["fb"])
    # lexicon
    try:
        lex = sorted(hexs(t) for t in r.lexicon("f"))
    except Exception as e:  # noqa
        lex = "exc:%s:%s" % (type(e).__name__, e)
    exp_lex = sorted(posts.keys(), key=lambda h: bytes.fromhex(h))
    exp_lex_sorted = sorted(exp_lex)
    if not exp_lex_sorted and isinstance(lex, str) and lex.startswith("exc:TermNotFound"):
        # a field none of whose documents produced a term: the memory and plain-text codecs raise
        # TermNotFound, the on-disk codec yields an empty lexicon; the property is silent about it
        lex = []
    if lex != exp_lex_sorted:
        bad("reader.lexicon:term-set", exp_lex_sorted[:20], lex if isinstance(lex, str) else lex[:20],
            "the field's lexicon is not the set of indexed terms")
    for th in exp_lex:
        tbytes = bytes.fromhex(th)
        text = tbytes.decode("utf-8")
        exp_posts = posts[th]
        # postings
        try:
            m = r.postings("f", text)
            got = []
            nblocks = 0
            while m.is_active():
                got.append(("%d" % m.id(), rat(m.weight())) + _show_value(m, fmtobj))
                if m.next():
                    nblocks += 1
            stats["postings-lists"] = stats.get("postings-lists", 0) + 1
            if nblocks > 1:
                stats["postings-multiblock"] = stats.get("postings-multiblock", 0) + 1
        except Exception as e:  # noqa
            bad("reader.postings:exception:" + type(e).__name__, "postings of %r" % text, repr(e)[:200],
                "reading a posting list raised")
            continue
        exp = [("%d" % real[int(p[0])], p[2]) + expected_value(c["fmt"], (p[1], p[2], p[3], p[4], p[5]))
               for p in exp_posts]
        exp.sort(key=lambda e: int(e[0]))
        if [g[0] for g in got] != [e[0] for e in exp]:
            bad("reader.postings:doc-ids", [e[0] for e in exp], [g[0] for g in got],
                "posting list of %r lists the wrong documents" % text)
            continue
        for g, e in zip(got, exp):
            if g[1] != e[1]:
                sig = "reader.postings:weight"
                if c["fmt"] == "characterboosts" and c["fb"] != 1.0:
                    sig = "CharacterBoosts.word_values:weight-ignores-field_boost"
                bad(sig, e[1], g[1], "weight of %r in doc %s" % (text, g[0]))
                break
            names = ["frequency", "positions", "characters", "position_boosts", "character_boosts"]
            for k, name in enumerate(names):
                if g[2 + k] != e[2 + k]:
                    bad("reader.postings:value_as(%s)" % name, e[2 + k], g[2 + k],
                        "%s of %r in doc %s" % (name, text, g[0]))
                    break
        # term info
        try:
            ti = r.term_info("f", text)
            ws = [_frac(p[2]) for p in exp_posts]
            dlens = [docs[int(p[0])][0] for p in exp_posts]
            if c["scorable"] and codec in ("w3",):
                mn = byte_to_length(length_to_byte(min(dlens)))
                mx = byte_to_length(length_to_byte(max(dlens)))
            elif c["scorable"]:
                mn, mx = min(dlens), max(dlens)
            else:
                mn, mx = 0, 0
            rids = sorted(real[int(p[0])] for p in exp_posts)
            exp_ti = ("%d" % len(exp_posts), rat(sum(ws)), str(mn), str(mx), rat(max(ws)),
                      "%d" % rids[0], "%d" % rids[-1])
            got_ti = ("%d" % ti.doc_frequency(), rat(ti.weight()), str(ti.min_length() or 0), str(ti.max_length()),
                      rat(ti.max_weight()), str(ti.min_id()), str(ti.max_id()))
            for name, a, b in zip(["doc_frequency", "weight", "min_length", "max_length", "max_weight",
                                   "min_id", "max_id"], exp_ti, got_ti):
                if a != b:
                    sig = "reader.term_info:" + name
                    if codec == "plain" and name in ("min_length", "max_length") and b == "0":
                        sig = "PlainFieldWriter:term-info-lengths-always-0"
                    bad(sig, a, b, "term statistics of %r" % text)
            if "%d" % r.doc_frequency("f", text) != exp_ti[0]:
                bad("reader.doc_frequency", exp_ti[0], r.doc_frequency("f", text), "doc_frequency of %r" % text)
            if rat(r.frequency("f", text)) != exp_ti[1]:
                bad("reader.frequency", exp_ti[1], rat(r.frequency("f", text)), "frequency of %r" % text)
        except Exception as e:  # noqa
            bad("reader.term_info:exception:" + type(e).__name__, "term_info of %r" % text, repr(e)[:200],
                "term_info raised")
    # term statistics are reads.  Asking again — the same reader a second and a third time, then the
    # segment's own (leaf) reader after the composite reader, then the composite reader once more —
    # must give the aggregates of the same posting lists every time.  Terms of `f` (few terms, usually in
    # every segment) and of `id` (every term in exactly one document, hence in exactly one segment).
    _repeat_term_info(c, r, posts, docs, real, orig, bad, stats)
    # the other scorable fields: statistics of their one term `x` are aggregates of *their own* lengths
    if codec != "plain":
        for name in c.get("aux", []):
            have = [d for d in sorted(docs) if aux_has(name, d)]
            if not have:
                continue
            lens = [AUX_LEN[name](d) for d in have]
            conv = (lambda x: byte_to_length(length_to_byte(x))) if codec == "w3" else (lambda x: x)
            try:
                ti = r.term_info(name, u"xx")
                exp = ("%d" % len(have), "%d" % conv(min(lens)), "%d" % conv(max(lens)))
                got = ("%d" % ti.doc_frequency(), "%d" % (ti.min_length() or 0), "%d" % ti.max_length())
                for what, a, b in zip(["doc_frequency", "min_length", "max_length"], exp, got):
                    if a != b:
                        bad("reader.term_info:%s:of-another-scorable-field" % what, a, b,
                            "field %r (fields %r), term 'x'" % (name, ["f"] + c["aux"]))
                        break
                # every posting lies within the length bounds its block advertises, and has its own length
                m = r.postings(name, u"xx")
                by_real = {real[d]: d for d in have}
                while m.is_active():
                    d = by_real.get(m.id())
                    if d is None:
                        bad("reader.postings:id:of-another-scorable-field", sorted(by_real), m.id(), "field %r" % name)
                        break
                    lb = length_to_byte(AUX_LEN[name](d))
                    if r.doc_field_length(m.id(), name) != conv(AUX_LEN[name](d)):
                        bad("reader.doc_field_length:of-another-scorable-field", conv(AUX_LEN[name](d)),
                            r.doc_field_length(m.id(), name), "field %r document %d" % (name, d))
                        break
                    if m.supports_block_quality() and hasattr(m, "block_min_length"):
                        lo, hi = length_to_byte(m.block_min_length()), length_to_byte(m.block_max_length())
                        if not (lo <= lb <= hi):
                            bad("matcher.block_min/max_length:posting-outside-the-advertised-bounds", lb, (lo, hi),
                                "field %r document %d (length bytes)" % (name, d))
                            break
                    m.next()
                stats["aux"] = stats.get("aux", 0) + 1
            except Exception as e:  # noqa
                bad("reader.term_info:exception:" + type(e).__name__, "term_info of %r.x" % name, repr(e)[:200],
                    "term_info / postings of another scorable field raised")
    # vectors
    if c["vfmt"]:
        vobj = make_fmt(c["vfmt"], c["fb"])
        for odn in sorted(docs):
            flen, vec = docs[odn]
            dn = real[odn]
            try:
                hv = r.has_vector(dn, "f")
            except Exception as e:  # noqa
                bad("reader.has_vector:exception:" + type(e).__name__, bool(vec), repr(e)[:200], "has_vector raised")
                continue
            if bool(hv) != bool(vec):
                sig = "reader.has_vector"
                if codec == "plain" and hv and not vec:
                    sig = "PlainPerDocReader.has_vector:true-for-document-without-vector"
                bad(sig, bool(vec), bool(hv), "has_vector(%d)" % dn)
                continue
            if not vec:
                continue
            try:
                m = r.vector(dn, "f")
                got = []
                while m.is_active():
                    got.append((hexs(m.id().encode("utf-8")), rat(m.weight())) + _show_value(m, vobj))
                    m.next()
                stats["vectors"] = stats.get("vectors", 0) + 1
            except Exception as e:  # noqa
                bad("reader.vector:exception:" + type(e).__name__, "vector of doc %d" % dn, repr(e)[:200],
                    "reading a vector raised")
                continue
            exp = [(v[0], v[2]) + expected_value(c["vfmt"], (v[1], v[2], v[3], v[4], v[5])) for v in vec]
            if [g[0] for g in got] != [e[0] for e in exp]:
                bad("reader.vector:terms", [e[0] for e in exp], [g[0] for g in got],
                    "vector of doc %d lists the wrong terms / order" % dn)
                continue
            for g, e in zip(got, exp):
                if g[1] != e[1]:
                    sig = "reader.vector:weight"
                    if c["vfmt"] == "characterboosts" and c["fb"] != 1.0:
                        sig = "CharacterBoosts.word_values:weight-ignores-field_boost"
                    bad(sig, e[1], g[1], "vector weight of %s in doc %d" % (g[0], dn))
                    break
                if g[2:] != e[2:]:
                    bad("reader.vector:value", e[2:], g[2:], "vector value of %s in doc %d" % (g[0], dn))
                    break
            # vector_as(astype, docnum, field): the same data through the convenience method
            shows = {"frequency": lambda x: "%d" % x,
                     "positions": lambda x: lst(["%d" % p for p in x]),
                     "characters": triples,
                     "position_boosts": lambda x: lst(["(%d %s)" % (p, rat(b)) for p, b in x]),
                     "character_boosts": lambda x: lst(["(%d %d %d %s)" % (p, s, e_, rat(b)) for p, s, e_, b in x]),
                     "weight": rat}
            for k, name in enumerate(["weight", "frequency", "positions", "characters", "position_boosts",
                                      "character_boosts"]):
                if name != "weight" and not vobj.supports(name):
                    continue
                want = [(e[0], e[1 + k]) for e in exp]
                try:
                    have = [(hexs(t.encode("utf-8")), shows[name](v)) for t, v in r.vector_as(name, dn, "f")]
                except Exception as ex:  # noqa
                    have = "exc:%s:%s" % (type(ex).__name__, ex)
                if have != want:
                    sig = "reader.vector_as:" + name
                    if c["vfmt"] != c["fmt"] and name != "weight":
                        sig = "IndexReader.vector_as:decodes-with-the-posting-format-not-the-vector-format"
                    bad(sig, want[:6], have if isinstance(have, str) else have[:6],
                        "vector_as(%r, %d, 'f'), posting format %s, vector format %s" % (name, dn, c["fmt"], c["vfmt"]))
                    break
    # all_terms(): every (field, term) of the index
    want_terms = sorted([("f", bytes.fromhex(h)) for h in posts] + [("id", b"%d" % o) for o in sorted(orig.values())]
                        + [(name, b"xx") for name in c.get("aux", []) if any(aux_has(name, d) for d in orig.values())])
    try:
        have_terms = sorted((fn, bytes(t)) for fn, t in r.all_terms())
    except Exception as ex:  # noqa
        have_terms = "exc:%s:%s" % (type(ex).__name__, ex)
    if have_terms != want_terms:
        sig = "reader.all_terms:term-set"
        if codec == "plain" and isinstance(have_terms, str) and "_find_root" in have_terms:
            sig = "PlainTermsReader._iter_fields:_find_root-called-without-argument"
        bad(sig, [(f, t.hex()) for f, t in want_terms[:12]],
            have_terms if isinstance(have_terms, str) else [(f, t.hex()) for f, t in have_terms[:12]],
            "all_terms() is not the set of indexed (field, term) pairs")
    # field lengths
    for odn in sorted(docs):
        flen = docs[odn][0] if c["scorable"] else 0
        dn = real[odn]
        try:
            got = r.doc_field_length(dn, "f")
        except Exception as e:  # noqa
            bad("reader.doc_field_length:exception:" + type(e).__name__, flen, repr(e)[:200], "doc_field_length raised")
            break
        exp = byte_to_length(length_to_byte(flen)) if codec == "w3" else flen
        if (got or 0) != exp:
            bad("reader.doc_field_length", exp, got, "field length of doc %d" % dn)
            break


def _ti_tuple(ti):
    return ("%d" % ti.doc_frequency(), rat(ti.weight()), rat(ti.max_weight()), str(ti.min_id()), str(ti.max_id()))


TI_NAMES = ["doc_frequency", "weight", "max_weight", "min_id", "max_id"]


def _repeat_term_info(c, r, posts, docs, real, orig, bad, stats):
    """term_info() asked repeatedly and through different access paths of the same reader object:
    (1) composite reader, three times in a row; (2) every leaf reader (ids relative to the segment), twice;
    (3) the composite reader again.  Expected = aggregates of the spec posting list restricted to the
    documents of the (sub-)reader."""
    # spec: (field, text) -> [(real docnum, weight)]
    want = {}
    for th, exp_posts in posts.items():
        want[("f", bytes.fromhex(th).decode("utf-8"))] = sorted((real[int(p[0])], _frac(p[2])) for p in exp_posts)
    for dn, o in orig.items():
        want[("id", u"%d" % o)] = [(dn, Fraction(1))]
    try:
        leaves = list(r.leaf_readers())
    except Exception as e:  # noqa
        bad("reader.leaf_readers:exception:" + type(e).__name__, "leaf readers", repr(e)[:200], "leaf_readers raised")
        return
    stats["ti-repeat-leaves=%d" % min(len(leaves), 4)] = 1

    def check(reader, lo, hi, path, nth):
        for (fn, text), plist in sorted(want.items()):
            sub = [(dn - lo, w) for dn, w in plist if lo <= dn < hi]
            try:
                if not sub:
                    continue
                got = _ti_tuple(reader.term_info(fn, text))
            except Exception as e:  # noqa
                bad("reader.term_info:exception:%s:%s" % (type(e).__name__, path), "term_info of %s:%r" % (fn, text),
                    repr(e)[:200], "term_info raised (%s, call #%d)" % (path, nth))
                return False
            exp = ("%d" % len(sub), rat(sum(w for _, w in sub)), rat(max(w for _, w in sub)),
                   "%d" % sub[0][0], "%d" % sub[-1][0])
            if fn == "id":       # the key field: only frequency and first / last id are predicted
                exp, got = (exp[0],) + exp[3:], (got[0],) + got[3:]
                names = ["doc_frequency", "min_id", "max_id"]
            else:
                names = TI_NAMES
            for name, a, b in zip(names, exp, got):
                if a != b:
                    sig = "reader.term_info:%s:%s" % (name, path)
                    if c["fmt"] == "characterboosts" and c["fb"] != 1.0 and name in ("weight", "max_weight"):
                        sig = "CharacterBoosts.word_values:weight-ignores-field_boost"
                    bad(sig, a, b, "term statistics of %s:%r, %s, call #%d on the same reader object "
                        "(documents %d..%d of the index)" % (fn, text, path, nth, lo, hi - 1))
                    return False
            stats["ti-repeat-reads"] = stats.get("ti-repeat-reads", 0) + 1
        return True

    total = r.doc_count_all()
    for nth in (2, 3):               # the main comparison above was call #1 for the terms of `f`
        if not check(r, 0, total, "repeated-call", nth):
            return
    if len(leaves) > 1 or leaves[0][0] is not r:
        for lr, off in leaves:
            for nth in (1, 2):
                if not check(lr, off, off + lr.doc_count_all(), "leaf-reader-after-composite", nth):
                    return
        check(r, 0, total, "composite-after-leaf-readers", 4)


def _frac(s):
    return Fraction(s)
