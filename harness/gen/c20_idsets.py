"""C20 / id sets: random op programs on BitSet, OnDiskBitSet, SortedIntSet, ReverseIdSet and
MultiIdSet, executed on (a) the real classes, (b) the Lean model `WM.IdSets` (raw byte/array
state after every op: correspondence) and (c) the Lean specification `WM.Spec.IdSet`
(strictly ascending lists: end-to-end oracle), cross-checked against Python `set`."""
from vcheck import sexp, parse_sexp

ERR = {"IndexError": "err-index", "ValueError": "err-value", "TypeError": "err-type",
       "NotImplementedError": "err-notimpl"}


def fl(xs):
    return "(" + " ".join(str(x) for x in xs) + ")"


def fo(x):
    return "none" if x is None else str(x)


def fb(b):
    return "1" if b else "0"


def flat(x):
    """parsed S-expression -> canonical text (so that model and implementation text compare)."""
    if isinstance(x, list):
        return "(" + " ".join(flat(y) for y in x) + ")"
    return x


# ------------------------------------------------------------------------------------------------
# generation

def pick_universe(rng):
    return rng.choice([1, 7, 8, 9, 15, 16, 17, 24, 33, 40, 64, 65, 100, 130, 257, 600])


def pick_val(rng, U):
    r = rng.random()
    if r < 0.35:
        # byte boundaries
        k = rng.randrange(0, U // 8 + 2) * 8 + rng.choice((-1, 0, 0, 1, 7))
        return max(0, k)
    if r < 0.9:
        return rng.randrange(U)
    return rng.randrange(2 * U + 10)


def pick_list(rng, U, maxn=8):
    n = rng.choice((0, 0, 1, 1, 2, 3, 5, maxn))
    return [pick_val(rng, U) for _ in range(n)]


def pick_other(rng, U):
    return (rng.choice("BLLG"), pick_list(rng, U))


MUT = ["add", "add", "add", "discard", "discard", "update", "iupd", "dupd", "invupd", "clear"]
CON = ["union", "inter", "diff", "invert", "copy"]
QRY = ["contains", "contains", "iter", "len", "bool", "first", "last", "before", "before", "after", "after"]


def gen_ops(rng, U, n, readonly=False, kinds=None):
    ops = []
    for _ in range(n):
        r = rng.random()
        if kinds is not None:
            name = rng.choice(kinds)
        elif readonly or r < 0.45:
            name = rng.choice(QRY)
        elif r < 0.8:
            name = rng.choice(MUT)
            if name == "clear" and rng.random() < 0.7:
                name = "add"
        else:
            name = rng.choice(CON)
        if name in ("add", "discard", "contains"):
            ops.append((name, pick_val(rng, U)))
        elif name in ("before", "after"):
            v = pick_val(rng, U)
            if rng.random() < 0.15:
                v = rng.choice((-3, -1, 0, U * 8 + 70, 10 ** 6))
            ops.append((name, v))
        elif name in ("update", "iupd", "dupd", "union", "inter", "diff"):
            ops.append((name, pick_other(rng, U)))
        elif name in ("invupd", "invert"):
            ops.append((name, rng.choice((0, 1, 7, 8, 9, 16, U, U + 1, max(0, U - 1), 2 * U + 3, rng.randrange(U + 20)))))
        else:
            ops.append((name,))
    return ops


# ------------------------------------------------------------------------------------------------
# real execution

def _exc(e):
    return ERR.get(type(e).__name__, "err-" + type(e).__name__)


def mk_other(o, tag_cls):
    from whoosh.idsets import BitSet, SortedIntSet
    tag, l = o
    if tag == "B":
        return BitSet(list(l))
    if tag == "L":
        return tag_cls(l)
    return SortedIntSet(list(l))


def other_for_model(o, obj):
    """what the model is told about the argument: its iteration order."""
    tag, l = o
    if tag == "B":
        return ("B", list(l))
    return (tag, [int(x) for x in obj])


def _raw(obj):
    if hasattr(obj, "bits"):
        return fl(obj.bits)
    if hasattr(obj, "data"):
        return fl(obj.data)
    if hasattr(obj, "idset"):
        return _raw(obj.idset)
    return "?"


def apply_real(obj, op, listcls=list):
    """-> (raw observation, set-level observation, op as sent to the model)"""
    name = op[0]
    mop = op
    try:
        if name in ("update", "iupd", "dupd", "union", "inter", "diff"):
            other = mk_other(op[1], listcls)
            mop = (name, other_for_model(op[1], other))
            if name == "update":
                obj.update(other)
            elif name == "iupd":
                obj.intersection_update(other)
            elif name == "dupd":
                obj.difference_update(other)
            else:
                res = {"union": obj.union, "inter": obj.intersection, "diff": obj.difference}[name](other)
                return _raw(res), fl([x for x in res]), mop
            return _raw(obj), fl([x for x in obj]), mop
        if name == "add":
            obj.add(op[1])
        elif name == "discard":
            obj.discard(op[1])
        elif name == "invupd":
            obj.invert_update(op[1])
        elif name == "clear":
            obj.clear()
        elif name == "invert":
            res = obj.invert(op[1])
            return _raw(res), fl([x for x in res]), mop
        elif name == "copy":
            res = obj.copy()
            out = (_raw(res), fl([x for x in res]), mop)
            res.add(3)          # a copy must be independent of the original
            res.discard(0)
            if hasattr(res, "clear"):
                res.clear()
            return out
        elif name == "contains":
            v = fb(op[1] in obj)
            return v, v, mop
        elif name == "iter":
            v = fl([x for x in obj])
            return v, v, mop
        elif name == "len":
            v = str(len(obj))
            return v, v, mop
        elif name == "bool":
            v = fb(bool(obj))
            return v, v, mop
        elif name == "first":
            v = fo(obj.first())
            return v, v, mop
        elif name == "last":
            v = fo(obj.last())
            return v, v, mop
        elif name == "before":
            v = fo(obj.before(op[1]))
            return v, v, mop
        elif name == "after":
            v = fo(obj.after(op[1]))
            return v, v, mop
        else:
            raise AssertionError(name)
        return _raw(obj), fl([x for x in obj]), mop
    except Exception as e:  # noqa
        x = _exc(e)
        return x, x, mop


def run_case(case):
    """Worker: executes one program on the real class.  case = dict(kind, init, ops, listcls)."""
    from whoosh.idsets import BitSet, SortedIntSet, OnDiskBitSet, ReverseIdSet, MultiIdSet
    from whoosh.filedb.filestore import RamStorage
    kind = case["kind"]
    listcls = {"list": list, "tuple": tuple, "set": set, "frozenset": frozenset}[case.get("listcls", "list")]
    tmpdir = None
    try:
        if kind == "bitset":
            init = case["init"]
            if init[0] == "src":
                _, l, sized, size = init
                src = listcls(l) if sized else iter(list(l))
                if sized:
                    # the model needs the iteration order of the source
                    case = dict(case, init=("src", [int(x) for x in src], 1, size))
                obj = BitSet(src, size=size) if size else BitSet(src)
            else:
                obj = BitSet.from_bytes(bytes.fromhex(init[1]))
        elif kind == "ondisk":
            data, basepos, count = case["init"]
            if case.get("storage") == "file":
                import tempfile
                from whoosh.filedb.filestore import FileStorage
                tmpdir = tempfile.mkdtemp(prefix="wverif-c20b-")
                st = FileStorage(tmpdir, supports_mmap=case.get("mmap", True))
            else:
                st = RamStorage()
            f = st.create_file("bits")
            f.write(bytes.fromhex(data))
            f.close()
            obj = OnDiskBitSet(st.open_file("bits"), basepos, count)
        elif kind == "sorted":
            obj = SortedIntSet(listcls(case["init"]))
        elif kind == "rev":
            (ik, l), limit = case["init"]
            inner = BitSet(list(l)) if ik == "bits" else SortedIntSet(list(l))
            obj = ReverseIdSet(inner, limit)
        elif kind == "multi":
            sets, offs = [], []
            for (ik, l), off in case["init"]:
                sets.append(BitSet(list(l)) if ik == "bits" else SortedIntSet(list(l)))
                offs.append(off)
            obj = MultiIdSet(sets, offs)
        else:
            raise AssertionError(kind)
    except Exception as e:  # noqa
        return dict(case=case, init_exc=_exc(e), raw=[], setlv=[], mops=[])
    raw, setlv, mops = [], [], []
    try:
        for op in case["ops"]:
            r, s, m = apply_real(obj, op, listcls)
            raw.append(r)
            setlv.append(s)
            mops.append(m)
    finally:
        if tmpdir:
            import shutil
            if hasattr(obj, "_dbfile"):
                try:
                    obj._dbfile.close()
                except Exception:  # noqa
                    pass
            shutil.rmtree(tmpdir, ignore_errors=True)
    return dict(case=case, init_exc=None, raw=raw, setlv=setlv, mops=mops)


# ------------------------------------------------------------------------------------------------
# protocol lines

def model_line(res):
    case = res["case"]
    kind = case["kind"]
    ops = " ".join(sexp(m) for m in res["mops"])
    if kind == "bitset":
        init = case["init"]
        if init[0] == "src":
            head = "bitset (src %s %d %d)" % (fl(init[1]), int(bool(init[2])), init[3])
        else:
            head = "bitset (bytes %s)" % (init[1] or "-")
    elif kind == "ondisk":
        data, basepos, count = case["init"]
        head = "ondisk %s %d %d" % (data or "-", basepos, count)
    elif kind == "sorted":
        head = "sorted %s" % fl(case["init"])
    elif kind == "rev":
        (ik, l), limit = case["init"]
        head = "rev (%s %s) %d" % (ik, fl(l), limit)
    else:
        head = "multi (%s)" % " ".join("((%s %s) %d)" % (ik, fl(l), off) for (ik, l), off in case["init"])
    return "c20 idset %s %s" % (head, ops)


def spec_members(case):
    """the members of the initial set, as the constructor arguments define them"""
    kind = case["kind"]
    if kind == "bitset":
        init = case["init"]
        if init[0] == "src":
            return list(init[1])
        bs = bytes.fromhex(init[1])
        return [i for i in range(len(bs) * 8) if bs[i >> 3] >> (i & 7) & 1]
    if kind == "ondisk":
        data, basepos, count = case["init"]
        bs = bytes.fromhex(data)[basepos:basepos + count]
        return [i for i in range(len(bs) * 8) if bs[i >> 3] >> (i & 7) & 1]
    if kind == "sorted":
        return list(case["init"])
    if kind == "rev":
        (ik, l), limit = case["init"]
        return [i for i in range(limit) if i not in set(l)]
    return [x + off for (ik, l), off in case["init"] for x in l]


def spec_ops(res):
    """ReverseIdSet: add/discard act on the visible set; everything else is passed through."""
    return " ".join(sexp(m) for m in res["mops"])


def spec_line(res):
    return "c20 idset spec %s %s" % (fl(spec_members(res["case"])), spec_ops(res))


def pyset_transcript(case, mops):
    """the same program on a Python set (sanity check of the Lean spec itself)"""
    s = set(spec_members(case))
    out = []
    for op in mops:
        n = op[0]
        if n == "add":
            s.add(op[1]); out.append(fl(sorted(s)))
        elif n == "discard":
            s.discard(op[1]); out.append(fl(sorted(s)))
        elif n == "update":
            s |= set(op[1][1]); out.append(fl(sorted(s)))
        elif n == "iupd":
            s &= set(op[1][1]); out.append(fl(sorted(s)))
        elif n == "dupd":
            s -= set(op[1][1]); out.append(fl(sorted(s)))
        elif n == "invupd":
            s = set(range(op[1])) - s; out.append(fl(sorted(s)))
        elif n == "clear":
            s = set(); out.append("()")
        elif n == "union":
            out.append(fl(sorted(s | set(op[1][1]))))
        elif n == "inter":
            out.append(fl(sorted(s & set(op[1][1]))))
        elif n == "diff":
            out.append(fl(sorted(s - set(op[1][1]))))
        elif n == "invert":
            out.append(fl(sorted(set(range(op[1])) - s)))
        elif n in ("copy", "iter"):
            out.append(fl(sorted(s)))
        elif n == "contains":
            out.append(fb(op[1] in s))
        elif n == "len":
            out.append(str(len(s)))
        elif n == "bool":
            out.append(fb(bool(s)))
        elif n == "first":
            out.append(fo(min(s) if s else None))
        elif n == "last":
            out.append(fo(max(s) if s else None))
        elif n == "before":
            c = [x for x in s if x < op[1]]
            out.append(fo(max(c) if c else None))
        elif n == "after":
            c = [x for x in s if x > op[1]]
            out.append(fo(min(c) if c else None))
    return out


CLS = {"bitset": "BitSet", "ondisk": "OnDiskBitSet", "sorted": "SortedIntSet", "rev": "ReverseIdSet",
       "multi": "MultiIdSet"}
METH = {"iupd": "intersection_update", "dupd": "difference_update", "invupd": "invert_update",
        "inter": "intersection", "diff": "difference", "contains": "__contains__", "iter": "__iter__",
        "len": "__len__", "bool": "__bool__"}


def classify(case, op, expected, observed):
    """Narrow signature of an end-to-end failure (what is listed in findings/C20.json)."""
    cls = CLS[case["kind"]]
    meth = METH.get(op[0], op[0])
    if observed.startswith("err-"):
        return "%s.%s:raises-%s" % (cls, meth, observed[4:])
    if expected.startswith("(") and observed.startswith("("):
        e = [int(x) for x in expected.strip("()").split()]
        o = [int(x) for x in observed.strip("()").split()]
        if op[0] in ("invert", "invupd"):
            extra = sorted(set(o) - set(e))
            if o == sorted(set(o)) and set(e) <= set(o) and extra and all(x >= op[1] for x in extra):
                return "%s.%s:keeps-members>=size" % (cls, meth)
        if sorted(o) == e and o != e:
            return "%s.%s:iteration-order" % (cls, meth)
        if sorted(set(o)) == e and len(o) != len(e):
            return "%s.%s:duplicates" % (cls, meth)
    return "%s.%s:wrong-result" % (cls, meth)


# ------------------------------------------------------------------------------------------------

def gen_cases(ctx, n):
    rng = ctx.rng("idsets")
    cases = []
    for k in range(n):
        U = pick_universe(rng)
        r = rng.random()
        nops = rng.choice((3, 6, 10, 16, 24))
        listcls = rng.choice(("list", "list", "tuple", "set", "frozenset"))
        if r < 0.40:
            if rng.random() < 0.8:
                sized = rng.random() < 0.8
                size = rng.choice((0, 0, 0, 1, 8, U, U + 9))
                init = ("src", pick_list(rng, U), int(sized), size)
            else:
                nb = rng.choice((0, 1, 2, 3, 5, 9))
                bs = bytes(rng.choice((0, 0, 1, 128, 255, rng.randrange(256))) for _ in range(nb))
                init = ("bytes", bs.hex())
            cases.append(dict(kind="bitset", init=init, ops=gen_ops(rng, U, nops), listcls=listcls))
        elif r < 0.50:
            nb = rng.choice((0, 1, 2, 3, 5, 9, 33))
            pre = rng.choice((0, 0, 1, 3))
            post = rng.choice((0, 2))
            mid = bytes(rng.choice((0, 0, 1, 128, 255, rng.randrange(256))) for _ in range(nb))
            data = bytes(rng.randrange(256) for _ in range(pre)) + mid + bytes(rng.randrange(1, 256) for _ in range(post))
            sto = rng.choice(("ram", "ram", "file"))
            cases.append(dict(kind="ondisk", init=(data.hex(), pre, nb), storage=sto, mmap=rng.random() < 0.5,
                              ops=gen_ops(rng, max(1, nb * 8), nops, readonly=True)))
        elif r < 0.80:
            cases.append(dict(kind="sorted", init=pick_list(rng, U), ops=gen_ops(rng, U, nops), listcls=listcls))
        elif r < 0.92:
            ik = rng.choice(("bits", "sorted"))
            limit = rng.choice((0, 1, 8, 9, U, U + 1))
            # a small share of programs leaves the documented domain (ids >= limit): model <-> code only
            outside = rng.random() < 0.1
            span = limit + 10 if outside else limit
            l = sorted(set(x for x in pick_list(rng, max(1, span)) if x < span))
            ops = []
            for _ in range(nops):
                name = rng.choice(("add", "discard", "contains", "contains", "iter", "len", "first", "last",
                                   "add", "discard", "contains", "iter", "len", "first", "last",
                                   "update", "dupd", "iupd", "before", "after", "copy", "union", "inter", "diff", "invert"))
                if name in ("add", "discard", "contains"):
                    if span == 0:
                        continue
                    ops.append((name, min(span - 1, pick_val(rng, span))))
                elif name in ("update", "dupd", "iupd", "union", "inter", "diff"):
                    if span == 0:
                        continue
                    tag, ol = pick_other(rng, span)
                    ops.append((name, (tag, [min(span - 1, x) for x in ol])))
                elif name in ("before", "after"):
                    ops.append((name, rng.randrange(-1, limit + 2)))
                elif name == "invert":
                    ops.append((name, rng.randrange(limit + 2)))
                else:
                    ops.append((name,))
            cases.append(dict(kind="rev", init=((ik, l), limit), ops=ops, e2e=not outside))
        else:
            parts, off = [], 0
            for _ in range(rng.choice((1, 2, 3, 4))):
                gap = rng.choice((0, 1, 8, 9, 20))
                l = sorted(set(x for x in pick_list(rng, max(1, gap)) if x < gap))
                parts.append(((rng.choice(("bits", "sorted")), l), off))
                off += gap
            ops = []
            for _ in range(nops):
                name = rng.choice(("contains", "contains", "contains", "iter", "len") * 3 +
                                  ("first", "last", "before", "after", "copy", "union", "inter", "diff", "invert"))
                if name == "contains":
                    ops.append((name, rng.randrange(off + 3)))
                elif name in ("before", "after"):
                    ops.append((name, rng.randrange(-1, off + 2)))
                elif name in ("union", "inter", "diff"):
                    ops.append((name, pick_other(rng, off + 3)))
                elif name == "invert":
                    ops.append((name, rng.randrange(off + 3)))
                else:
                    ops.append((name,))
            cases.append(dict(kind="multi", init=parts, ops=ops))
    return cases


def check_cases(ctx, cases, parallel=False):
    results = ctx.pmap(run_case, cases, chunksize=64) if parallel else [run_case(c) for c in cases]
    ok = [r for r in results if r["init_exc"] is None]
    for r in results:
        if r["init_exc"] is not None:
            ctx.violation("%s.__init__:raises-%s" % (CLS[r["case"]["kind"]], r["init_exc"][4:]),
                          {"case": r["case"], "op": None}, "constructed", r["init_exc"], "constructor raised")
    mouts = ctx.driver.ask([model_line(r) for r in ok])
    souts = ctx.driver.ask([spec_line(r) for r in ok])
    for r, mo, so in zip(ok, mouts, souts):
        case = r["case"]
        kind = case["kind"]
        if mo == "bad-op" or so == "bad-op":
            raise RuntimeError("driver rejected %r" % (model_line(r),))
        mobs = [flat(x) for x in parse_sexp(mo)[0]]
        sobs = [flat(x) for x in parse_sexp(so)[0]]
        pobs = pyset_transcript(case, r["mops"])
        if sobs != pobs:
            ctx.divergence("Spec.IdSet-vs-python-set", case, sobs, pobs)
        changed = False
        answered = False
        prev = None
        for op, raw, setlv, m, s in zip(r["mops"], r["raw"], r["setlv"], mobs, sobs):
            ctx.stat("idset-op:%s.%s" % (kind, op[0]))
            if raw.startswith("err-"):
                ctx.stat("idset-err:%s.%s:%s" % (kind, op[0], raw))
            if raw != m:
                ctx.divergence("idsets.%s.%s" % (CLS[kind], METH.get(op[0], op[0])),
                               {"case": case, "op": op}, m, raw)
            if setlv != s and case.get("e2e", True):
                ctx.violation(classify(case, op, s, setlv), {"case": case, "op": op}, s, setlv,
                              "%s.%s disagrees with the set operation" % (CLS[kind], METH.get(op[0], op[0])))
                if setlv != "err-notimpl":
                    break  # implementation and specification are in different states from here on
            elif setlv != s:
                # ids >= limit: outside the documented domain, model <-> code only (rev_*_out_of_range)
                ctx.stat("idset-outside-domain:%s.%s" % (kind, op[0]))
            if op[0] in ("add", "discard", "update", "iupd", "dupd", "invupd") and prev is not None and s != prev:
                changed = True
            if op[0] in ("add", "discard", "update", "iupd", "dupd", "invupd", "clear"):
                prev = s
            if op[0] in ("first", "last", "before", "after") and s != "none":
                answered = True
            if op[0] in ("union", "inter", "diff", "invert", "iter") and s != "()":
                answered = True
            if op[0] == "contains" and s == "1":
                answered = True
        ctx.case(("idset", kind, sexp(case["init"]), sexp(r["mops"])), nontrivial=answered and (changed or kind in ("ondisk", "multi")))
    if ok:
        ctx.sample({"idset-program": model_line(ok[0]), "model": mouts[0], "spec": souts[0]})


# ------------------------------------------------------------------------------------------------
# programs over a pool of named sets (results of binary ops fed back as operands on either side)

BINM = {"union": "union", "inter": "intersection", "diff": "difference"}
UPDM = {"union": "update", "inter": "intersection_update", "diff": "difference_update"}
ON_KINDS = ["add", "add", "discard", "clear", "invupd", "contains", "contains", "iter", "len", "bool", "first",
            "last", "before", "after", "invert", "copy"]


def gen_reg(rng, U, bias_bits=0.75):
    r = rng.random()
    if r < bias_bits * 0.6:
        nb = rng.choice((0, 0, 0, 1, 1, 2, 3, 5, 9))
        bs = bytearray(rng.choice((0, 0, 1, 128, 255, rng.randrange(256))) for _ in range(nb))
        if nb and rng.random() < 0.3:
            bs[-1] = 0          # an untrimmed array
        return ("bits", bytes(bs).hex())
    if r < bias_bits:
        return ("src", pick_list(rng, U), 1, rng.choice((0, 0, 0, 1, 8, U, U + 9)))
    return ("sorted", sorted(set(pick_list(rng, U))))


def gen_pool_case(rng):
    U = pick_universe(rng)
    allbits = rng.random() < 0.6
    nreg = rng.choice((2, 3, 3, 4, 5))
    regs = [gen_reg(rng, U, 1.0 if allbits else 0.6) for _ in range(nreg)]
    ops = []
    for _ in range(rng.choice((4, 8, 12, 20, 30))):
        r = rng.random()
        a, b, dst = rng.randrange(nreg), rng.randrange(nreg), rng.randrange(nreg)
        if r < 0.35:
            ops.append(("bin", rng.choice(("union", "union", "inter", "diff", "inter")), dst, a, b,
                        rng.choice(("m", "o"))))
        elif r < 0.55:
            ops.append(("upd", rng.choice(("union", "union", "inter", "diff", "inter")), a, b))
        elif r < 0.88:
            ops.append(("on", a, gen_ops(rng, U, 1, kinds=ON_KINDS)[0]))
        elif r < 0.90:
            ops.append(("inv", dst, a, rng.choice((0, 1, 8, 9, U, U + 1, 2 * U + 3, rng.randrange(U + 20)))))
        elif r < 0.93:
            ops.append(("disk", a, rng.choice((0, 1, 5))))
        elif r < 0.95:
            ops.append(("cp", dst, a))
        else:
            ops.append(("load", dst, gen_reg(rng, U, 1.0 if allbits else 0.6)))
    return dict(kind="pool", regs=regs, ops=ops)


def mk_reg(reg):
    from whoosh.idsets import BitSet, SortedIntSet
    if reg[0] == "bits":
        return BitSet.from_bytes(bytes.fromhex(reg[1]))
    if reg[0] == "src":
        _, l, sized, size = reg
        return BitSet(list(l), size=size) if size else BitSet(list(l))
    return SortedIntSet(list(reg[1]))


def reg_members(reg):
    if reg[0] == "bits":
        bs = bytes.fromhex(reg[1])
        return [i for i in range(len(bs) * 8) if bs[i >> 3] >> (i & 7) & 1]
    return list(reg[1])


def reg_kind(obj):
    return "bitset" if hasattr(obj, "bits") else "sorted"


def run_pool_case(case):
    """Worker: one pool program on the real classes -> per op (raw, set-level, class of the receiver,
    facts about the right-hand operand)."""
    try:
        regs = [mk_reg(r) for r in case["regs"]]
    except Exception as e:  # noqa
        return dict(case=case, init_exc=_exc(e), obs=[])
    fresh = [True] * len(regs)      # register still holds a constructor result (never a result of a binary op)
    obs = []
    for op in case["ops"]:
        name = op[0]
        info = {}
        kind = None
        try:
            if name == "bin":
                _, o, dst, a, b, form = op
                x, y = regs[a], regs[b]
                kind = reg_kind(x)
                info = _operand_facts(x, y, fresh[b])
                if form == "o":
                    res = {"union": lambda: x | y, "inter": lambda: x & y, "diff": lambda: x - y}[o]()
                else:
                    res = getattr(x, BINM[o])(y)
                regs[dst] = res
                fresh[dst] = False
                obs.append((_raw(res), fl([v for v in res]), kind, info))
            elif name == "upd":
                _, o, a, b = op
                x, y = regs[a], regs[b]
                kind = reg_kind(x)
                info = _operand_facts(x, y, fresh[b])
                getattr(x, UPDM[o])(y)
                fresh[a] = False
                obs.append((_raw(x), fl([v for v in x]), kind, info))
            elif name == "on":
                x = regs[op[1]]
                kind = reg_kind(x)
                r, s_, _m = apply_real(x, op[2])
                obs.append((r, s_, kind, info))
            elif name == "inv":
                _, dst, a, n = op
                kind = reg_kind(regs[a])
                res = regs[a].invert(n)
                regs[dst] = res
                obs.append((_raw(res), fl([v for v in res]), kind, info))
            elif name == "disk":
                _, a, npre = op
                x = regs[a]
                kind = reg_kind(x)
                if kind != "bitset":
                    obs.append(("err-index", fl([v for v in x]), kind, info))
                    continue
                from whoosh.filedb.filestore import RamStorage
                from whoosh.idsets import BitSet, OnDiskBitSet
                st = RamStorage()
                f = st.create_file("bits")
                f.write(b"\x07" * npre)
                count = x.to_disk(f)
                f.write(b"\x01\x02")
                f.close()
                rf = st.open_file("bits")
                rf.seek(npre)
                back = BitSet.from_disk(rf, count)
                od = OnDiskBitSet(st.open_file("bits"), npre, count)
                members = [v for v in od]
                same = (fl(back.bits) == fl(x.bits) and len(od) == len(x) and od.first() == x.first()
                        and od.last() == x.last() and bool(od) == bool(x))
                obs.append((fl(back.bits) if same else "ondisk-differs", fl(members), kind, info))
            elif name == "cp":
                _, dst, a = op
                kind = reg_kind(regs[a])
                res = regs[a].copy()
                regs[dst] = res
                fresh[dst] = fresh[a]
                obs.append((_raw(res), fl([v for v in res]), kind, info))
            elif name == "load":
                _, dst, reg = op
                res = mk_reg(reg)
                kind = reg_kind(res)
                regs[dst] = res
                fresh[dst] = True
                obs.append((_raw(res), fl([v for v in res]), kind, info))
            else:
                raise AssertionError(name)
        except Exception as e:  # noqa
            x = _exc(e)
            obs.append((x, x, kind or "bitset", info))
    return dict(case=case, init_exc=None, obs=obs)


def _operand_facts(x, y, yfresh):
    """measured, for the statistics and the non-triviality rule (byte lengths are part of the raw
    state the correspondence stream compares anyway)"""
    info = {"fedback": not yfresh}
    if hasattr(x, "bits") and hasattr(y, "bits"):
        lx, ly = len(x.bits), len(y.bits)
        info["bb"] = True
        info["rzero"] = ly == 0
        info["lzero"] = lx == 0
        info["mismatch"] = lx != ly
        info["rzero-left-nonempty"] = ly == 0 and any(x.bits)
    return info


def _pool_op_text(op, spec=False):
    name = op[0]
    if name == "bin":
        return "(bin %s %d %d %d)" % (op[1], op[2], op[3], op[4])
    if name == "upd":
        return "(upd %s %d %d)" % (op[1], op[2], op[3])
    if name == "on":
        return "(on %d %s)" % (op[1], sexp(op[2]))
    if name == "inv":
        return "(inv %d %d %d)" % (op[1], op[2], op[3])
    if name == "disk":
        return "(disk %d %d)" % (op[1], op[2])
    if name == "cp":
        return "(cp %d %d)" % (op[1], op[2])
    if name == "load":
        return "(load %d %s)" % (op[1], fl(reg_members(op[2])) if spec else _reg_text(op[2]))
    raise AssertionError(name)


def _reg_text(reg):
    if reg[0] == "bits":
        return "(bits %s)" % (reg[1] or "-")
    if reg[0] == "src":
        return "(src %s %d %d)" % (fl(reg[1]), int(bool(reg[2])), reg[3])
    return "(sorted %s)" % fl(reg[1])


def pool_model_line(case):
    return "c20 idset pool (%s) %s" % (" ".join(_reg_text(r) for r in case["regs"]),
                                       " ".join(_pool_op_text(op) for op in case["ops"]))


def pool_spec_line(case):
    return "c20 idset spool (%s) %s" % (" ".join(fl(reg_members(r)) for r in case["regs"]),
                                        " ".join(_pool_op_text(op, spec=True) for op in case["ops"]))


def pool_pyset(case):
    """the same program on Python sets (sanity check of the Lean pool specification)"""
    regs = [set(reg_members(r)) for r in case["regs"]]
    out = []
    for op in case["ops"]:
        name = op[0]
        if name in ("bin", "upd"):
            if name == "bin":
                _, o, dst, a, b = op[:5]
            else:
                _, o, a, b = op
                dst = a
            x, y = regs[a], regs[b]
            regs[dst] = {"union": x | y, "inter": x & y, "diff": x - y}[o]
            out.append(fl(sorted(regs[dst])))
        elif name == "on":
            a = op[1]
            sub = dict(kind="sorted", init=sorted(regs[a]))
            out.append(pyset_transcript(sub, [op[2]])[0])
            n = op[2][0]
            if n == "add":
                regs[a] = regs[a] | {op[2][1]}
            elif n == "discard":
                regs[a] = regs[a] - {op[2][1]}
            elif n == "clear":
                regs[a] = set()
            elif n == "invupd":
                regs[a] = set(range(op[2][1])) - regs[a]
        elif name == "inv":
            regs[op[1]] = set(range(op[3])) - regs[op[2]]
            out.append(fl(sorted(regs[op[1]])))
        elif name == "disk":
            out.append(fl(sorted(regs[op[1]])))
        elif name == "cp":
            regs[op[1]] = set(regs[op[2]])
            out.append(fl(sorted(regs[op[1]])))
        elif name == "load":
            regs[op[1]] = set(reg_members(op[2]))
            out.append(fl(sorted(regs[op[1]])))
    return out


def _pool_meth(op):
    name = op[0]
    if name == "bin":
        return (op[1], None)
    if name == "upd":
        return ({"union": "update", "inter": "iupd", "diff": "dupd"}[op[1]], None)
    if name == "on":
        return op[2]
    if name == "inv":
        return ("invert", op[3])
    if name == "cp":
        return ("copy",)
    if name == "disk":
        return ("to_disk/OnDiskBitSet",)
    return ("load",)


def check_pool_cases(ctx, cases, parallel=False):
    results = ctx.pmap(run_pool_case, cases, chunksize=64) if parallel else [run_pool_case(c) for c in cases]
    ok = []
    for r in results:
        if r["init_exc"] is not None:
            ctx.violation("BitSet/SortedIntSet.__init__:raises-%s" % r["init_exc"][4:],
                          {"case": r["case"], "op": None}, "constructed", r["init_exc"], "constructor raised")
        else:
            ok.append(r)
    mouts = ctx.driver.ask([pool_model_line(r["case"]) for r in ok])
    souts = ctx.driver.ask([pool_spec_line(r["case"]) for r in ok])
    for r, mo, so in zip(ok, mouts, souts):
        case = r["case"]
        if mo == "bad-op" or so == "bad-op":
            raise RuntimeError("driver rejected %r" % (pool_model_line(case),))
        mobs = [flat(x) for x in parse_sexp(mo)[0]]
        sobs = [flat(x) for x in parse_sexp(so)[0]]
        pobs = pool_pyset(case)
        if sobs != pobs:
            ctx.divergence("Spec.IdSet.SPool-vs-python-set", case, sobs, pobs)
        fedback = answered = False
        for op, (raw, setlv, kind, info), m, s in zip(case["ops"], r["obs"], mobs, sobs):
            mop = _pool_meth(op)
            ctx.stat("pool-op:%s.%s" % (kind, op[0] if op[0] != "on" else "on-" + mop[0]))
            if op[0] == "bin":
                ctx.stat("pool-bin-form:%s" % ("operator" if op[5] == "o" else "method"))
            if info.get("bb"):
                ctx.stat("pool-bitset-bitset:%s" % op[1])
                for k in ("rzero", "lzero", "mismatch", "fedback", "rzero-left-nonempty"):
                    if info.get(k):
                        ctx.stat("pool-bitset-bitset:%s:%s" % (op[1], k))
            if info.get("fedback") and s != "()":
                fedback = True
            if raw.startswith("err-"):
                ctx.stat("pool-err:%s.%s:%s" % (kind, mop[0], raw))
            if raw != m:
                ctx.divergence("idsets.%s.%s" % (CLS[kind], METH.get(mop[0], mop[0])),
                               {"case": case, "op": op}, m, raw)
            if setlv != s:
                ctx.violation(classify({"kind": kind}, mop, s, setlv), {"case": case, "op": op}, s, setlv,
                              "%s.%s disagrees with the set operation (pool program)"
                              % (CLS[kind], METH.get(mop[0], mop[0])))
                break   # implementation and specification are in different states from here on
            if s not in ("()", "none", "0"):
                answered = True
        ctx.case(("idset-pool", sexp(case["regs"]), sexp(case["ops"])), nontrivial=fedback and answered)
    if ok:
        ctx.sample({"idset-pool-program": pool_model_line(ok[0]["case"]), "model": mouts[0], "spec": souts[0]})


def _tuplify(x):
    return tuple(_tuplify(y) for y in x) if isinstance(x, list) else x


def replay_case(ctx, stored):
    """`stored` = the `case` field of a replay record: {"case": program, "op": failing op}"""
    case = dict(stored["case"])
    case["ops"] = [_tuplify(op) for op in case["ops"]]
    if case["kind"] == "pool":
        case["regs"] = [_tuplify(r) for r in case["regs"]]
        check_pool_cases(ctx, [case])
        return
    case["init"] = _tuplify(case["init"])
    check_cases(ctx, [case])


def run(ctx):
    n = ctx.budget(12000, 150000)
    cases = gen_cases(ctx, n)
    check_cases(ctx, cases, parallel=n > 20000)
    npool = ctx.budget(5000, 60000)
    prng = ctx.rng("idsets-pool")
    check_pool_cases(ctx, [gen_pool_case(prng) for _ in range(npool)], parallel=npool > 20000)
