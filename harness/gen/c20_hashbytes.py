"""C20 / byte level: `StructFile` number/string writers and readers against `WM.StructFile`
(pack/unpack/readNum/getNum/writeString/readString), and whole hash files against `WM.HashBytes`:
the bytes `fileBytes` lays out are compared with the bytes the real `HashWriter`/`OrderedHashWriter`
wrote (the pickled extras region is passed through as an opaque blob), and the model reader
(`openReader`, `allBytes`, `items`) is run on the bytes of the *real* file and compared with the
real `HashReader` (hash type, start/end of data, directory, `all(k)`, `items()`)."""
import struct

from vcheck import sexp, parse_sexp
from gen import c20_hash

# StructFile method suffix per typecode
WRITERS = {"b": "sbyte", "B": "byte", "H": "ushort", "i": "int", "I": "uint", "q": "long", "Q": "ulong"}
READERS = {"b": "sbyte", "B": "byte", "H": "ushort", "i": "int", "I": "uint", "q": "long", "Q": "ulong"}
BITS = {"b": 8, "B": 8, "H": 16, "i": 32, "I": 32, "q": 64, "Q": 64}


def hx(b):
    return bytes(b).hex() or "-"


def unhx(s):
    return b"" if s == "-" else bytes.fromhex(s)


def _struct_stream(ctx):
    from whoosh.filedb.filestore import RamStorage
    rng = ctx.rng("structfile")
    items = []
    for tc, bits in BITS.items():
        vals = set()
        for k in (0, 7, 8, 15, 16, 31, 32, 63, 64):
            for d in (-2, -1, 0, 1):
                vals.add((1 << k) + d)
                vals.add(-(1 << k) + d)
        vals.update(rng.randrange(-(1 << bits), 1 << bits) for _ in range(ctx.budget(30, 400)))
        vals.update((0, 1, -1, 255, 256))
        for v in sorted(vals):
            items.append((tc, v))
    st = RamStorage()
    real = []
    for tc, v in items:
        f = st.create_file("s")
        try:
            getattr(f, "write_" + WRITERS[tc])(v)
            err = None
        except struct.error:
            err = "err-struct"
        except Exception as e:  # noqa  (write_byte(-1) etc.: anything else is reported as is)
            err = "err-" + type(e).__name__
        f.write(b"\x7f\x01")
        f.close()
        data = st.open_file("s").read()
        if err is None:
            rf = st.open_file("s")
            back = getattr(rf, "read_" + READERS[tc])()
            rest = rf.read()
            rf.close()
            rf = st.open_file("s")
            got = getattr(rf, "get_" + READERS[tc])(0)
            rf.close()
            real.append((data[:-2], back, rest, got))
        else:
            real.append((err, None, None, None))
    lines = ["c20 struct pack %s %d" % (tc, v) for tc, v in items]
    outs = ctx.driver.ask(lines)
    lines2, idx = [], []
    for i, ((tc, v), r) in enumerate(zip(items, real)):
        if r[1] is not None:
            lines2.append("c20 struct read %s %s" % (tc, hx(r[0] + b"\x7f\x01")))
            lines2.append("c20 struct get %s %s 3" % (tc, hx(b"abc" + r[0] + b"\x7f")))
            idx.append(i)
    outs2 = ctx.driver.ask(lines2)
    for (tc, v), r, mo in zip(items, real, outs):
        inside = -(1 << (BITS[tc] - 1)) <= v < (1 << (BITS[tc] - 1)) if tc in "biq" else 0 <= v < (1 << BITS[tc])
        ctx.case(("struct", tc, v), nontrivial=inside and abs(v) > 255)
        ctx.stat("struct:%s:%s" % (tc, "ok" if r[1] is not None else r[0]))
        impl = hx(r[0]) if r[1] is not None else r[0]
        if impl != mo:
            ctx.divergence("structfile.StructFile.write_%s" % WRITERS[tc], [tc, v], mo, impl)
        if r[1] is not None and (r[1] != v or r[2] != b"\x7f\x01" or r[3] != v):
            ctx.violation("StructFile.write_%s/read_%s:roundtrip" % (WRITERS[tc], READERS[tc]), [tc, v],
                          [v, "7f01"], [r[1], hx(r[2]), r[3]], "a written number is not read back")
        if r[1] is None and inside:
            ctx.violation("StructFile.write_%s:rejects-number-inside-format" % WRITERS[tc], [tc, v], "written", r[0],
                          "struct.pack rejected a number inside the format")
        if r[1] is not None and not inside:
            ctx.violation("StructFile.write_%s:accepts-number-outside-format" % WRITERS[tc], [tc, v], "struct.error",
                          hx(r[0]), "a number outside the format was written (truncated)")
    for j, i in enumerate(idx):
        tc, v = items[i]
        if outs2[2 * j] != "%d 7f01" % v:
            ctx.divergence("structfile.StructFile.read_%s" % READERS[tc], [tc, v], outs2[2 * j], "%d 7f01" % v)
        if outs2[2 * j + 1] != "%d" % v:
            ctx.divergence("structfile.StructFile.get_%s" % READERS[tc], [tc, v], outs2[2 * j + 1], "%d" % v)
    # strings: write_string / read_string (varint length prefix), lengths across 127/128, 16383/16384
    strs = []
    for n in (0, 1, 2, 126, 127, 128, 129, 255, 256, 16383, 16384, 16385) + tuple(rng.randrange(0, 400) for _ in range(ctx.budget(20, 200))):
        strs.append(bytes(rng.randrange(256) for _ in range(min(n, 16))) + b"\x00" * max(0, n - 16))
    souts = ctx.driver.ask(["c20 struct string %s 0102" % hx(s) for s in strs])
    for s, mo in zip(strs, souts):
        f = st.create_file("s")
        f.write_string(s)
        f.write(b"\x01\x02")
        f.close()
        data = st.open_file("s").read()
        rf = st.open_file("s")
        back = rf.read_string()
        rest = rf.read()
        rf.close()
        ctx.case(("struct-string", len(s), s[:16]), nontrivial=len(s) > 127)
        impl = "%s %s %s" % (hx(data[:-2]), hx(back), hx(rest))
        if impl != mo:
            ctx.divergence("structfile.StructFile.write_string/read_string", len(s), mo[:80], impl[:80])
        if back != s or rest != b"\x01\x02":
            ctx.violation("StructFile.write_string/read_string:roundtrip", len(s), len(s), len(back),
                          "a written string is not read back")


# ------------------------------------------------------------------------------------------------

def gen_case(rng):
    ordered = rng.random() < 0.4
    n = rng.choice((0, 1, 2, 3, 5, 8, 13, 30, 60))
    hname = rng.choice(["md5", "crc", "cdb", "const", "w2x2", "w3x1", "w1x5", "big"])
    if ordered and hname in ("crc", "cdb"):
        hname = "md5"
    pre = bytes(rng.randrange(256) for _ in range(rng.choice((0, 0, 1, 3, 17, 300))))
    pairs = c20_hash.gen_pairs(rng, n, ordered)
    pairs = [(k, v[:300]) for k, v in pairs]
    probes = [k for k, _ in pairs[:20]] + [bytes(rng.randrange(256) for _ in range(rng.randrange(0, 4))) for _ in range(4)]
    if pairs:
        probes += [rng.choice(pairs)[0] + b"\x00", rng.choice(pairs)[0][:-1]]
    return dict(ordered=ordered, hname=hname, pre=pre, pairs=pairs, probes=list(dict.fromkeys(probes)),
                seed=rng.getrandbits(32))


def run_case(case):
    from whoosh.filedb import filetables as ft
    from whoosh.filedb.filestore import RamStorage
    hname, pre, pairs = case["hname"], case["pre"], case["pairs"]
    custom = c20_hash.HASHES[hname]
    hashtype = {"md5": 0, "crc": 1, "cdb": 2}.get(hname, 0)
    out = dict(case=case)
    try:
        st = RamStorage()
        f = st.create_file("h")
        f.write(pre)
        so = len(pre)
        w = ft.OrderedHashWriter(f) if case["ordered"] else ft.HashWriter(f, hashtype=hashtype)
        if custom is not None:
            w.hashfn = custom
        hashfn = w.hashfn
        for k, v in pairs:
            w.add(k, v)
        endpos = w.close()
        data = st.open_file("h").read()
        exlen = struct.unpack("!i", data[-4:])[0]
        extras = data[len(data) - 4 - exlen:len(data) - 4]
        rd = st.open_file("h")
        cls = ft.OrderedHashReader if case["ordered"] else ft.HashReader
        r = cls(rd, startoffset=so) if case["seed"] % 2 else cls(rd, length=endpos - so, startoffset=so)
        if custom is not None:
            r.hashfn = custom
        out.update(data=data, extras=extras, endpos=endpos, hashtype=r.hashtype, startofdata=r.startofdata,
                   endofdata=r.endofdata, tables=[(int(p), int(n)) for p, n in r.tables],
                   look=[[bytes(v) for v in r.all(k)] for k in case["probes"]],
                   items=[(bytes(k), bytes(v)) for k, v in r.items()],
                   hashes={k: hashfn(k) for k in set([k for k, _ in pairs] + case["probes"])},
                   real_hashtype=hashtype)
        r.close()
    except Exception as e:  # noqa
        import traceback
        out["crash"] = "%s: %s" % (type(e).__name__, traceback.format_exc(limit=3))
    return out


def model_line(res):
    case = res["case"]
    hs = res["hashes"]
    kvs = " ".join("(%s %d %s)" % (hx(k), hs[k], hx(v)) for k, v in case["pairs"])
    looks = " ".join("(%s %d)" % (hx(k), hs[k]) for k in case["probes"])
    return "c20 hashbytes %d %d %s %s %s (%s) (%s)" % (int(case["ordered"]), res["real_hashtype"], hx(case["pre"]),
                                                      hx(res["extras"]), hx(res["data"]), kvs, looks)


def _brief(case):
    return {"ordered": case["ordered"], "hash": case["hname"], "pre": len(case["pre"]),
            "pairs": [(k.hex(), len(v)) for k, v in case["pairs"][:40]], "npairs": len(case["pairs"])}


def run(ctx):
    _struct_stream(ctx)
    rng = ctx.rng("hashbytes")
    n = ctx.budget(700, 5000)
    cases = [gen_case(rng) for _ in range(n)]
    results = ctx.pmap(run_case, cases, chunksize=8)
    good = []
    for res in results:
        case = res["case"]
        ctx.stat("hashbytes-case:%s:%s" % ("ordered" if case["ordered"] else "plain", case["hname"]))
        ctx.stat("hashbytes-pre:%d" % len(case["pre"]))
        if "crash" in res:
            ctx.violation("HashWriter/HashReader:raises-%s" % res["crash"].split(":")[0], _brief(case), "no exception",
                          res["crash"], "writer or reader raised")
            continue
        good.append(res)
    outs = c20_hash.ask_parallel(ctx, [model_line(r) for r in good])
    for res, mo in zip(good, outs):
        case = res["case"]
        keys = [k for k, _ in case["pairs"]]
        ukeys = set(keys)
        collide = len(set(res["hashes"][k] & 255 for k in ukeys)) < len(ukeys)
        ctx.case(("hashbytes", case["ordered"], case["hname"], case["pre"], tuple(case["pairs"])),
                 nontrivial=len(case["pairs"]) >= 2 and (collide or len(ukeys) < len(keys)))
        if mo == "bad-op":
            raise RuntimeError("driver rejected a hashbytes request")
        parsed = parse_sexp(mo)
        comp = "filetables.%s" % ("OrderedHashWriter" if case["ordered"] else "HashWriter")
        written = parsed[0]
        if isinstance(written, str) and written.startswith("err-"):
            ctx.divergence(comp + "(bytes)", _brief(case), written, "file written")
            continue
        mdata = unhx(written)
        if mdata != res["data"]:
            i = next((j for j, (a, b) in enumerate(zip(mdata, res["data"])) if a != b), min(len(mdata), len(res["data"])))
            ctx.divergence(comp + "(file bytes)", dict(_brief(case), first_difference_at=i),
                           [len(mdata), mdata[max(0, i - 4):i + 12].hex()], [len(res["data"]), res["data"][max(0, i - 4):i + 12].hex()])
        if len(parsed) < 5:
            ctx.divergence("filetables.HashReader.__init__(bytes)", _brief(case), parsed[1:], "opened")
            continue
        head, mdir, mlooks, mitems = parsed[1], parsed[2], parsed[3], parsed[4]
        so = len(case["pre"])
        exlen = len(res["extras"])
        want_head = [res["hashtype"], res["startofdata"], res["endofdata"], len(res["data"]) - 4 - exlen, exlen]
        if [int(x) for x in head] != want_head:
            ctx.divergence("filetables.HashReader.__init__(header,extras)", _brief(case), head, want_head)
        want_dir = [(b, p, nn) for b, (p, nn) in enumerate(res["tables"]) if nn]
        if [tuple(int(x) for x in t) for t in mdir] != want_dir:
            ctx.divergence("filetables.HashReader.__init__(directory)", _brief(case), mdir[:4], want_dir[:4])
        for k, ml, got in zip(case["probes"], mlooks, res["look"]):
            exp = [v for k2, v in case["pairs"] if k2 == k]
            mv = ml if isinstance(ml, str) else [unhx(x) for x in ml]
            if mv != got:
                ctx.divergence("filetables.HashReader.ranges_for_key/all(bytes)", dict(_brief(case), key=k.hex()),
                               ml if isinstance(ml, str) else [x[:16] for x in ml], [v[:8].hex() for v in got])
            if got != exp:
                ctx.violation("HashReader.all(k)!=values-written-under-k:%s" % ("ordered" if case["ordered"] else "plain"),
                              dict(_brief(case), key=k.hex()), [v[:8].hex() for v in exp], [v[:8].hex() for v in got],
                              "all(key) differs from the values written under the key, in order")
        mi = mitems if isinstance(mitems, str) else [(unhx(a), unhx(b)) for a, b in mitems]
        if mi != res["items"]:
            ctx.divergence("filetables.HashReader._ranges/items(bytes)", _brief(case), len(mi), len(res["items"]))
        if res["items"] != case["pairs"]:
            ctx.violation("HashReader.items/keys/values!=written-pairs", _brief(case), len(case["pairs"]), len(res["items"]),
                          "iteration does not return the pairs in insertion order")
    if good:
        small = min(good, key=lambda r: abs(len(r["case"]["pairs"]) - 2) + len(r["case"]["pre"]))
        ctx.sample({"hash-file-bytes": _brief(small["case"]), "real": small["data"].hex()[:600]})
