"""Helpers of the C19 check: word domains, real-whoosh runners (top-level, so that they can be
used with ctx.pmap), canonical forms.  Words travel as tuples/lists of code points."""
import itertools
import warnings

warnings.simplefilter("ignore")

FIELD = "f"


def words_upto(alpha, n):
    """All words over `alpha` of length <= n, shortest first, then alphabetical."""
    out = []
    for k in range(n + 1):
        out.extend("".join(x) for x in itertools.product(alpha, repeat=k))
    return out


def cps(s):
    return [ord(c) for c in s]


def uncps(xs):
    return "".join(chr(int(x)) for x in xs)


def sx_word(s):
    return "(" + " ".join(str(ord(c)) for c in s) + ")"


def sx_words(ws):
    return "(" + " ".join(sx_word(w) for w in ws) + ")"


def sx_nats(ns):
    return "(" + " ".join(str(n) for n in ns) + ")"


def parse_words(tree):
    """parse_sexp output (nested lists of strings) for a list of words -> list of str"""
    return [uncps(w) for w in tree]


def utf8_sorted(ws):
    """The order of a whoosh term list: by UTF-8 bytes (= by code point)."""
    return sorted(set(ws), key=lambda w: w.encode("utf8"))


# ------------------------------------------------------------------------------------------------
# real whoosh

def build_index(segs):
    """segs: list of segments, a segment is a list of documents, a document is a list of terms
    (KEYWORD field, whitespace is never part of a term here) -- or a plain string for a single
    term that may contain anything (ID field semantics are the same for our purposes, but the
    ID analyzer keeps the value verbatim, incl. the empty string)."""
    from whoosh import fields
    from whoosh.filedb.filestore import RamStorage
    _private_tmp()
    schema = fields.Schema(f=fields.ID(stored=True), n=fields.STORED)
    st = RamStorage()
    ix = st.create_index(schema)
    n = 0
    for seg in segs:
        w = ix.writer()
        for term in seg:
            w.add_document(f=term, n=n)
            n += 1
        w.commit(merge=False)
    return ix


def _private_tmp():
    """RamStorage writers spill into <tempdir>/MAIN.tmp, a path shared by every process on the
    machine; give each process its own temp dir under the check's scratch directory."""
    import os
    import tempfile
    base = os.environ.get("VERIF_C19_TMP")
    if base:
        d = os.path.join(base, "p%d" % os.getpid())
        os.makedirs(d, exist_ok=True)
        tempfile.tempdir = d


def exc_name(e):
    return "EXC:" + type(e).__name__


def real_terms_within(reader, w, d, p):
    try:
        return list(reader.terms_within(FIELD, w, d, prefix=p))
    except Exception as e:  # noqa
        return exc_name(e)


def real_fuzzy_docs(searcher, w, d, p):
    from whoosh import query
    try:
        q = query.FuzzyTerm(FIELD, w, maxdist=d, prefixlength=p)
        return sorted(hit["n"] for hit in searcher.search(q, limit=None))
    except Exception as e:  # noqa
        return exc_name(e)


def real_suggest(searcher, w, limit, d, p):
    try:
        return list(searcher.suggest(FIELD, w, limit=limit, maxdist=d, prefix=p))
    except Exception as e:  # noqa
        return exc_name(e)


_IX_CACHE = {}


def cached_index(key, segs):
    ix = _IX_CACHE.get(key)
    if ix is None:
        ix = _IX_CACHE[key] = build_index(segs)
    return ix


def run_index_unit(unit):
    """unit = (key, segs, queries, want) with queries = [(w, [d...], [p...])], want a set of
    {"tw", "fuzzy", "suggest"}; suggest uses limits given in unit[4].
    Returns {"reader": class name, "tw": {(w,d,p): ...}, "fuzzy": {...}, "suggest": {(w,limit,d,p): ...}}"""
    key, segs, queries, want, limits = unit
    ix = cached_index(key, segs)
    out = {"tw": {}, "fuzzy": {}, "suggest": {}}
    with ix.searcher() as s:
        r = s.reader()
        out["reader"] = type(r).__name__
        for w, ds, ps in queries:
            for d in ds:
                for p in ps:
                    if "tw" in want:
                        out["tw"][(w, d, p)] = real_terms_within(r, w, d, p)
                    if "fuzzy" in want:
                        out["fuzzy"][(w, d, p)] = real_fuzzy_docs(s, w, d, p)
                    if "suggest" in want:
                        for lim in limits:
                            out["suggest"][(w, lim, d, p)] = real_suggest(s, w, lim, d, p)
    return out


def run_dp_unit(unit):
    """unit = (list of (a, b), limits) -> list of (lev results per limit, osa results per limit)"""
    from whoosh.support.levenshtein import levenshtein, damerau_levenshtein
    pairs, limits = unit
    res = []
    for a, b in pairs:
        row = []
        for fn in (levenshtein, damerau_levenshtein):
            r = []
            for lim in limits:
                try:
                    r.append(fn(a, b, limit=lim))
                except Exception as e:  # noqa
                    r.append(exc_name(e))
            row.append(r)
        res.append(row)
    return res


def canon_sset(s):
    return tuple(sorted(s))


def real_dfa_dump(dfa):
    """Canonical dump of a real DFA: (initial, {(src,label):dest}, {src:dest}, finals)."""
    trans = {}
    for src, m in dfa.transitions.items():
        for label, dest in m.items():
            trans[(canon_sset(src), ord(label))] = canon_sset(dest)
    defaults = {canon_sset(k): canon_sset(v) for k, v in dfa.defaults.items()}
    finals = set(canon_sset(f) for f in dfa.final_states)
    return canon_sset(dfa.initial), trans, defaults, finals


def run_automaton_unit(unit):
    """unit = (w, ks, ps, probe_words) -> {(k,p): (nfa_accepts, dfa_accepts, nvs, dump) | EXC}"""
    from whoosh.automata import lev
    w, ks, ps, probes = unit
    out = {}
    for k in ks:
        for p in ps:
            try:
                nfa = lev.levenshtein_automaton(w, k, p)
                dfa = nfa.to_dfa()
                na = [bool(nfa.accept(u)) for u in probes]
                da = [bool(dfa.accept(u)) for u in probes]
                nv = [dfa.next_valid_string(u) for u in probes]
                out[(k, p)] = (na, da, nv, real_dfa_dump(dfa))
            except Exception as e:  # noqa
                out[(k, p)] = exc_name(e)
    return out
