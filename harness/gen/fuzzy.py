"""Helpers of the C19 check: word domains, real-whoosh runners (top-level, so that they can be
used with ctx.pmap), canonical forms.  Words travel as tuples/lists of code points."""
import itertools
import warnings

warnings.simplefilter("ignore")

FIELD = "f"


def words_upto(alpha, n):
    """All words over `alpha` of length <= n, shortest first, then alphabetical."""
    out = []
    for k in range(n + 1):
        out.extend("".join(x) for x in itertools.product(alpha, repeat=k))
    return out


def cps(s):
    return [ord(c) for c in s]


def uncps(xs):
    return "".join(chr(int(x)) for x in xs)


def sx_word(s):
    return "(" + " ".join(str(ord(c)) for c in s) + ")"


def sx_words(ws):
    return "(" + " ".join(sx_word(w) for w in ws) + ")"


def sx_nats(ns):
    return "(" + " ".join(str(n) for n in ns) + ")"


def parse_words(tree):
    """parse_sexp output (nested lists of strings) for a list of words -> list of str"""
    return [uncps(w) for w in tree]


def utf8_sorted(ws):
    """The order of a whoosh term list: by UTF-8 bytes (= by code point)."""
    return sorted(set(ws), key=lambda w: w.encode("utf8"))


# ------------------------------------------------------------------------------------------------
# real whoosh

def build_index(segs):
    """segs: list of segments, a segment is a list of documents, a document is a list of terms
    (KEYWORD field, whitespace is never part of a term here) -- or a plain string for a single
    term that may contain anything (ID field semantics are the same for our purposes, but the
    ID analyzer keeps the value verbatim, incl. the empty string)."""
    from whoosh import fields
    from whoosh.filedb.filestore import RamStorage
    _private_tmp()
    schema = fields.Schema(f=fields.ID(stored=True), n=fields.STORED)
    st = RamStorage()
    ix = st.create_index(schema)
    n = 0
    for seg in segs:
        w = ix.writer()
        for term in seg:
            w.add_document(f=term, n=n)
            n += 1
        w.commit(merge=False)
    return ix


def _private_tmp():
    """RamStorage writers spill into <tempdir>/MAIN.tmp, a path shared by every process on the
    machine; give each process its own temp dir under the check's scratch directory."""
    import os
    import tempfile
    base = os.environ.get("VERIF_C19_TMP")
    if base:
        d = os.path.join(base, "p%d" % os.getpid())
        os.makedirs(d, exist_ok=True)
        tempfile.tempdir = d


def exc_name(e):
    return "EXC:" + type(e).__name__


def real_terms_within(reader, w, d, p):
    try:
        return list(reader.terms_within(FIELD, w, d, prefix=p))
    except Exception as e:  # noqa
        return exc_name(e)


def real_fuzzy_docs(searcher, w, d, p):
    from whoosh import query
    try:
        q = query.FuzzyTerm(FIELD, w, maxdist=d, prefixlength=p)
        return sorted(hit["n"] for hit in searcher.search(q, limit=None))
    except Exception as e:  # noqa
        return exc_name(e)


def real_suggest(searcher, w, limit, d, p):
    try:
        return list(searcher.suggest(FIELD, w, limit=limit, maxdist=d, prefix=p))
    except Exception as e:  # noqa
        return exc_name(e)


_IX_CACHE = {}


def cached_index(key, segs):
    # the cache key includes the content: different replayed cases may carry the same name
    ck = (key, repr(segs))
    ix = _IX_CACHE.get(ck)
    if ix is None:
        ix = _IX_CACHE[ck] = build_index(segs)
    return ix


def run_index_unit(unit):
    """unit = (key, segs, queries, want) with queries = [(w, [d...], [p...])], want a set of
    {"tw", "fuzzy", "suggest"}; suggest uses limits given in unit[4].
    Returns {"reader": class name, "tw": {(w,d,p): ...}, "fuzzy": {...}, "suggest": {(w,limit,d,p): ...}}"""
    key, segs, queries, want, limits = unit
    ix = cached_index(key, segs)
    out = {"tw": {}, "fuzzy": {}, "suggest": {}}
    with ix.searcher() as s:
        r = s.reader()
        out["reader"] = type(r).__name__
        for w, ds, ps in queries:
            for d in ds:
                for p in ps:
                    if "tw" in want:
                        out["tw"][(w, d, p)] = real_terms_within(r, w, d, p)
                    if "fuzzy" in want:
                        out["fuzzy"][(w, d, p)] = real_fuzzy_docs(s, w, d, p)
                    if "suggest" in want:
                        for lim in limits:
                            out["suggest"][(w, lim, d, p)] = real_suggest(s, w, lim, d, p)
                    if "correct" in want:
                        out.setdefault("correct", {})[(w, d, p)] = real_correct_query(s, w, d, p)
    return out


def run_merge_unit(unit):
    """unit = (key, segs, pres, queries): what the reader of the index says its terms are -
    lexicon(), terms_from()/expand_prefix() per prefix (public IndexReader API; on a multi-segment
    index this is MultiReader._merge_terms over the segment readers), terms_within per (w, d, p)."""
    key, segs, pres, queries = unit
    ix = cached_index(key, segs)
    out = {"tfrom": {}, "expand": {}, "tw": {}}

    def dec(bs):
        return [b.decode("utf8") for b in bs]
    with ix.searcher() as s:
        r = s.reader()
        out["reader"] = type(r).__name__
        out["nleaf"] = len(list(r.leaf_readers()))
        try:
            out["lexicon"] = dec(r.lexicon(FIELD))
        except Exception as e:  # noqa
            out["lexicon"] = exc_name(e)
        for pre in pres:
            try:
                out["tfrom"][pre] = dec(t for f, t in r.terms_from(FIELD, pre.encode("utf8")) if f == FIELD)
            except Exception as e:  # noqa
                out["tfrom"][pre] = exc_name(e)
            try:
                out["expand"][pre] = dec(r.expand_prefix(FIELD, pre))
            except Exception as e:  # noqa
                out["expand"][pre] = exc_name(e)
        from whoosh import query
        out["qdocs"], out["dfq"], out["search"] = {}, {}, {}
        for w, d, p in queries:
            out["tw"][(w, d, p)] = real_terms_within(r, w, d, p)
            # the same FuzzyTerm through three access paths (document numbers)
            for name, fn in (("qdocs", lambda q: sorted(q.docs(s))),
                             ("dfq", lambda q: sorted(s.docs_for_query(q))),
                             ("search", lambda q: sorted(h.docnum for h in s.search(q, limit=None)))):
                try:
                    out[name][(w, d, p)] = fn(query.FuzzyTerm(FIELD, w, maxdist=d, prefixlength=p))
                except Exception as e:  # noqa
                    out[name][(w, d, p)] = exc_name(e)
    return out


def _qtext(q):
    """Text of the single Term a corrected query consists of (or a canonical dump)."""
    from whoosh import query
    if isinstance(q, query.Term):
        return q.text
    return "Q:" + repr(q)


def real_correct_query(searcher, w, d, p, correctors=None):
    """Searcher.correct_query on the query Term(f, w), four ways:
      forced  - terms=[(f, w)]: the word is corrected whether or not it is in the index
      default - terms=None: only words missing from the index are corrected
      alias   - the query names field "g", aliases={"g": "f"}
      string  - (words of letters only) the query comes from QueryParser and the corrected
                query *string* is observed too
    Each entry is the text of the corrected Term (== w when nothing was corrected) or EXC:..."""
    from whoosh import query
    out = {}

    def run(name, q, qstring, **kw):
        try:
            c = searcher.correct_query(q, qstring, maxdist=d, prefix=p, correctors=correctors, **kw)
            res = _qtext(c.query)
            if qstring is not None:
                res = (res, c.string)
            out[name] = res
        except Exception as e:  # noqa
            out[name] = exc_name(e)
    run("forced", query.Term(FIELD, w), None, terms=[(FIELD, w)])
    run("default", query.Term(FIELD, w), None)
    run("alias", query.Term("g", w), None, terms=[("g", w)], aliases={"g": FIELD})
    if w and w.isalpha():
        from whoosh.qparser import QueryParser
        q = QueryParser(FIELD, searcher.schema).parse(w)
        run("string", q, w, terms=[(FIELD, w)])
    return out


def run_corrector_unit(unit):
    """unit = (key, segs, wordlist, queries, limits) with queries = [(w, [d...], [p...])].
    ListCorrector(wordlist), MultiCorrector([reader corrector, ListCorrector], op) for op in
    (min, max), and Searcher.correct_query with correctors={f: ListCorrector(wordlist)}.
    Returns {"list": {(w,lim,d,p): ...}, "multi-min": {...}, "multi-max": {...}, "cq-list": {(w,d,p): ...}}
    ("multi-max" is built as documented, MultiCorrector([c1, c2]))."""
    from whoosh import spelling
    key, segs, wordlist, queries, limits = unit
    ix = cached_index(key, segs)
    out = {"list": {}, "multi-min": {}, "multi-max": {}, "cq-list": {}}

    def sug(c, w, lim, d, p):
        try:
            return list(c.suggest(w, limit=lim, maxdist=d, prefix=p))
        except Exception as e:  # noqa
            return exc_name(e)
    with ix.searcher() as s:
        out["reader"] = type(s.reader()).__name__
        lc = spelling.ListCorrector(list(wordlist))
        rc = s.reader().corrector(FIELD)
        mmin = spelling.MultiCorrector([rc, lc], min)
        mmax = spelling.MultiCorrector([rc, lc])        # the documented form; op defaults to max
        for w, ds, ps in queries:
            for d in ds:
                for p in ps:
                    for lim in limits:
                        out["list"][(w, lim, d, p)] = sug(lc, w, lim, d, p)
                        out["multi-min"][(w, lim, d, p)] = sug(mmin, w, lim, d, p)
                        out["multi-max"][(w, lim, d, p)] = sug(mmax, w, lim, d, p)
                    out["cq-list"][(w, d, p)] = real_correct_query(s, w, d, p, correctors={FIELD: lc})["forced"]
    return out


def run_dp_unit(unit):
    """unit = (list of (a, b), limits) -> list of (lev results per limit, osa results per limit)"""
    from whoosh.support.levenshtein import levenshtein, damerau_levenshtein
    pairs, limits = unit
    res = []
    for a, b in pairs:
        row = []
        for fn in (levenshtein, damerau_levenshtein):
            r = []
            for lim in limits:
                try:
                    r.append(fn(a, b, limit=lim))
                except Exception as e:  # noqa
                    r.append(exc_name(e))
            row.append(r)
        res.append(row)
    return res


def canon_sset(s):
    return tuple(sorted(s))


def real_dfa_dump(dfa):
    """Canonical dump of a real DFA: (initial, {(src,label):dest}, {src:dest}, finals)."""
    trans = {}
    for src, m in dfa.transitions.items():
        for label, dest in m.items():
            trans[(canon_sset(src), ord(label))] = canon_sset(dest)
    defaults = {canon_sset(k): canon_sset(v) for k, v in dfa.defaults.items()}
    finals = set(canon_sset(f) for f in dfa.final_states)
    return canon_sset(dfa.initial), trans, defaults, finals


def run_automaton_unit(unit):
    """unit = (w, ks, ps, probe_words) -> {(k,p): (nfa_accepts, dfa_accepts, nvs, dump) | EXC}"""
    from whoosh.automata import lev
    w, ks, ps, probes = unit
    out = {}
    for k in ks:
        for p in ps:
            try:
                nfa = lev.levenshtein_automaton(w, k, p)
                dfa = nfa.to_dfa()
                na = [bool(nfa.accept(u)) for u in probes]
                da = [bool(dfa.accept(u)) for u in probes]
                nv = [dfa.next_valid_string(u) for u in probes]
                out[(k, p)] = (na, da, nv, real_dfa_dump(dfa))
            except Exception as e:  # noqa
                out[(k, p)] = exc_name(e)
    return out


def run_utf8_unit(words):
    """words -> [list of UTF-8 byte values | EXC:...] (what FieldType.to_bytes does with a term)"""
    from whoosh import fields
    fobj = fields.ID()
    out = []
    for w in words:
        try:
            out.append(list(bytearray(fobj.to_bytes(w))))
        except Exception as e:  # noqa
            out.append(exc_name(e))
    return out


def run_cursor_unit(unit):
    """unit = (key, lexicon, terms): a one-segment index over `lexicon`, its real field cursor;
    for every term `cur.find(term); cur.text()` -> text | None | EXC:...; and the cursor's own
    iteration order (first()/next())."""
    key, lex, terms = unit
    ix = cached_index(key, [list(lex)])
    out = {"find": [], "order": []}
    with ix.reader() as r:
        cur = r.cursor(FIELD)
        for t in terms:
            try:
                cur.find(t)
                out["find"].append(cur.text())
            except Exception as e:  # noqa
                out["find"].append(exc_name(e))
        cur.first()
        while cur.is_valid():
            out["order"].append(cur.text())
            cur.next()
    return out


def run_fne_unit(unit):
    """unit = (w, ks, ps, probes, labels) -> {(k,p): [[find_next_edge(state_after(u), l) for l in
    [None]+labels] for u in probes] | EXC}; labels are code points, results code points or None."""
    from whoosh.automata import lev
    w, ks, ps, probes, labels = unit
    out = {}
    for k in ks:
        for p in ps:
            try:
                dfa = lev.levenshtein_automaton(w, k, p).to_dfa()
                rows = []
                for u in probes:
                    st = dfa.start()
                    for c in u:
                        st = dfa.next_state(st, c)
                    row = []
                    for l in [None] + [chr(x) for x in labels]:
                        r = dfa.find_next_edge(st, l, asbytes=False)
                        row.append(None if r is None else ord(r))
                    rows.append(row)
                out[(k, p)] = rows
            except Exception as e:  # noqa
                out[(k, p)] = exc_name(e)
    return out
