import WM.Proto
import WM.Drv.C01
import WM.Drv.C02
import WM.Drv.C03
import WM.Drv.C04
import WM.Drv.C05
import WM.Drv.C06
import WM.Drv.C07
import WM.Drv.C08
import WM.Drv.C09
import WM.Drv.C10
import WM.Drv.C11
import WM.Drv.C12
import WM.Drv.C13
import WM.Drv.C14
import WM.Drv.C15
import WM.Drv.C16
import WM.Drv.C17
import WM.Drv.C18
import WM.Drv.C19
import WM.Drv.C20
/-! Line-protocol driver: the first token selects the family, the family module does the rest. -/
open WM.Proto

def dispatch (line : String) : String :=
  match parseLine line with
  | some (.atom fam :: args) =>
    match fam with
    | "c01" => WM.Drv.C01.handle args
    | "c02" => WM.Drv.C02.handle args
    | "c03" => WM.Drv.C03.handle args
    | "c04" => WM.Drv.C04.handle args
    | "c05" => WM.Drv.C05.handle args
    | "c06" => WM.Drv.C06.handle args
    | "c07" => WM.Drv.C07.handle args
    | "c08" => WM.Drv.C08.handle args
    | "c09" => WM.Drv.C09.handle args
    | "c10" => WM.Drv.C10.handle args
    | "c11" => WM.Drv.C11.handle args
    | "c12" => WM.Drv.C12.handle args
    | "c13" => WM.Drv.C13.handle args
    | "c14" => WM.Drv.C14.handle args
    | "c15" => WM.Drv.C15.handle args
    | "c16" => WM.Drv.C16.handle args
    | "c17" => WM.Drv.C17.handle args
    | "c18" => WM.Drv.C18.handle args
    | "c19" => WM.Drv.C19.handle args
    | "c20" => WM.Drv.C20.handle args
    | "ping" => "pong"
    | _ => "bad-op"
  | _ => "bad-op"

partial def loop (h : IO.FS.Stream) (out : IO.FS.Stream) : IO Unit := do
  let line ← h.getLine
  if line.isEmpty then return ()
  out.putStrLn (dispatch line)
  loop h out

def main : IO Unit := do
  let out ← IO.getStdout
  loop (← IO.getStdin) out
  out.flush
