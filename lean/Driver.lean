import WM.Proto
import WM.Drv.C20
/-! Line-protocol driver: first token selects the family. -/
open WM.Proto

def dispatch (line : String) : String :=
  match parseLine line with
  | some (.atom fam :: args) =>
    match fam with
    | "c20" => WM.Drv.C20.handle args
    | "ping" => "pong"
    | _ => "bad-op"
  | _ => "bad-op"

partial def loop (h : IO.FS.Stream) (out : IO.FS.Stream) : IO Unit := do
  let line ← h.getLine
  if line.isEmpty then return ()
  out.putStrLn (dispatch line)
  loop h out

def main : IO Unit := do
  let out ← IO.getStdout
  loop (← IO.getStdin) out
  out.flush
