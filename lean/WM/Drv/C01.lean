import WM.Proto
import WM.Spec.Search
import WM.Model.Compile
import WM.Spec.SearchStats
import WM.Model.SearchCursor
import WM.Model.SearchTop
/-!
Protocol handler of family `c01` (shared with `c09`).

```
INDEX  = ( SEG ... )            SEG = ( ( DOC ... ) ( deleted-local-docnum ... ) )
DOC    = ( FIELD ... )          FIELD = ( name boost ( TOK ... ) ( num ... ) [ ( ( hexterm score ) ... ) ] )
TOK    = ( hexterm pos boost )
QUERY  = (term f hex boost) | (multi f PRED boost cs) | (phrase f (hex ...) slop boost)
       | (numrange f lo hi loExcl hiExcl boost) | (every f|none boost) | null
       | (and (Q ...) boost) | (or (Q ...) boost) | (dismax (Q ...) boost) | (not Q)
       | (andnot A B) | (andmaybe A B) | (require A B) | (const Q score)
PRED   = (pfx hex) | (range lo hi loExcl hiExcl) | (glob (G ...)) | (fuzzy hex maxdist prefix)
       | (oneof (hex ...)) | all           G = (lit n) | any | star | (cls neg (n ...))
MODE   = freq | table | (tfidf IDF) | (bm25f K1 ((field B scorable) ...) defaultB IDF)
         (leaf scores: stored weight; per-field score table; the Lean TF_IDF / BM25F models over the
         Lean collection statistics, IDF = ((docCount docFreq idf) ...))

answer INDEX (Q ...)                 -> ((id ...) ...)            spec: matching global doc numbers
hits MODE INDEX (Q ...)              -> (((id score) ...) ...)    spec: ascending doc number
rank MODE INDEX (Q ...)              -> (((id score) ...) ...)    spec: ranking order
compile MODE nc scored INDEX (Q ...) -> ((((id score) ...) ...) ...)  model: per query, per segment
wf INDEX (Q ...)                     -> (segments-ok q-ok ...)    hypotheses of the theorems (0/1)
topcursor MODE INDEX (Q ...) (OP ...)     -> (TRACE ...)               Term.matcher on the top searcher (topTerm), per query
cursor MODE nc scored INDEX (Q ...) (OP ...)
                                     -> ((TRACE ...) ...)         cursor model: per query, per segment
   OP = n | r | (s delta)      next() | m = m.replace() | skip_to(id() + delta), applied cyclically while active
   TRACE = ((id score) ...)    what id()/score() read before each call | notimpl | (err kind)
```
-/
namespace WM.Drv.C01
open WM.Proto WM.Search WM.Compile

def term? (e : SExp) : Option Term := e.atom? >>= hexBytes?

def token? (e : SExp) : Option Token :=
  match e with
  | .list [t, p, b] => do pure ⟨← term? t, ← p.nat?, ← b.rat?⟩
  | _ => none

/-- a field together with its optional leaf-score table -/
def field? (e : SExp) : Option (FieldVal × List (Term × Rat)) :=
  match e with
  | .list [.atom n, b, toks, nums] => do
    pure (⟨n, ← b.rat?, ← SExp.listOf? token? toks, ← SExp.listOf? SExp.rat? nums⟩, [])
  | .list [.atom n, b, toks, nums, tbl] => do
    let row (r : SExp) : Option (Term × Rat) :=
      match r with
      | .list [t, s] => do pure (← term? t, ← s.rat?)
      | _ => none
    pure (⟨n, ← b.rat?, ← SExp.listOf? token? toks, ← SExp.listOf? SExp.rat? nums⟩,
          ← SExp.listOf? row tbl)
  | _ => none

/-- Leaf-score tables travel inside the document as pseudo fields named `name ++ "\x00score"`
    whose tokens are (term, 0, score): the spec structures stay as they are. -/
def doc? (e : SExp) : Option Doc := do
  let fs ← SExp.listOf? field? e
  let real := fs.map (·.1)
  let tbls := fs.filterMap (fun (fv, tbl) =>
    if tbl.isEmpty then none
    else some ⟨fv.name ++ "\x00score", 1, tbl.map (fun (t, s) => ⟨t, 0, s⟩), []⟩)
  pure ⟨real ++ tbls⟩

/-- `table` mode: the score of (field, term) in the document's table; the stored weight when the
    table has no row. -/
def tableLeaf : LeafScore := fun d f t =>
  match (d.tokens (f ++ "\x00score")).find? (fun k => k.term == t) with
  | some k => k.boost
  | none => d.weight f t

def seg? (e : SExp) : Option Segment :=
  match e with
  | .list [docs, del] => do pure ⟨← SExp.listOf? doc? docs, ← del.natList?⟩
  | _ => none

def index? (e : SExp) : Option Index := SExp.listOf? seg? e

def glob? (e : SExp) : Option Glob :=
  match e with
  | .atom "any" => some .any
  | .atom "star" => some .star
  | .list [.atom "lit", n] => Glob.lit <$> n.nat?
  | .list [.atom "cls", neg, cs] => do pure (.cls (← neg.bool?) (← cs.natList?))
  | _ => none

def pred? (e : SExp) : Option TermPred :=
  match e with
  | .atom "all" => some .all
  | .list [.atom "pfx", p] => TermPred.pfx <$> term? p
  | .list [.atom "range", lo, hi, le, he] => do
    pure (.range (← SExp.opt? term? lo) (← SExp.opt? term? hi) (← le.bool?) (← he.bool?))
  | .list [.atom "glob", gs] => TermPred.glob <$> SExp.listOf? glob? gs
  | .list [.atom "fuzzy", w, k, p] => do pure (.fuzzy (← term? w) (← k.nat?) (← p.nat?))
  | .list [.atom "oneof", ts] => TermPred.oneOf <$> SExp.listOf? term? ts
  | _ => none

partial def query? (e : SExp) : Option Query :=
  match e with
  | .atom "null" => some .null
  | .list [.atom "term", .atom f, t, b] => do pure (.term f (← term? t) (← b.rat?))
  | .list [.atom "multi", .atom f, p, b, cs] => do pure (.multi f (← pred? p) (← b.rat?) (← cs.bool?))
  | .list [.atom "phrase", .atom f, ws, slop, b] => do
    pure (.phrase f (← SExp.listOf? term? ws) (← slop.nat?) (← b.rat?))
  | .list [.atom "numrange", .atom f, lo, hi, le, he, b] => do
    pure (.numRange f (← SExp.opt? SExp.rat? lo) (← SExp.opt? SExp.rat? hi) (← le.bool?) (← he.bool?)
      (← b.rat?))
  | .list [.atom "every", .atom f, b] => do
    pure (.every (if f == "none" then none else some f) (← b.rat?))
  | .list [.atom "and", .list qs, b] => do pure (.and (← qs.mapM query?) (← b.rat?))
  | .list [.atom "or", .list qs, b] => do pure (.or (← qs.mapM query?) (← b.rat?))
  | .list [.atom "dismax", .list qs, b] => do pure (.dismax (← qs.mapM query?) (← b.rat?))
  | .list [.atom "not", q] => Query.not <$> query? q
  | .list [.atom "andnot", a, b] => do pure (.andNot (← query? a) (← query? b))
  | .list [.atom "andmaybe", a, b] => do pure (.andMaybe (← query? a) (← query? b))
  | .list [.atom "require", a, b] => do pure (.require (← query? a) (← query? b))
  | .list [.atom "const", q, s] => do pure (.constScore (← query? q) (← s.rat?))
  | _ => none

/-- idf values travel as a table `((docCount docFreq idf) ...)` (the logarithm is computed by the
    harness); an absent row yields 1 -/
def idfTable? (e : SExp) : Option Idf := do
  let rows ← SExp.listOf? (fun r => match r with
    | .list [n, d, v] => do pure (← n.nat?, ← d.nat?, ← v.rat?)
    | _ => none) e
  pure fun n d => match rows.find? (fun r => r.1 == n && r.2.1 == d) with
    | some r => r.2.2
    | none => 1

/-- MODE = freq | table | (tfidf IDFTABLE) | (bm25f K1 ((field B scorable) ...) defaultB IDFTABLE):
    the last two are the Lean weighting models over the Lean statistics of the whole index -/
def mode? (e : SExp) (ix : Index) : Option LeafScore :=
  match e with
  | .atom "freq" => some freqLeaf
  | .atom "table" => some tableLeaf
  | .list [.atom "tfidf", tbl] => do pure (tfidfLeaf (← idfTable? tbl) ix)
  | .list [.atom "bm25f", k1, fields, b0, tbl] => do
    let fs ← SExp.listOf? (fun r => match r with
      | .list [.atom f, b, sc] => do pure (f, ← b.rat?, ← sc.bool?)
      | _ => none) fields
    let bdef ← b0.rat?
    let p : Bm25 :=
      { idf := ← idfTable? tbl, K1 := ← k1.rat?
        B := fun f => match fs.find? (fun r => r.1 == f) with | some r => r.2.1 | none => bdef
        scorable := fun f => match fs.find? (fun r => r.1 == f) with | some r => r.2.2 | none => false }
    pure (bm25fLeaf p ix)
  | _ => none

/-- one call of the stepping program of the `cursor` request -/
inductive POp where
  | next | repl | skip (d : Nat)
  deriving Inhabited

def pop? (e : SExp) : Option POp :=
  match e with
  | .atom "n" => some .next
  | .atom "r" => some .repl
  | .list [.atom "s", d] => POp.skip <$> d.nat?
  | _ => none

/-- step the cursor tree with the program (cyclically) while it is active; the trace is what `id()` and
    `score()` read before each call -/
def stepCursor (prog : Array POp) : Nat → Nat → WM.Matcher.Any → List (Nat × Rat) →
    Except WM.Matcher.Err (List (Nat × Rat))
  | 0, _, _, acc => .ok acc.reverse
  | fuel + 1, j, m, acc =>
    if (WM.Matcher.ops m.1).isActive m.2 then do
      let x ← (WM.Matcher.ops m.1).id m.2
      let r ← (WM.Matcher.ops m.1).score m.2
      let m' ← match prog[j % prog.size]! with
        | POp.next => WM.Matcher.CmdR.run .next m
        | POp.skip d => WM.Matcher.CmdR.run (.skipTo (x + d)) m
        | POp.repl => WM.Matcher.CmdR.run .replace0 m
      stepCursor prog fuel (j + 1) m' ((x, r) :: acc)
    else .ok acc.reverse

def showErr : WM.Matcher.Err → String
  | .notImpl => "notimpl"
  | e => "(err " ++ (toString (repr e)).replace " " "" ++ ")"

def showTrace (ls : LeafScore) (prog : Array POp) (s : Segment) (ctx : Ctx) (q : Query) : String :=
  match build ls balancedOracle s ctx q with
  | .error e => showErr e
  | .ok m =>
    match stepCursor prog ((s.size + 2) * (prog.size + 1)) 0 m [] with
    | .error e => showErr e
    | .ok tr => showList (fun p => "(" ++ toString p.1 ++ " " ++ showRat p.2 ++ ")") tr

/-- the cursor `Term.matcher(top searcher)` builds (`topTerm`: a `MultiMatcher` over the segments' posting
    readers), stepped with the program; global document numbers.  Other queries: `notimpl`. -/
def showTopTrace (ls : LeafScore) (prog : Array POp) (ix : Index) : Query → String
  | .term f t b =>
    let n := (ix.map (·.size)).sum
    match stepCursor prog ((n + 2) * (prog.size + 1)) 0 (topTerm ls ix f t b) [] with
    | .error e => showErr e
    | .ok tr => showList (fun p => "(" ++ toString p.1 ++ " " ++ showRat p.2 ++ ")") tr
  | _ => "notimpl"

def showHits (hs : List Hit) : String :=
  showList (fun h => "(" ++ toString h.id ++ " " ++ showRat h.score ++ ")") hs

def handle : List SExp → String
  | [.atom "answer", idx, .list qs] =>
    match index? idx, qs.mapM query? with
    | some ix, some qs => showList (fun q => showNatList (answer q ix)) qs
    | _, _ => "bad-op"
  | [.atom "hits", m, idx, .list qs] =>
    match index? idx, qs.mapM query? with
    | some ix, some qs =>
      match mode? m ix with
      | some ls => showList (fun q => showHits (hits ls q ix)) qs
      | none => "bad-op"
    | _, _ => "bad-op"
  | [.atom "rank", m, idx, .list qs] =>
    match index? idx, qs.mapM query? with
    | some ix, some qs =>
      match mode? m ix with
      | some ls => showList (fun q => showHits (rankAll ls q ix)) qs
      | none => "bad-op"
    | _, _ => "bad-op"
  | [.atom "compile", m, nc, sc, idx, .list qs] =>
    match nc.bool?, sc.bool?, index? idx, qs.mapM query? with
    | some nc, some sc, some ix, some qs =>
      match mode? m ix with
      | some ls => showList (fun q => showList (fun s => showHits (compile ls balancedOracle s ⟨nc, sc⟩ q)) ix) qs
      | none => "bad-op"
    | _, _, _, _ => "bad-op"
  | [.atom "cursor", m, nc, sc, idx, .list qs, .list prog] =>
    match nc.bool?, sc.bool?, index? idx, qs.mapM query?, prog.mapM pop? with
    | some nc, some sc, some ix, some qs, some prog =>
      if prog.any (fun o => match o with | POp.next => true | _ => false) then
        match mode? m ix with
        | some ls => showList (fun q => showList (fun s => showTrace ls prog.toArray s ⟨nc, sc⟩ q) ix) qs
        | none => "bad-op"
      else "bad-op"
    | _, _, _, _, _ => "bad-op"
  | [.atom "topcursor", m, idx, .list qs, .list prog] =>
    match index? idx, qs.mapM query?, prog.mapM pop? with
    | some ix, some qs, some prog =>
      if prog.any (fun o => match o with | POp.next => true | _ => false) then
        match mode? m ix with
        | some ls => showList (fun q => showTopTrace ls prog.toArray ix q) qs
        | none => "bad-op"
      else "bad-op"
    | _, _, _ => "bad-op"
  | [.atom "wf", idx, .list qs] =>
    match index? idx, qs.mapM query? with
    | some ix, some qs =>
      showList showBool (ix.all wfSegment :: qs.map posQuery)
    | _, _ => "bad-op"
  | _ => "bad-op"

end WM.Drv.C01
