import WM.Proto
import WM.Model.Collect
import WM.Model.Results
namespace WM.Drv.C14
open WM.Proto WM.Proto.SExp WM.Rank WM.Collect

/-! Protocol of family `c14` (key level; documents in collection order).

* `c14 sort limit|none reverse ((doc (key…)) …)` → `((doc (key…)) …)` — `sortingResults`
* `c14 filter allow|none restrict|none (docs…)` → `(docs…) filtered_count` — `filterDocs`
* `c14 facet ordered|unordered|count|best ((doc (names…) (key…)) …)` → groups in first-seen order
* `c14 collapse climit ((doc ckey|none (key…)) …)` → `ok (kept…) ((ckey count)…)` | `err IndexError` — `collapseRun`
* `c14 page total pagenum pagelen` → `ok total pagecount pagenum offset pagelen` | `err …` — `mkPage`
* `c14 postarr dc ((docs of term 0…) …)` → the order array — `postingArray`
* `c14 results extend|filter|upgrade|upgrade-rev|upgrade-extend (((score doc)…) (docs…) total) (…)` →
  `((score doc)…) (docs, ascending) total` — `WM.Results`
* `c14 view limit|none reverse allow|none restrict|none none|(climit hasorder) ((doc (key…) ckey|none (okey…)) …)` →
  `ok ((doc (key…)) …) len filtered ((ckey count)…)` | `err IndexError` — `searchSorted`
* `c14 pageview pagenum pagelen reverse allow|none restrict|none none|(climit hasorder) rows` →
  `ok total pagecount pagenum offset pagelen (docs…)` | `err ValueError|ZeroDivisionError|LimitValueError|IndexError`
  — `searchPageSorted`
* `c14 postkey nvalues reverse i` / `c14 postname nvalues reverse k` — `postingKey` / `postingKeyToName`
-/

def key? (e : SExp) : Option Key := listOf? rat? e
def showKey (k : Key) : String := showList showRat k

def lookupD {α} (tbl : List (Nat × α)) (dflt : α) (d : Nat) : α :=
  match tbl.find? (fun p => p.1 == d) with
  | some p => p.2
  | none => dflt

def viewRow? : SExp → Option (Nat × Key × Option Int × Key)
  | .list [d, k, c, o] => do some (← d.nat?, ← key? k, ← opt? int? c, ← key? o)
  | _ => none

def coll? : SExp → Option (Option (Nat × Bool))
  | .atom "none" => some none
  | .list [cl, ho] => do some (some (← cl.nat?, ← ho.bool?))
  | _ => none

def mkView (lim : Option Nat) (rev : Bool) (al re : Option (List Nat)) (co : Option (Nat × Bool))
    (rows : List (Nat × Key × Option Int × Key)) : View :=
  let dflt : Key × Option Int × Key := ([], none, [])
  { key := fun d => (lookupD rows dflt d).1, limit := lim, reverse := rev, allow := al, restrict := re,
    collapse := co.map fun (cl, ho) =>
      (fun d => (lookupD rows dflt d).2.1, cl, if ho then some (fun d => (lookupD rows dflt d).2.2) else none) }

def handle : List SExp → String
  | [.atom "view", lim, rev, al, re, co, rows] =>
    match opt? nat? lim, rev.bool?, opt? natList? al, opt? natList? re, coll? co, listOf? viewRow? rows with
    | some lim, some rev, some al, some re, some co, some rows =>
      match searchSorted (mkView lim rev al re co rows) (rows.map (·.1)) with
      | .error _ => "err IndexError"
      | .ok r =>
        let items := showList (fun (p : Key × Nat) => s!"({p.2} {showKey p.1})") r.items
        s!"ok {items} {r.len} {r.filtered} {showList (fun (p : Int × Nat) => s!"({p.1} {p.2})") r.counts}"
    | _, _, _, _, _, _ => "bad-op"
  | [.atom "pageview", pn, pl, rev, al, re, co, rows] =>
    match pn.nat?, pl.nat?, rev.bool?, opt? natList? al, opt? natList? re, coll? co, listOf? viewRow? rows with
    | some pn, some pl, some rev, some al, some re, some co, some rows =>
      match searchPageSorted (mkView none rev al re co rows) (rows.map (·.1)) pn pl with
      | .error (.page .valueError) => "err ValueError"
      | .error (.page .zeroDivisionError) => "err ZeroDivisionError"
      | .error .limit => "err LimitValueError"
      | .error (.collect _) => "err IndexError"
      | .ok (p, hits) =>
        s!"ok {p.total} {p.pagecount} {p.pagenum} {p.offset} {p.pagelen} {showNatList (hits.map (·.2))}"
    | _, _, _, _, _, _, _ => "bad-op"
  | [.atom "sort", lim, rev, rows] =>
    let row? : SExp → Option (Nat × Key) := fun e =>
      match e with
      | .list [d, k] => do some (← d.nat?, ← key? k)
      | _ => none
    match opt? nat? lim, rev.bool?, listOf? row? rows with
    | some lim, some rev, some rows =>
      let res := sortingResults (lookupD rows []) lim rev (rows.map (·.1))
      showList (fun (p : Key × Nat) => s!"({p.2} {showKey p.1})") res
    | _, _, _ => "bad-op"
  | [.atom "filter", al, re, docs] =>
    match opt? natList? al, opt? natList? re, docs.natList? with
    | some al, some re, some docs =>
      let r := filterDocs al re docs
      s!"{showNatList r.1} {r.2}"
    | _, _, _ => "bad-op"
  | [.atom "facet", .atom kind, rows] =>
    let row? : SExp → Option (Nat × List Int × Key) := fun e =>
      match e with
      | .list [d, ns, k] => do some (← d.nat?, ← intList? ns, ← key? k)
      | _ => none
    match listOf? row? rows with
    | some rows =>
      let names := fun d => (lookupD rows ([], []) d).1
      let skey := fun d => (lookupD rows ([], []) d).2
      let docs := rows.map (·.1)
      match kind with
      | "ordered" => showList (fun (p : Int × List Nat) => s!"({p.1} {showNatList p.2})") (facetOrdered names skey docs)
      | "unordered" => showList (fun (p : Int × List Nat) => s!"({p.1} {showNatList p.2})") (facetUnordered names docs)
      | "count" => showList (fun (p : Int × Nat) => s!"({p.1} {p.2})") (facetCount names docs)
      | "best" => showList (fun (p : Int × (Key × Nat)) => s!"({p.1} {p.2.2})") (facetBest names skey docs)
      | _ => "bad-op"
    | none => "bad-op"
  | [.atom "collapse", cl, rows] =>
    let row? : SExp → Option (Nat × Option Int × Key) := fun e =>
      match e with
      | .list [d, c, k] => do some (← d.nat?, ← opt? int? c, ← key? k)
      | _ => none
    match cl.nat?, listOf? row? rows with
    | some cl, some rows =>
      let ckey := fun d => (lookupD rows (none, []) d).1
      let skey := fun d => (lookupD rows (none, []) d).2
      match collapseRun ckey skey cl (rows.map (·.1)) {} with
      | .error _ => "err IndexError"
      | .ok st => s!"ok {showNatList st.kept} {showList (fun (p : Int × Nat) => s!"({p.1} {p.2})") st.counts}"
    | _, _ => "bad-op"
  | [.atom "page", t, pn, pl] =>
    match t.nat?, pn.nat?, pl.nat? with
    | some t, some pn, some pl =>
      match mkPage t pn pl with
      | .error .valueError => "err ValueError"
      | .error .zeroDivisionError => "err ZeroDivisionError"
      | .ok p => s!"ok {p.total} {p.pagecount} {p.pagenum} {p.offset} {p.pagelen}"
    | _, _, _ => "bad-op"
  | [.atom "results", .atom op, a, b] =>
    let res? : SExp → Option WM.Results.Res := fun e =>
      match e with
      | .list [t, d, n] => do
        let items ← listOf? (fun x => match x with
          | .list [s, d] => do some (← s.rat?, ← d.nat?)
          | _ => none) t
        some ⟨items, ← d.natList?, ← n.nat?⟩
      | _ => none
    match res? a, res? b with
    | some a, some b =>
      let r? : Option WM.Results.Res := match op with
        | "extend" => some (WM.Results.extend a b)
        | "filter" => some (WM.Results.filter a b)
        | "upgrade" => some (WM.Results.upgrade a b false)
        | "upgrade-rev" => some (WM.Results.upgrade a b true)
        | "upgrade-extend" => some (WM.Results.upgradeAndExtend a b)
        | _ => none
      match r? with
      | some r =>
        let items := showList (fun (p : Rat × Nat) => s!"({showRat p.1} {p.2})") r.topN
        s!"{items} {showNatList (r.docs.mergeSort (· ≤ ·))} {r.total}"
      | none => "bad-op"
    | _, _ => "bad-op"
  | [.atom "postarr", dc, terms] =>
    match dc.nat?, listOf? natList? terms with
    | some dc, some terms => showNatList (postingArray dc terms)
    | _, _ => "bad-op"
  | [.atom "postkey", n, rev, i] =>
    match n.nat?, rev.bool?, i.nat? with
    | some n, some rev, some i => toString (postingKey n rev i)
    | _, _, _ => "bad-op"
  | [.atom "postname", n, rev, k] =>
    match n.nat?, rev.bool?, k.int? with
    | some n, some rev, some k =>
      match postingKeyToName n rev k with
      | .error _ => "err IndexError"
      | .ok none => "none"
      | .ok (some i) => toString i
    | _, _, _ => "bad-op"
  | _ => "bad-op"

end WM.Drv.C14
