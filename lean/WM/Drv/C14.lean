import WM.Proto
namespace WM.Drv.C14
open WM.Proto

/-- Protocol handler of family `c14` (requests arrive without the family token). -/
def handle : List SExp → String
  | _ => "bad-op"

end WM.Drv.C14
