import WM.Proto
import WM.Model.FSLock
/-!
Protocol handler of family `c04`.

  tev   ::= a1 | a0 | r | (k op) | i | t | x          (logged writer lifetime)
  step  ::= l | r | (k op) | i | t | x                (script)
  c04 discipline (tev*)                  -> 1 | 0
  c04 withblock nops n m bodyRaises commitFails -> (step*)   (the script of `withBlock`, as the code is)
  c04 exec gen (ops*) ((step*)*) (sched*) -> holder gen (ops) (commits) (failed*) (holds*)
-/
namespace WM.Drv.C04
open WM.Proto WM.Lock

def tev? : SExp → Option TEv
  | .atom "a1" => some (.acquire true)
  | .atom "a0" => some (.acquire false)
  | .atom "r" => some .readToc
  | .atom "i" => some .io
  | .atom "t" => some .writeToc
  | .atom "x" => some .release
  | .list [.atom "k", op] => op.nat?.map .work
  | _ => none

def step? : SExp → Option Step
  | .atom "l" => some .tryLock
  | .atom "r" => some .readToc
  | .atom "i" => some .io
  | .atom "t" => some .writeToc
  | .atom "x" => some .release
  | .list [.atom "k", op] => op.nat?.map .work
  | _ => none

def showStep : Step → String
  | .tryLock => "l"
  | .readToc => "r"
  | .io => "i"
  | .writeToc => "t"
  | .release => "x"
  | .work op => s!"(k {op})"

def handle : List SExp → String
  | [.atom "discipline", evs] =>
    match evs.listOf? tev? with
    | some l => showBool (TraceDiscipline l)
    | none => "bad-op"
  | [.atom "script-ok", st] =>
    match st.listOf? step? with
    | some l => showBool (LockDiscipline l)
    | none => "bad-op"
  | [.atom "withblock", k, n, m, br, cf] =>
    match k.nat?, n.nat?, m.nat?, br.nat?, cf.nat? with
    | some k, some n, some m, some br, some cf =>
      showList showStep (withBlock (List.replicate k 1) n m (br != 0) (cf != 0) true)
    | _, _, _, _, _ => "bad-op"
  | [.atom "exec", g, ops, scripts, sched] =>
    match g.nat?, ops.natList?, scripts.listOf? (SExp.listOf? step?), sched.natList? with
    | some g0, some o0, some scs, some sc =>
      let arr := scs.toArray
      let s := exec (init ⟨g0, o0⟩ fun w => arr.getD w []) sc
      let ws := List.range arr.size
      s!"{showOpt toString s.holder} {s.toc.gen} {showNatList s.toc.ops} {showNatList s.commits} " ++
        showList (fun w => showBool (s.ws w).failed) ws ++ " " ++
        showList (fun w => showBool (s.ws w).holds) ws
    | _, _, _, _ => "bad-op"
  | _ => "bad-op"

end WM.Drv.C04
