import WM.Proto
namespace WM.Drv.C04
open WM.Proto

/-- Protocol handler of family `c04` (requests arrive without the family token). -/
def handle : List SExp → String
  | _ => "bad-op"

end WM.Drv.C04
