import WM.Proto
import WM.Model.Collect
namespace WM.Drv.C05
open WM.Proto WM.Proto.SExp WM.Rank WM.Collect

/-! Protocol of family `c05`.

* `c05 top (limit replace usequality useFinal) (finaltable) (segs) (sched)` — `collectTop` with its trace;
  * `finaltable` = `((doc score) …)`: the `final()` hook as a table (identity elsewhere);
  * `segs` = `((off supports ((doc score newBlock) …)) …)`; `sched` = `(((wish…) supports skip [(wish…)]) …)`,
    a wish = `0` keep | `1` drop | `(l score)` lower (the optional second list is `skipMask`);
  * reply `ok ((doc score) …) total replaced skipped (thresholds, oldest first) may_have_dropped count` or `err <name>`.
* `c05 unl (replace useFinal reverse) (finaltable) (segs) (sched)` — `collectUnlimited`.
* `c05 stack (limit replace usequality useFinal) (finaltable) allow restrict collapse (segs) (sched)` —
  `collectStack`: `allow`/`restrict` = `none` or `(docs…)`, `collapse` = `none` or
  `(climit ((doc ckey|none) …) none|((doc (key…)) …))`; reply `ok hits total filtered ((ckey count)…) may_have_dropped`.
* `c05 spec k ((doc score) …)` — the specification `topK k` (k = `none`: the whole ranking).
* `c05 ftc (limit replace usequality useFinal) (finaltable) fobj mobj (segs) (sched)` — `searchFilterObjs`: `filter=` /
  `mask=` given as objects. `fobj` = `none` | `other` | `(ids (docs…))` | `(query (segs))` | `(unl (segs))` |
  `(top (limit replace usequality) (segs) prior)` | `(page (limit replace usequality) (segs) prior)` — the `Results` /
  `ResultsPage` of a limited scored search over `segs` (no matcher drops), `prior` = `docs()` was called on it before.
  Reply `ok allow|none restrict|none (ok hits filtered)|(err name)` (the sets sorted) or `exc unknown-object`.
-/

def posting? (e : SExp) : Option Posting := do
  match e with
  | .list [d, s, b] => some (Posting.mk' (← d.nat?) (← s.rat?) (← b.bool?))
  | _ => none

def seg? (e : SExp) : Option Seg := do
  match e with
  | .list [o, s, ps] => some ⟨← o.nat?, ← s.bool?, ← listOf? posting? ps⟩
  | _ => none

/-- a wish: `0` keep, `1` drop, `(l score)` lower the score to `score` -/
def wish? (e : SExp) : Option Wish := do
  match e with
  | .list [.atom "l", s] => some (.lower (← s.rat?))
  | _ => if ← e.bool? then some .drop else some .keep

def step? (e : SExp) : Option Step := do
  match e with
  | .list [m, s, k] => some { mask := ← listOf? wish? m, supports := ← s.bool?, skip := ← k.nat? }
  | .list [m, s, k, sm] =>
    some { mask := ← listOf? wish? m, supports := ← s.bool?, skip := ← k.nat?, skipMask := ← listOf? wish? sm }
  | _ => none

def hit? (e : SExp) : Option Hit := do
  match e with
  | .list [d, s] => some ⟨← d.nat?, ← s.rat?⟩
  | _ => none

def finalOf (tbl : List Hit) (g : Nat) (s : Rat) : Rat :=
  match tbl.find? (fun h => h.doc == g) with
  | some h => h.score
  | none => s

def showHit (h : Hit) : String := s!"({h.doc} {showRat h.score})"
def showHits (hs : List Hit) : String := showList showHit hs
def showErr : Err → String
  | .indexError => "IndexError"
  | .keyError => "KeyError"
  | .valueError => "ValueError"

def fobj? (e : SExp) : Option FilterObj :=
  match e with
  | .atom "none" => some .absent
  | .atom "other" => some .other
  | .list [.atom "ids", d] => do some (.ids (← d.natList?))
  | .list [.atom "query", sg] => do some (.query (globalDocs (← listOf? seg? sg)))
  | .list [.atom "unl", sg] => do
    match searchUnlimitedObj 10 false (fun _ s => s) false (← listOf? seg? sg) [] with
    | .error _ => none
    | .ok r => some (.results r)
  | .list [.atom kind, .list [l, r, uq], sg, prior] => do
    let cfg : Cfg := { limit := ← l.nat?, replace := ← r.nat?, usequality := ← uq.bool?, useFinal := false }
    let prior ← prior.bool?
    match searchTopObj cfg (fun _ s => s) (← listOf? seg? sg) [] with
    | .error _ => none
    | .ok r =>
      let r := if prior then r.docs.2 else r
      if kind == "top" then some (.results r) else if kind == "page" then some (.page r) else none
  | _ => none

def showComb : Option (List Nat) → String
  | none => "none"
  | some s => showNatList (s.mergeSort (· ≤ ·)).eraseDups

def handle : List SExp → String
  | [.atom "ftc", .list [l, r, uq, uf], ft, fo, mo, sg, sc] =>
    match l.nat?, r.nat?, uq.bool?, uf.bool?, listOf? hit? ft, fobj? fo, fobj? mo, listOf? seg? sg, listOf? step? sc with
    | some l, some r, some uq, some uf, some ft, some fo, some mo, some sg, some sc =>
      let cfg : Cfg := { limit := l, replace := r, usequality := uq, useFinal := uf }
      match searchFilterObjs cfg (finalOf ft) fo mo sg sc, filterToComb fo, filterToComb mo with
      | .ok res, .ok al, .ok re =>
        let tail := match res with
          | .error e => s!"(err {showErr e})"
          | .ok (hs, st, _) => s!"(ok {showHits hs} {st.filtered})"
        s!"ok {showComb al} {showComb re} {tail}"
      | _, _, _ => "exc unknown-object"
    | _, _, _, _, _, _, _, _, _ => "bad-op"
  | [.atom "top", .list [l, r, uq, uf], ft, sg, sc] =>
    match l.nat?, r.nat?, uq.bool?, uf.bool?, listOf? hit? ft, listOf? seg? sg, listOf? step? sc with
    | some l, some r, some uq, some uf, some ft, some sg, some sc =>
      let cfg : Cfg := { limit := l, replace := r, usequality := uq, useFinal := uf }
      match runSegs cfg (topConsume cfg (finalOf ft)) (fun st => st.minscore) sg sc {} {} with
      | .error e => s!"err {showErr e}"
      | .ok (st, _, tr) =>
        let nAll := (sg.map (fun s => s.postings.length)).foldl (· + ·) 0
        s!"ok {showHits st.results} {st.total} {tr.replaced} {tr.skipped} {showList showRat tr.thresholds.reverse} {showBool tr.mayHaveDropped} {topCount cfg st tr nAll}"
    | _, _, _, _, _, _, _ => "bad-op"
  | [.atom "stack", .list [l, r, uq, uf], ft, al, re, co, sg, sc] =>
    -- co = none | (climit ((doc ckey|none) …) none|((doc (key…)) …))
    let tbl? : SExp → Option (List (Nat × Option Int)) := listOf? fun e =>
      match e with
      | .list [d, c] => do some (← d.nat?, ← opt? int? c)
      | _ => none
    let ord? : SExp → Option (List (Nat × Key)) := listOf? fun e =>
      match e with
      | .list [d, k] => do some (← d.nat?, ← listOf? rat? k)
      | _ => none
    let coll? : Option (Option ((Nat → Option Int) × Nat × Option (Nat → Key))) :=
      match co with
      | .atom "none" => some none
      | .list [cl, ck, oo] => do
        let cl ← cl.nat?
        let ck ← tbl? ck
        let oo ← opt? ord? oo
        let ckey := fun g => match ck.find? (fun p => p.1 == g) with | some p => p.2 | none => none
        let order := oo.map fun t => fun g => match t.find? (fun p => p.1 == g) with | some p => p.2 | none => []
        some (some (ckey, cl, order))
      | _ => none
    match l.nat?, r.nat?, uq.bool?, uf.bool?, listOf? hit? ft, opt? natList? al, opt? natList? re, coll?,
          listOf? seg? sg, listOf? step? sc with
    | some l, some r, some uq, some uf, some ft, some al, some re, some co, some sg, some sc =>
      let cfg : Cfg := { limit := l, replace := r, usequality := uq, useFinal := uf }
      match collectStack cfg (finalOf ft) { allow := al, restrict := re, collapse := co } sg sc with
      | .error e => s!"err {showErr e}"
      | .ok (hs, st, tr) =>
        let cnts := showList (fun (p : Int × Nat) => s!"({p.1} {p.2})") st.counts
        s!"ok {showHits hs} {st.top.total} {st.filtered} {cnts} {showBool tr.mayHaveDropped}"
    | _, _, _, _, _, _, _, _, _, _ => "bad-op"
  | [.atom "unl", .list [r, uf, rev], ft, sg, sc] =>
    match r.nat?, uf.bool?, rev.bool?, listOf? hit? ft, listOf? seg? sg, listOf? step? sc with
    | some r, some uf, some rev, some ft, some sg, some sc =>
      match collectUnlimited r uf (finalOf ft) rev sg sc with
      | .error e => s!"err {showErr e}"
      | .ok hs => s!"ok {showHits hs}"
    | _, _, _, _, _, _ => "bad-op"
  | [.atom "spec", k, hs] =>
    match opt? nat? k, listOf? hit? hs with
    | some (some k), some hs => showHits (topK k hs)
    | some none, some hs => showHits (rankAll hs)
    | _, _ => "bad-op"
  | _ => "bad-op"

end WM.Drv.C05
