import WM.Proto
import WM.Model.Numeric
import WM.Spec.Numeric
import WM.Model.NumericDate
import WM.Lemmas.NumericEqualBounds
namespace WM.Drv.C13
open WM.Proto WM.Proto.SExp WM.Numeric WM.NumericSpec WM.NumericDate

def showR (r : R) : String := s!"({r.lo} {r.hi} {r.shift})"
def showRs (rs : List R) : String := showList showR rs
/-- Canonical form for comparison: what the consumer sees after shifting. -/
def showRc (r : R) : String := s!"({r.lo >>> r.shift} {r.hi >>> r.shift} {r.shift})"
def showRcs (rs : List R) : String := showList showRc rs

def showEx {α} (f : α → String) : Except Err α → String
  | .ok a => "ok " ++ f a
  | .error e => "err " ++ e.name

def showSub : Sub → String
  | .term t => s!"(t {showHex t})"
  | .range a b => s!"(r {showHex a} {showHex b})"

def optInt? (e : SExp) : Option (Option Int) := opt? int? e
def optNat? (e : SExp) : Option (Option Nat) := opt? nat? e

def showADT (p : ADT) : String :=
  let f (o : Option Nat) : String := match o with | some v => toString v | none => "none"
  s!"({f p.year} {f p.month} {f p.day} {f p.hour} {f p.minute} {f p.second} {f p.micro})"

def showOptInt : Option Int → String
  | some v => toString v
  | none => "none"

def showDQ : DQ → String
  | .error => "error"
  | .range a b => s!"range {a} {b}"
  | .term a => s!"term {a}"

def optCodes? (e : SExp) : Option (Option (List Nat)) :=
  match e with
  | .atom "none" => some none
  | e => (natList? e).map some

/-- Date-layer requests (round 3). -/
def handleDate : List SExp → Option String
  | [.atom "ordinal", y, m, d] =>
    match y.nat?, m.nat?, d.nat? with
    | some y, some m, some d => some (toString (ordinal y m d))
    | _, _, _ => some "bad-op"
  | [.atom "dim", y, m] =>
    match y.nat?, m.nat? with
    | some y, some m => some (toString (daysInMonth (isLeap y) m))
    | _, _ => some "bad-op"
  | [.atom "civil2long", y, m, d, h, mi, s, us] =>
    match y.nat?, m.nat?, d.nat?, h.nat?, mi.nat?, s.nat?, us.nat? with
    | some y, some m, some d, some h, some mi, some s, some us =>
      some (showEx toString ((mkDatetime y m d h mi s us).map civilToLong))
    | _, _, _, _, _, _, _ => some "bad-op"
  | [.atom "dt-parse", cs] =>
    match natList? cs with
    | some cs => some (showEx showADT (parseDatestring cs))
    | none => some "bad-op"
  | [.atom "dt-bounds", cs] =>
    match natList? cs with
    | some cs => some (showEx (fun (p : Int × Int) => s!"{p.1} {p.2}") (do
        let p ← parseDatestring cs
        let f ← p.floor
        let c ← p.ceil
        pure (civilToLong f, civilToLong c)))
    | none => some "bad-op"
  | [.atom "dt-prepare", cs] =>
    match natList? cs with
    | some cs => some (showEx toString (prepareDateText cs))
    | none => some "bad-op"
  | [.atom "dt-parse-range", a, b, sx, ex] =>
    match optCodes? a, optCodes? b, sx.bool?, ex.bool? with
    | some a, some b, some sx, some ex =>
      some (showEx (fun (r : Option (Option Int × Option Int)) => match r with
        | none => "every"
        | some (x, y) => s!"range {showOptInt x} {showOptInt y}") (parseRange a b sx ex))
    | _, _, _, _ => some "bad-op"
  | [.atom "dt-parse-query", cs] =>
    match natList? cs with
    | some cs => some (showEx showDQ (parseQuery cs))
    | none => some "bad-op"
  | [.atom "tocol-int", n, sg, x] =>
    match n.nat?, sg.bool?, x.int? with
    | some n, some sg, some x => some (showEx toString (toColumnInt n sg x))
    | _, _, _ => some "bad-op"
  | [.atom "fromcol-int", n, sg, x] =>
    match n.nat?, sg.bool?, x.int? with
    | some n, some sg, some x => some (toString (fromColumnInt n sg x))
    | _, _, _ => some "bad-op"
  | [.atom "tocol-float", sg, b] =>
    match sg.bool?, b.nat? with
    | some sg, some b => some (showEx toString (toColumnFloat sg b))
    | _, _ => some "bad-op"
  | [.atom "fromcol-float", sg, x] =>
    match sg.bool?, x.int? with
    | some sg, some x => some (showEx toString (fromColumnFloat sg x))
    | _, _ => some "bad-op"
  | [.atom "tocol-dec", n, sg, dc, q] =>
    match n.nat?, sg.bool?, dc.nat?, q.rat? with
    | some n, some sg, some dc, some q => some (showEx toString (toColumnDecimal n sg dc q))
    | _, _, _, _ => some "bad-op"
  | [.atom "fromcol-dec", n, sg, dc, x] =>
    match n.nat?, sg.bool?, dc.nat?, x.int? with
    | some n, some sg, some dc, some x => some (showRat (fromColumnDecimal n sg dc x))
    | _, _, _, _ => some "bad-op"
  | [.atom "fromcol-dt", x] =>
    match x.int? with
    | some x => let t := fromColumnDatetime x; some s!"{t.days} {t.seconds} {t.micros}"
    | none => some "bad-op"
  | [.atom "long2civil", x] =>
    match x.int? with
    | some x => some (match longToCivil x with
      | some c => s!"ok {c.year} {c.month} {c.day} {c.hour} {c.minute} {c.second} {c.micro}"
      | none => "err OverflowError")
    | none => some "bad-op"
  | [.atom "ord2ymd", n] =>
    match n.nat? with
    | some n => let r := ord2ymd n; some s!"{r.1} {r.2.1} {r.2.2}"
    | none => some "bad-op"
  | [.atom "bool", cls] =>
    let x : Option BIn := match cls with
      | .atom "true" => some (.obj true)
      | .atom "false" => some (.obj false)
      | .atom "strtrue" => some .strTrue
      | .atom "strfalse" => some .strFalse
      | .atom "strother" => some (.strOther true)
      | .atom "strempty" => some (.strOther false)
      | .atom "star" => some .star
      | _ => none
    match x with
    | some x =>
      let q := match boolParseQuery x with
        | .every => "every"
        | .term b => s!"term {showBool b}"
      some s!"{showBool (objToBool x)} {showHex (boolToBytes x)} {showList showHex (boolIndex x)} {q}"
    | none => some "bad-op"
  | _ => none

/-- Protocol handler of family `c13` (requests arrive without the family token). -/
def handleCore : List SExp → String
  | [.atom "split", n, step, s, e] =>
    match n.nat?, step.nat?, s.nat?, e.nat? with
    | some n, some step, some s, some e =>
      if h : 0 < step then showRs (splitRanges n step h s e) else "bad-op"
    | _, _, _, _ => "bad-op"
  | [.atom "splitc", n, step, s, e] =>
    match n.nat?, step.nat?, s.nat?, e.nat? with
    | some n, some step, some s, some e =>
      if h : 0 < step then showRcs (splitRanges n step h s e) else "bad-op"
    | _, _, _, _ => "bad-op"
  | [.atom "tieredc-int", n, sg, s, e, step, sx, ex] =>
    match n.nat?, sg.bool?, optInt? s, optInt? e, step.nat?, sx.bool?, ex.bool? with
    | some n, some sg, some s, some e, some step, some sx, some ex =>
      showRcs (tieredInt n sg s e step sx ex)
    | _, _, _, _, _, _, _ => "bad-op"
  | [.atom "tieredc-float", sg, s, e, step, sx, ex] =>
    match sg.bool?, optNat? s, optNat? e, step.nat?, sx.bool?, ex.bool? with
    | some sg, some s, some e, some step, some sx, some ex =>
      showEx showRcs (tieredFloat sg s e step sx ex)
    | _, _, _, _, _, _ => "bad-op"
  | [.atom "tiered-int", n, sg, s, e, step, sx, ex] =>
    match n.nat?, sg.bool?, optInt? s, optInt? e, step.nat?, sx.bool?, ex.bool? with
    | some n, some sg, some s, some e, some step, some sx, some ex =>
      showRs (tieredInt n sg s e step sx ex)
    | _, _, _, _, _, _, _ => "bad-op"
  | [.atom "tiered-float", sg, s, e, step, sx, ex] =>
    match sg.bool?, optNat? s, optNat? e, step.nat?, sx.bool?, ex.bool? with
    | some sg, some s, some e, some step, some sx, some ex =>
      showEx showRs (tieredFloat sg s e step sx ex)
    | _, _, _, _, _, _ => "bad-op"
  | [.atom "tosort-int", n, sg, x] =>
    match n.nat?, sg.bool?, x.int? with
    | some n, some sg, some x => toString (toSortableInt n sg x)
    | _, _, _ => "bad-op"
  | [.atom "fromsort-int", n, sg, x] =>
    match n.nat?, sg.bool?, x.int? with
    | some n, some sg, some x => toString (fromSortableInt n sg x)
    | _, _, _ => "bad-op"
  | [.atom "fsort", sg, b] =>
    match sg.bool?, b.nat? with
    | some sg, some b => showEx toString (floatToSortable b sg)
    | _, _ => "bad-op"
  | [.atom "funsort", sg, x] =>
    match sg.bool?, x.int? with
    | some sg, some x => showEx toString (sortableToFloat x sg)
    | _, _ => "bad-op"
  | [.atom "flt", a, b] =>
    match a.nat?, b.nat? with
    | some a, some b => showBool (fLt a b)
    | _, _ => "bad-op"
  | [.atom "pycmp", a, b] =>
    -- Python's `<`, `<=`, `==` on two doubles (the spec's ieeeLt / ieeeLe and pyEq)
    match a.nat?, b.nat? with
    | some a, some b =>
      let f (x : Bool) : String := if x then "1" else "0"
      s!"{f (ieeeLt a b)} {f (ieeeLe a b)} {f (pyEq a b)}"
    | _, _ => "bad-op"
  | [.atom "totallt", a, b] =>
    match a.nat?, b.nat? with
    | some a, some b => showBool (totalLt a b)
    | _, _ => "bad-op"
  | [.atom "prepare-int", n, sg, x] =>
    match n.nat?, sg.bool?, x.int? with
    | some n, some sg, some x => showEx toString (prepareInt n sg x)
    | _, _, _ => "bad-op"
  | [.atom "prepare-float", sg, b] =>
    match sg.bool?, b.nat? with
    | some sg, some b => showEx toString (prepareFloat sg b)
    | _, _ => "bad-op"
  | [.atom "minmax-int", n, sg] =>
    match n.nat?, sg.bool? with
    | some n, some sg => let (a, b) := minMaxInt n sg; s!"{a} {b}"
    | _, _ => "bad-op"
  | [.atom "minmax-float", sg] =>
    match sg.bool? with
    | some sg => showEx (fun (p : Nat × Nat) => s!"{p.1} {p.2}") (minMaxFloat sg)
    | _ => "bad-op"
  | [.atom "tobytes-int", w, sg, x, sh] =>
    match w.nat?, sg.bool?, x.int?, sh.nat? with
    | some w, some sg, some x, some sh => showEx showHex (toBytesInt w sg x sh)
    | _, _, _, _ => "bad-op"
  | [.atom "tobytes-float", sg, b, sh] =>
    match sg.bool?, b.nat?, sh.nat? with
    | some sg, some b, some sh => showEx showHex (toBytesFloat sg b sh)
    | _, _, _ => "bad-op"
  | [.atom "frombytes-int", w, sg, .atom hex] =>
    match w.nat?, sg.bool?, hexBytes? hex with
    | some w, some sg, some bs => toString (fromBytesInt w sg bs)
    | _, _, _ => "bad-op"
  | [.atom "index-int", w, sg, step, x] =>
    match w.nat?, sg.bool?, step.nat?, x.int? with
    | some w, some sg, some step, some x =>
      showEx (showList showHex) (do
        let x ← prepareInt (8 * w) sg x
        indexTerms w step (toSortableInt (8 * w) sg x).toNat)
    | _, _, _, _ => "bad-op"
  | [.atom "index-int-list", w, sg, step, xs] =>
    match w.nat?, sg.bool?, step.nat?, intList? xs with
    | some w, some sg, some step, some xs =>
      showEx (showList showHex) (do
        let ys ← xs.mapM fun x => do
          let x ← prepareInt (8 * w) sg x
          pure (toSortableInt (8 * w) sg x).toNat
        indexTermsList w step ys)
    | _, _, _, _ => "bad-op"
  | [.atom "index-float", sg, step, b] =>
    match sg.bool?, step.nat?, b.nat? with
    | some sg, some step, some b =>
      showEx (showList showHex) (do
        let b ← prepareFloat sg b
        let s ← floatToSortable b sg
        indexTerms 8 step s.toNat)
    | _, _, _ => "bad-op"
  | [.atom "index-float-list", sg, step, bs] =>
    match sg.bool?, step.nat?, natList? bs with
    | some sg, some step, some bs =>
      showEx (showList showHex) (do
        let ys ← bs.mapM fun b => do
          let b ← prepareFloat sg b
          let s ← floatToSortable b sg
          pure s.toNat
        indexTermsList 8 step ys)
    | _, _, _ => "bad-op"
  | [.atom "compile-int", w, sg, step, s, e, sx, ex] =>
    match w.nat?, sg.bool?, step.nat?, optInt? s, optInt? e, sx.bool?, ex.bool? with
    | some w, some sg, some step, some s, some e, some sx, some ex =>
      showEx (showList showSub) (compileInt w sg step s e sx ex)
    | _, _, _, _, _, _, _ => "bad-op"
  | [.atom "compile-float", sg, step, s, e, sx, ex] =>
    match sg.bool?, step.nat?, optNat? s, optNat? e, sx.bool?, ex.bool? with
    | some sg, some step, some s, some e, some sx, some ex =>
      showEx (showList showSub) (compileFloat sg step s e sx ex)
    | _, _, _, _, _, _ => "bad-op"
  | [.atom "compile-dec", w, sg, step, dc, s, e, sx, ex] =>
    match w.nat?, sg.bool?, step.nat?, dc.nat?, opt? rat? s, opt? rat? e, sx.bool?, ex.bool? with
    | some w, some sg, some step, some dc, some s, some e, some sx, some ex =>
      showEx (showList showSub) (compileDecimal w sg step dc s e sx ex)
    | _, _, _, _, _, _, _, _ => "bad-op"
  | [.atom "dt2long", d, s, u] =>
    match d.int?, s.int?, u.int? with
    | some d, some s, some u => toString (tdToUsecs ⟨d, s, u⟩)
    | _, _, _ => "bad-op"
  | [.atom "long2dt", x] =>
    match x.int? with
    | some x => let t := longToTD x; s!"{t.days} {t.seconds} {t.micros}"
    | _ => "bad-op"
  | [.atom "dec2int", dc, q] =>
    match dc.nat?, q.rat? with
    | some dc, some q => toString (decimalToInt dc q)
    | _, _ => "bad-op"
  | [.atom "prepare-dec", n, sg, dc, q] =>
    match n.nat?, sg.bool?, dc.nat?, q.rat? with
    | some n, some sg, some dc, some q => showEx toString (prepareDecimal n sg dc q)
    | _, _, _, _ => "bad-op"
  | [.atom "int2dec", dc, x] =>
    match dc.nat?, x.int? with
    | some dc, some x => showRat (unprepareDecimal dc x)
    | _, _ => "bad-op"
  | [.atom "spec-filter-int", docs, s, e, sx, ex] =>
    match listOf? intList? docs, optInt? s, optInt? e, sx.bool?, ex.bool? with
    | some docs, some s, some e, some sx, some ex => showNatList (filterIdx intLt docs s e sx ex)
    | _, _, _, _, _ => "bad-op"
  | [.atom "spec-filter-float", docs, s, e, sx, ex] =>
    match listOf? natList? docs, optNat? s, optNat? e, sx.bool?, ex.bool? with
    | some docs, some s, some e, some sx, some ex => showNatList (filterIdx totalLt docs s e sx ex)
    | _, _, _, _, _ => "bad-op"
  | [.atom "spec-sort-int", vals] =>
    match intList? vals with
    | some vals => showNatList (sortIdx intLt vals)
    | _ => "bad-op"
  | [.atom "spec-filter-num", docs, s, e, sx, ex] =>
    match listOf? natList? docs, optNat? s, optNat? e, sx.bool?, ex.bool? with
    | some docs, some s, some e, some sx, some ex => showNatList (filterIdxNum docs s e sx ex)
    | _, _, _, _, _ => "bad-op"
  | [.atom "spec-filter-rat", docs, s, e, sx, ex] =>
    match listOf? (listOf? rat?) docs, opt? rat? s, opt? rat? e, sx.bool?, ex.bool? with
    | some docs, some s, some e, some sx, some ex => showNatList (filterIdx ratLt docs s e sx ex)
    | _, _, _, _, _ => "bad-op"
  | [.atom "spec-sort-float", vals] =>
    match natList? vals with
    | some vals => showNatList (sortIdx totalLt vals)
    | _ => "bad-op"
  | _ => "bad-op"

def handle (req : List SExp) : String :=
  match handleDate req with
  | some r => r
  | none => handleCore req

end WM.Drv.C13
