import WM.Proto
import WM.Model.Normalize
import WM.Model.NormalizeExc
import WM.Model.NormalizeReader
import WM.Model.NormalizeDedupe
import WM.Model.NormalizeNested
import WM.Spec.Sat
import WM.Spec.Clean
import WM.Spec.CleanS
namespace WM.Drv.C15
open WM.Proto WM.Normalize WM.Sat

/-! Wire format of query trees (see `harness/gen/normalize.py`, `q2s`):
`null`, `(every F B)`, `(term F T B)`, `(pre F T B CS)`, `(wild F T B CS)`, `(multi K F T KEY B)`,
`(range F LO HI LX HX B CS)`, `(phrase F (T..) SLOP B)`, `(and|or|dismax (Q..) B)`,
`(seq CLS (Q..) SLOP ORD B)`, `(not Q B)`, `(andnot|andmaybe|require|otherwise A B)`,
`(const Q S)`; `F` a field id or `none`, `T` a list of code points, `B` a rational. -/

def text? (e : SExp) : Option Text := e.natList?

def ck? : String → Option CK
  | "and" => some .and | "or" => some .or | "dismax" => some .dismax | _ => none
def bk? : String → Option BK
  | "andnot" => some .andnot | "andmaybe" => some .andmaybe | "require" => some .require
  | "otherwise" => some .otherwise | _ => none

mutual
partial def q? : SExp → Option Q
  | .atom "null" => some .null
  | .list [.atom "every", f, b] => do some (.every (← f.opt? SExp.nat?) (← b.rat?))
  | .list [.atom "term", f, t, b] => do some (.term (← f.nat?) (← text? t) (← b.rat?))
  | .list [.atom "pre", f, t, b, c] => do some (.pre (← f.nat?) (← text? t) (← b.rat?) (← c.bool?))
  | .list [.atom "wild", f, t, b, c] => do some (.wild (← f.nat?) (← text? t) (← b.rat?) (← c.bool?))
  | .list [.atom "multi", k, f, t, key, b] => do
    some (.multi (← k.nat?) (← f.nat?) (← text? t) (← key.nat?) (← b.rat?))
  | .list [.atom "range", f, lo, hi, lx, hx, b, c] => do
    some (.range (← f.nat?) (← lo.opt? text?) (← hi.opt? text?) (← lx.bool?) (← hx.bool?) (← b.rat?)
      (← c.bool?))
  | .list [.atom "phrase", f, ws, s, b] => do
    some (.phrase (← f.nat?) (← ws.listOf? text?) (← s.nat?) (← b.rat?))
  | .list [.atom "seq", c, qs, s, o, b] => do
    some (.seq (← c.bool?) (← qs? qs) (← s.nat?) (← o.bool?) (← b.rat?))
  | .list [.atom "not", q, b] => do some (.not (← q? q) (← b.rat?))
  | .list [.atom "const", q, s] => do some (.const (← q? q) (← s.rat?))
  | .list [.atom "opq", f, c] => do some (.opq (← f.opt? SExp.nat?) (← c.natList?))
  | .list [.atom tag, x, y] =>
    match ck? tag, bk? tag with
    | some k, _ => do some (.comp k (← qs? x) (← y.rat?))
    | _, some k => do some (.bin k (← q? x) (← q? y))
    | _, _ => none
  | _ => none
partial def qs? : SExp → Option (List Q)
  | .list xs => xs.mapM q?
  | _ => none
end

def showText (t : Text) : String := showNatList t
def showCK : CK → String
  | .and => "and" | .or => "or" | .dismax => "dismax"
def showBK : BK → String
  | .andnot => "andnot" | .andmaybe => "andmaybe" | .require => "require" | .otherwise => "otherwise"

mutual
def showQ : Q → String
  | .null => "null"
  | .every f b => s!"(every {showOpt toString f} {showRat b})"
  | .term f t b => s!"(term {f} {showText t} {showRat b})"
  | .pre f t b c => s!"(pre {f} {showText t} {showRat b} {showBool c})"
  | .wild f t b c => s!"(wild {f} {showText t} {showRat b} {showBool c})"
  | .multi k f t key b => s!"(multi {k} {f} {showText t} {key} {showRat b})"
  | .range f lo hi lx hx b c =>
    s!"(range {f} {showOpt showText lo} {showOpt showText hi} {showBool lx} {showBool hx} {showRat b} {showBool c})"
  | .phrase f ws s b => s!"(phrase {f} {showList showText ws} {s} {showRat b})"
  | .comp k qs b => s!"({showCK k} ({showQs qs}) {showRat b})"
  | .seq c qs s o b => s!"(seq {showBool c} ({showQs qs}) {s} {showBool o} {showRat b})"
  | .not q b => s!"(not {showQ q} {showRat b})"
  | .bin k a b => s!"({showBK k} {showQ a} {showQ b})"
  | .const q s => s!"(const {showQ q} {showRat s})"
  | .opq f c => s!"(opq {showOpt toString f} {showNatList c})"
def showQs : List Q → String
  | [] => ""
  | [q] => showQ q
  | q :: qs => showQ q ++ " " ++ showQs qs
end

/-! ### Environments for the oracle

`(env (docs (ID (F tok tok ..) (F ..)) ..) (multi (K F T KEY (term ..)) ..) (seq (CLS SLOP ORD (Q..) (docid ..)) ..))`
-/

/-- `fnmatch.translate`'s reading of a bracket expression (text after the `[`): optional `!`,
    an optional leading `]`, then everything up to the next `]`; `a-c` is a range. -/
def bracketFn (rest : Text) : Option ((Nat → Bool) × Nat) :=
  let neg := rest.head? == some 33
  let body0 := if neg then rest.drop 1 else rest
  -- a `]` right at the start is a member, not the end
  let lead := body0.head? == some 93
  let body1 := if lead then body0.drop 1 else body0
  let n := body1.idxOf 93
  if n ≥ body1.length then none else
  let stuff := (if lead then [93] else []) ++ body1.take n
  let consumed := (if neg then 1 else 0) + (if lead then 1 else 0) + n + 1
  let rec members : List Nat → (Nat → Bool)
    | a :: 45 :: b :: more => fun c => (a ≤ c && c ≤ b) || members more c
    | a :: more => fun c => c == a || members more c
    | [] => fun _ => false
  let p := members stuff
  if stuff.isEmpty then
    -- "[]" cannot happen (lead), "[!]" likewise; kept for totality
    some ((fun _ => neg), consumed)
  else some ((fun c => if neg then !p c else p c), consumed)

def doc? (e : SExp) : Option Doc := do
  let xs ← e.list?
  match xs with
  | idx :: flds =>
    let id ← idx.nat?
    let fs ← flds.mapM fun fe => do
      let ys ← fe.list?
      match ys with
      | f :: toks => some (← f.nat?, ← toks.mapM text?)
      | [] => none
    some { id := id, toks := fun f => (fs.filter (·.1 == f)).flatMap (·.2) }
  | [] => none

structure MultiRow where
  k : Nat
  f : Field
  t : Text
  key : Nat
  terms : List Text

def multiRow? (e : SExp) : Option MultiRow := do
  match ← e.list? with
  | [k, f, t, key, terms] =>
    some ⟨← k.nat?, ← f.nat?, ← text? t, ← key.nat?, ← terms.listOf? text?⟩
  | _ => none

structure SeqRow where
  cls : Bool
  slop : Nat
  ord : Bool
  qs : List Q
  docs : List Nat

def seqRow? (e : SExp) : Option SeqRow := do
  match ← e.list? with
  | [c, s, o, qs, docs] => some ⟨← c.bool?, ← s.nat?, ← o.bool?, ← qs? qs, ← docs.natList?⟩
  | _ => none

structure OpqRow where
  code : List Nat
  docs : List Nat

def opqRow? (e : SExp) : Option OpqRow := do
  match ← e.list? with
  | [c, docs] => some ⟨← c.natList?, ← docs.natList?⟩
  | _ => none

def mkEnv (ds ms ss os : List SExp) : Option Env := do
  let docs ← ds.mapM doc?
  let mrows ← ms.mapM multiRow?
  let srows ← ss.mapM seqRow?
  let orows ← os.mapM opqRow?
  some {
    multi := fun k f t key x =>
      mrows.any fun r => r.k == k && r.f == f && r.t == t && r.key == key && r.terms.contains x
    bracket := bracketFn
    seqPos := fun c s o qs d =>
      srows.any fun r => r.cls == c && r.slop == s && r.ord == o && Q.beqList r.qs qs
        && r.docs.contains d.id
    opq := fun c d => orows.any fun r => r.code == c && r.docs.contains d.id
    index := docs }

/-- `(env (docs ..) (multi ..) (seq ..) [(opq ((code ..) (docid ..)) ..)])` -/
def env? (e : SExp) : Option Env := do
  match ← e.list? with
  | [.atom "env", .list (.atom "docs" :: ds), .list (.atom "multi" :: ms), .list (.atom "seq" :: ss)] =>
    mkEnv ds ms ss []
  | [.atom "env", .list (.atom "docs" :: ds), .list (.atom "multi" :: ms), .list (.atom "seq" :: ss),
      .list (.atom "opq" :: os)] =>
    mkEnv ds ms ss os
  | _ => none

def showTags (ts : List String) : String := "(" ++ " ".intercalate ts ++ ")"

/-- Reader for `simplify`/`estimate_size`:
    `(reader (schema F ..) (lex (F term ..) ..) [(dead (ID (F tok ..) ..) ..)])`; `dead` are the deleted
    documents that `doc_frequency` still counts. -/
def reader? (env : Env) (e : SExp) : Option Reader := do
  let mk (fs ls ds : List SExp) : Option Reader := do
    let fields ← fs.mapM SExp.nat?
    let lex ← ls.mapM fun le => do
      match ← le.list? with
      | f :: terms => some (← f.nat?, ← terms.mapM text?)
      | [] => none
    let dead ← ds.mapM doc?
    some {
      fields := fields
      lexicon := fun f => (lex.filter (·.1 == f)).flatMap (·.2)
      docs := env.index
      dead := dead }
  match ← e.list? with
  | [.atom "reader", .list (.atom "schema" :: fs), .list (.atom "lex" :: ls)] => mk fs ls []
  | [.atom "reader", .list (.atom "schema" :: fs), .list (.atom "lex" :: ls), .list (.atom "dead" :: ds)] =>
    mk fs ls ds
  | _ => none

def showOptNat : Option Nat → String
  | none => "err"
  | some n => toString n

/-- result of an exception-monad model function: the tree, or `raises:<Python exception class>` -/
def showExc : Except Err Q → String
  | .ok q => showQ q
  | .error .assertion => "raises:AssertionError"

def handle : List SExp → String
  | [.atom "norm", q] =>
    match q? q with
    | some q => showExc (normalizeE q)
    | none => "bad-op"
  | [.atom "norm2", q] =>
    match q? q with
    | some q => showExc (normalizeE q >>= normalizeE)
    | none => "bad-op"
  | [.atom "op", .atom o, a, b] =>
    match q? a, q? b with
    | some a, some b =>
      match o with
      | "and" => showExc (opAndE a b)
      | "or" => showExc (opOrE a b)
      | "sub" => showExc (opSubE a b)
      | _ => "bad-op"
    | _, _ => "bad-op"
  | [.atom "dedupeby", n, pairs] =>
    -- clauses 0..n-1, `pairs` = the (i j) for which clause i answers "already seen" against clause j
    let pair? : SExp → Option (Nat × Nat) := fun e =>
      match e with
      | .list [i, j] => do some ((← i.nat?), (← j.nat?))
      | _ => none
    match n.nat?, pairs.listOf? pair? with
    | some n, some ps =>
      showNatList (WM.NormalizeDedupe.dedupeBy (WM.NormalizeDedupe.tableEqv ps) [] (List.range n))
    | _, _ => "bad-op"
  | [.atom "nparentnorm", p, c] =>
    -- NestedParent(p, c).normalize(): `null` or the two normalized sub-queries
    match q? p, q? c with
    | some p, some c =>
      match (WM.NormalizeNested.NParent.mk p c none 0).normalize with
      | none => "null"
      | some m => "(" ++ showQ m.parents ++ " " ++ showQ m.child ++ ")"
    | _, _ => "bad-op"
  | [.atom "nparentanswer", e, lens, p, c] =>
    -- documents NestedParent(p, c) returns on the index of `e` cut into segments of the given sizes
    match env? e, lens.natList?, q? p, q? c with
    | some env, some lens, some p, some c =>
      showNatList (WM.NormalizeNested.parentAnswer env (WM.NormalizeNested.splitSegs lens env.index)
        (WM.NormalizeNested.NParent.mk p c none 0))
    | _, _, _, _ => "bad-op"
  | [.atom "overlaps", a, b] =>
    match (q? a).bind Q.asRange, (q? b).bind Q.asRange with
    | some a, some b => showBool (a.overlaps b)
    | _, _ => "bad-op"
  | [.atom "merge", a, b, i] =>
    match (q? a).bind Q.asRange, (q? b).bind Q.asRange, i.bool? with
    | some a, some b, some i => showExc ((a.mergeE b i).map Rng.toQ)
    | _, _, _ => "bad-op"
  | [.atom "boost", q, b] =>
    match q? q, b.rat? with
    | some q, some b => showQ (q.withBoost b)
    | _, _ => "bad-op"
  | [.atom "replace", f, old, new, q] =>
    match f.nat?, text? old, text? new, q? q with
    | some f, some o, some n, some q => showQ (replace f o n q)
    | _, _, _, _ => "bad-op"
  | [.atom "accept", q] =>
    match q? q with
    | some q => showQ (acceptId q)
    | none => "bad-op"
  | [.atom "applyid", q] =>
    match q? q with
    | some q => showQ (applyId q)
    | none => "bad-op"
  | [.atom "beq", a, b] =>
    match q? a, q? b with
    | some a, some b => showBool (a == b)
    | _, _ => "bad-op"
  | [.atom "field", q] =>
    match q? q with
    | some q => showOpt toString q.field
    | none => "bad-op"
  | [.atom "defects", q] =>
    match q? q with
    | some q =>
      showTags (WM.Clean.defects q ++ (if WM.Clean.emptyOk q then [] else ["open-excl-start"])) ++ " "
        ++ showBool (WM.Clean.clean q && WM.Clean.emptyOk q)
    | none => "bad-op"
  | [.atom "answers", e, qs] =>
    match env? e, qs? qs with
    | some env, some qs => showList (fun q => showNatList (answer env q)) qs
    | _, _ => "bad-op"
  | [.atom "simplify", e, r, qs] =>
    match env? e with
    | some env =>
      match reader? env r, qs? qs with
      | some rd, some qs => showList (fun q => showQ (simplify env.multi env.bracket rd q)) qs
      | _, _ => "bad-op"
    | none => "bad-op"
  | [.atom "sdefects", e, r, q] =>
    match env? e with
    | some env =>
      match reader? env r, q? q with
      | some rd, some q =>
        showTags (WM.Clean.defectsS env.multi env.bracket rd q
            ++ (if WM.Clean.emptyOkS env.multi env.bracket rd q then [] else ["open-excl-start"])) ++ " "
          ++ showBool (WM.Clean.cleanS env.multi env.bracket rd q && WM.Clean.emptyOkS env.multi env.bracket rd q)
      | _, _ => "bad-op"
    | none => "bad-op"
  | [.atom "estimate", e, r, qs] =>
    match env? e with
    | some env =>
      match reader? env r, qs? qs with
      | some rd, some qs => showList (fun q => showOptNat (estimate env.multi env.bracket rd q)) qs
      | _, _ => "bad-op"
    | none => "bad-op"
  | _ => "bad-op"

end WM.Drv.C15
