import WM.Proto
import WM.Model.Index
/-!
Protocol of the index family (C07; C06 and C18 reuse the parsers and the runner).

`c07 run <dump> <schema> <docs> <sessions>` executes a whole history on the model *and* on the
dictionary specification, in lock step, and answers one line:

* `<dump>`     `0` keys only, `1` also the global posting list and statistics
* `<schema>`   `((f ...) (u ...))` field ids / unique field ids
* `<docs>`     `((key (fld stored ((term w v) ...) len col vec ukey) ...) ...)`, options as `-`
* `<sessions>` `((op ...) end)` with
  `op  := (add i) | (upd i) | (deld n) | (undel n) | (delq Q) | (addf f u) | (remf f)`
  `end := (commit nomerge|small|optimize|clear) | (cancel)`
  `Q   := (term f t) | (key k) | (every) | (and Q Q) | (or Q Q) | (not Q)`

Answer: per session `(results toc model spec [posts])`:
`results` one token per op (`ok`, `(count model spec)`, `(err name)`), `toc` the model's segment
list `((doc_count_all (deleted ...) (key ...)) ...)`, `model`/`spec` the content as
`((key visible-field ...) ...)`.
-/
namespace WM.Drv.C07
open WM.Proto WM.Proto.SExp WM.Dict WM.Index

def tok? : SExp → Option Tok
  | .list [a, b, c] => do pure ⟨← a.nat?, ← b.nat?, ← c.nat?⟩
  | _ => none

def fieldData? : SExp → Option FieldData
  | .list [f, st, tk, ln, cl, vc, uk] => do
    pure { fld := ← f.nat?, stored := ← opt? nat? st, toks := ← listOf? tok? tk, len := ← ln.nat?,
           col := ← opt? nat? cl, vec := ← opt? nat? vc, ukey := ← opt? nat? uk }
  | _ => none

def docRec? : SExp → Option DocRec
  | .list (k :: fds) => do pure { key := ← k.nat?, fields := ← fds.mapM fieldData? }
  | _ => none

def schema? : SExp → Option Schema
  | .list [fs, us] => do pure { fields := ← natList? fs, uniques := ← natList? us }
  | _ => none

partial def qexpr? : SExp → Option QExpr
  | .list [.atom "term", f, t] => do pure (.term (← f.nat?) (← t.nat?))
  | .list [.atom "key", k] => do pure (.keyEq (← k.nat?))
  | .list [.atom "every"] => some .every
  | .list [.atom "and", a, b] => do pure (.and (← qexpr? a) (← qexpr? b))
  | .list [.atom "or", a, b] => do pure (.or (← qexpr? a) (← qexpr? b))
  | .list [.atom "not", a] => do pure (.not (← qexpr? a))
  | _ => none

/-- A top-level term query is answered from the term index, everything else is a predicate. -/
def toQuery : QExpr → Query
  | .term f t => .term f t
  | q => .pred q.sat

inductive Op where
  | add (i : Nat) | upd (i : Nat) | deld (n : Nat) | undel (n : Nat) | delq (q : QExpr)
  | addf (f : Nat) (u : Bool) | remf (f : Nat)
deriving Inhabited

inductive End where
  | commit (k : MergeKind) | cancel
deriving Inhabited

def op? : SExp → Option Op
  | .list [.atom "add", i] => .add <$> i.nat?
  | .list [.atom "upd", i] => .upd <$> i.nat?
  | .list [.atom "deld", n] => .deld <$> n.nat?
  | .list [.atom "undel", n] => .undel <$> n.nat?
  | .list [.atom "delq", q] => .delq <$> qexpr? q
  | .list [.atom "addf", f, u] => do pure (.addf (← f.nat?) (← u.bool?))
  | .list [.atom "remf", f] => .remf <$> f.nat?
  | _ => none

def kind? : SExp → Option MergeKind
  | .atom "nomerge" => some .noMerge
  | .atom "small" => some .mergeSmall
  | .atom "optimize" => some .optimize
  | .atom "clear" => some .clear
  | _ => none

def end? : SExp → Option End
  | .list [.atom "commit", k] => .commit <$> kind? k
  | .list [.atom "cancel"] => some .cancel
  | _ => none

def session? : SExp → Option (List Op × End)
  | .list [ops, e] => do pure (← listOf? op? ops, ← end? e)
  | _ => none

def showErr : Err → String
  | .noSuchDoc => "(err noSuchDoc)"
  | .unknownField => "(err unknownField)"
  | .schemaLocked => "(err schemaLocked)"
  | .fieldExists => "(err fieldExists)"
  | .noSuchField => "(err noSuchField)"
  | .indexError => "(err indexError)"
  | .keyError => "(err keyError)"

def showDoc (d : DocRec) : String := showNatList (d.key :: d.fields.map (·.fld))
def showDocs (ds : List DocRec) : String := showList showDoc ds

def insertSorted (x : Nat) : List Nat → List Nat
  | [] => [x]
  | y :: r => if x ≤ y then x :: y :: r else y :: insertSorted x r
def sortNats (xs : List Nat) : List Nat := xs.foldr insertSorted []

def showSeg (s : Seg) : String :=
  s!"({s.docCountAll} {showNatList (sortNats s.deleted)} {showNatList (s.docs.map (·.key))})"

def showPosting (segs : List Seg) (p : Posting) : String :=
  let k := match docAt segs p.doc with | some d => toString d.key | none => "?"
  s!"({p.fld} {p.term} {p.doc} {k} {p.w} {p.v})"

def toOp (docs : Array DocRec) : Op → Option Index.Op
  | .add i => docs[i]?.map .add
  | .upd i => docs[i]?.map .update
  | .deld n => some (.delDoc n)
  | .undel n => some (.undelDoc n)
  | .delq q => some (.delBy (toQuery q))
  | .addf f u => some (.addField f u)
  | .remf f => some (.removeField f)

def showOutcome (ss : Sess) (o : Op) : Outcome → String
  | .ok => "ok"
  | .err e => showErr e
  | .count c =>
    -- second number: how many committed documents of the specification match the query
    match o with
    | .delq q => s!"(count {c} {(ss.committed.filter q.sat).length})"
    | _ => s!"(count {c} ?)"

/-- One step of the model (`Writer.step`) and of the specification (`Sess.step` on the
    operation `Writer.specOp` names), side by side. -/
def stepOp (docs : Array DocRec) (st : Writer × Sess) (o : Op) : (Writer × Sess) × String :=
  match toOp docs o with
  | none => (st, "(err nodoc)")
  | some mo =>
    let (w', out) := st.1.step mo
    ((w', st.2.step (st.1.specOp mo)), showOutcome st.2 o out)

def runOps (docs : Array DocRec) : (Writer × Sess) → List Op → List String → (Writer × Sess) × List String
  | st, [], acc => (st, acc.reverse)
  | st, o :: r, acc => let (st', s) := stepOp docs st o; runOps docs st' r (s :: acc)

def dedupPairs : List (Nat × Nat) → List (Nat × Nat) → List (Nat × Nat)
  | [], acc => acc.reverse
  | x :: r, acc => if acc.contains x then dedupPairs r acc else dedupPairs r (x :: acc)

/-- `(fld term df weight)` for every term physically present in a schema field, and `(fld total)`
    field lengths. -/
def showStats (t : Toc) : String :=
  let terms := dedupPairs ((t.segs.flatMap (fun s => s.posts)).filter (fun p => t.schema.has p.fld)
                 |>.map (fun p => (p.fld, p.term))) []
  let ts := terms.map fun (f, tm) => s!"({f} {tm} {t.docFrequency f tm} {t.termWeight f tm})"
  let fl := t.schema.fields.map fun f => s!"({f} {t.fieldLength f})"
  s!"({" ".intercalate ts}) ({" ".intercalate fl})"

def showState (dump : Nat) (t : Toc) (sp : State) (res : List String) : String :=
  let base := s!"({showList id res} {showList showSeg t.segs} {showDocs t.content} {showDocs sp.docs}"
  if dump == 0 then base ++ ")"
  else base ++ " " ++ showList (showPosting t.segs) (globalPosts t.schema t.segs 0) ++ " " ++ showStats t ++ ")"

def runSessions (dump : Nat) (docs : Array DocRec) : Toc → State → List (List Op × End) → List String → List String
  | _, _, [], acc => acc.reverse
  | t, sp, (ops, e) :: rest, acc =>
    let ((w, ss), res) := runOps docs (t.writer, sp.open_) ops []
    match e with
    | .cancel => runSessions dump docs t sp rest (showState dump t sp res :: acc)
    | .commit k =>
      match w.commit k with
      | .error er => runSessions dump docs t sp rest (s!"({showList id res} {showErr er})" :: acc)
      | .ok t' =>
        let sp' := if k == .clear then ss.commitClear else ss.commit
        runSessions dump docs t' sp' rest (showState dump t' sp' res :: acc)

def handle : List SExp → String
  | [.atom "run", dump, sc, docs, sess] =>
    match dump.nat?, schema? sc, listOf? docRec? docs, listOf? session? sess with
    | some dump, some sc, some docs, some sess =>
      let t : Toc := { schema := sc, segs := [], gen := 0 }
      let sp : State := { schema := sc, docs := [] }
      showList id (runSessions dump docs.toArray t sp sess [])
    | _, _, _, _ => "bad-op"
  | [.atom "fib", n] =>
    match n.nat? with
    | some k => toString (fib k)
    | none => "bad-op"
  | _ => "bad-op"

end WM.Drv.C07
