import WM.Proto
import WM.Model.Parser
import WM.Spec.Parser
import WM.Model.ParserTag
namespace WM.Drv.C16
open WM.Proto WM.Parser

/-! Protocol plumbing for family `c16` (nothing here is part of a theorem). -/

def gk? : SExp → Option GK
  | .atom "and" => some .and
  | .atom "or" => some .or
  | .atom "dismax" => some .dismax
  | .atom "ordered" => some .ordered
  | .atom "seq" => some .seq
  | .atom "andnot" => some .andnot
  | .atom "andmaybe" => some .andmaybe
  | .atom "require" => some .require
  | .atom "not" => some .not
  | _ => none

def showGK : GK → String
  | .and => "and" | .or => "or" | .dismax => "dismax" | .ordered => "ordered" | .seq => "seq"
  | .andnot => "andnot" | .andmaybe => "andmaybe" | .require => "require" | .not => "not"

def opT? : SExp → Option OpT
  | .atom "pre" => some .pre
  | .atom "post" => some .post
  | .atom "inf" => some .inf
  | _ => none

def showOpT : OpT → String
  | .pre => "pre" | .post => "post" | .inf => "inf"

def str? (e : SExp) : Option Str := e.natList?
def optStr? (e : SExp) : Option (Option Str) := SExp.opt? str? e

def showStr (s : Str) : String := showNatList s
def showOptStr : Option Str → String := showOpt showStr

def tk? : SExp → Option TK
  | .atom "w" => some .word
  | .atom "wild" => some .wild
  | .atom "pre" => some .prefix
  | .atom "re" => some .regex
  | .list [.atom "ph", s] => s.nat?.map .phrase
  | .list [.atom "fz", a, b] => do some (.fuzzy (← a.nat?) (← b.nat?))
  | _ => none

def showTK : TK → String
  | .word => "w" | .wild => "wild" | .prefix => "pre" | .regex => "re"
  | .phrase s => s!"(ph {s})" | .fuzzy a b => s!"(fz {a} {b})"

def rel? : SExp → Option Rel
  | .atom "lt" => some .lt
  | .atom "gt" => some .gt
  | .atom "le" => some .le
  | .atom "el" => some .el
  | .atom "ge" => some .ge
  | .atom "eg" => some .eg
  | _ => none

def showRel : Rel → String
  | .lt => "lt" | .gt => "gt" | .le => "le" | .el => "el" | .ge => "ge" | .eg => "eg"

partial def node? : SExp → Option Node
  | .atom "ws" => some .ws
  | .atom "opn" => some .opn
  | .atom "cls" => some .cls
  | .atom "every" => some .every
  | .atom "plus" => some .plus
  | .atom "minus" => some .minus
  | .list [.atom "t", k, t, f, b] => do
    some (.text (← tk? k) (← str? t) (← optStr? f) (← b.rat?))
  | .list [.atom "r", s, e, sx, ex, f] => do
    some (.range (← optStr? s) (← optStr? e) (← sx.bool?) (← ex.bool?) (← optStr? f))
  | .list [.atom "fn", n, o] => do some (.fname (← str? n) (← str? o))
  | .list [.atom "op", t, g, la, txt] => do
    some (.op (← opT? t) (← gk? g) (← la.bool?) (← str? txt))
  | .list [.atom "bst", o, b] => do some (.bst (← str? o) (← b.rat?))
  | .list [.atom "fuzz", a, b, o] => do some (.fuzz (← a.nat?) (← b.nat?) (← str? o))
  | .list [.atom "gtlt", r] => do some (.gtlt (← rel? r))
  | .list [.atom "g", k, .list ns, b] => do
    some (.group (← gk? k) (← ns.mapM node?) (← b.rat?))
  | _ => none

partial def showNode : Node → String
  | .ws => "ws" | .opn => "opn" | .cls => "cls" | .every => "every" | .plus => "plus" | .minus => "minus"
  | .text k t f b => s!"(t {showTK k} {showStr t} {showOptStr f} {showRat b})"
  | .range s e sx ex f => s!"(r {showOptStr s} {showOptStr e} {showBool sx} {showBool ex} {showOptStr f})"
  | .fname n o => s!"(fn {showStr n} {showStr o})"
  | .op t g la txt => s!"(op {showOpT t} {showGK g} {showBool la} {showStr txt})"
  | .bst o b => s!"(bst {showStr o} {showRat b})"
  | .fuzz a b o => s!"(fuzz {a} {b} {showStr o})"
  | .gtlt r => s!"(gtlt {showRel r})"
  | .group k ns b => s!"(g {showGK k} {showList showNode ns} {showRat b})"

def filterId? : SExp → Option FilterId
  | .atom "do_groups" => some .groups
  | .atom "clean_boost" => some .cleanBoost
  | .atom "do_fuzzyterms" => some .fuzzy
  | .atom "do_wildcards" => some .wildcards
  | .atom "do_aliases" => some .aliases
  | .atom "do_gtlt" => some .gtlt
  | .atom "do_fieldnames" => some .fieldnames
  | .atom "do_copyfield" => some .copyfield
  | .atom "do_multifield" => some .multifield
  | .atom "remove_whitespace" => some .rmws
  | .atom "do_boost" => some .boost
  | .atom "do_plusminus" => some .plusminus
  | .atom "do_operators" => some .operators
  | _ => none

def pair? {α β} (f : SExp → Option α) (g : SExp → Option β) : SExp → Option (α × β)
  | .list [a, b] => do some (← f a, ← g b)
  | _ => none

def opCfg? : SExp → Option OpCfg
  | .list [t, g, la] => do some ⟨← opT? t, ← gk? g, ← la.bool?⟩
  | _ => none

def cfg? : SExp → Option Cfg
  | .list [.atom "cfg", grp, df, sch, ru, ops, mf, mfg, cp, cpg, al, fl] => do
    some { group := ← gk? grp, defField := ← optStr? df,
           schema := ← SExp.opt? (SExp.listOf? str?) sch,
           removeUnknown := ← ru.bool?,
           ops := ← SExp.listOf? opCfg? ops,
           mfFields := ← SExp.listOf? (pair? str? SExp.rat?) mf,
           mfGroup := ← gk? mfg,
           copyMap := ← SExp.listOf? (pair? str? str?) cp,
           copyGroup := ← SExp.opt? gk? cpg,
           aliases := ← SExp.listOf? (pair? str? str?) al,
           filters := ← SExp.listOf? (pair? filterId? SExp.int?) fl }
  | _ => none

def showErr : Err → String
  | .indexError => "IndexError" | .assertion => "AssertionError"
  | .notImplemented => "NotImplementedError" | .unbound => "UnboundLocalError"
  | .qpe => "QueryParserError" | .other => "Other"

def err? : SExp → Option Err
  | .atom "IndexError" => some .indexError
  | .atom "AssertionError" => some .assertion
  | .atom "NotImplementedError" => some .notImplemented
  | .atom "UnboundLocalError" => some .unbound
  | .atom "QueryParserError" => some .qpe
  | .atom _ => some .other
  | _ => none

partial def showQ : Q → String
  | .leaf id _ => s!"(leaf {id})"
  | .null => "null"
  | .compound k subs b => s!"(c {showGK k} {showList showQ subs} {showRat b})"
  | .not q => s!"(not {showQ q})"
  | .binary k a b => s!"(bin {showGK k} {showQ a} {showQ b})"

def leafRes? : SExp → Option LeafRes
  | .atom "none" => some .none
  | .list [.atom "q", t] => do some (.q 0 (← t.bool?))
  | .list [.atom "err", e] => do some (.err (← err? e))
  | _ => none

/-- the oracle of the `query` request: leaf number `i` is sent as a word node with text `[i]` -/
def tableOracle (tbl : List LeafRes) : Node → LeafRes
  | .text _ [i] _ _ =>
    match tbl[i]? with
    | some (.q _ t) => .q i t
    | some r => r
    | none => .err .other
  | _ => .err .other

partial def expr? : SExp → Option Expr
  | .list [.atom "atom", n] => do some (.atom (← node? n))
  | .list (.atom "paren" :: es) => do some (.paren (← es.mapM expr?))
  | .list [.atom "not", e] => do some (.not (← expr? e))
  | .list (.atom "op" :: g :: es) => do some (.op (← gk? g) (← es.mapM expr?))
  | _ => none

/-- valuation from the list of (field, text) pairs of the leaves that match the document -/
def tableVal (tbl : List (Option Str × Str)) : Node → Bool
  | .text _ t f _ => tbl.contains (f, t)
  | _ => false

def fieldText? : SExp → Option (Option Str × Str)
  | .list [f, t] => do some (← optStr? f, ← str? t)
  | _ => none

def showExcept {α} (f : α → String) : Except Err α → String
  | .ok a => "ok " ++ f a
  | .error e => "err " ++ showErr e

def qchar? : SExp → Option QChar
  | .list [c, s] => do some ⟨← c.nat?, ← s.bool?⟩
  | _ => none

def hit? : SExp → Option (Nat × TagHit)
  | .list [p, n, e, t] => do some (← p.nat?, ⟨← node? n, ← e.nat?, ← t.bool?⟩)
  | _ => none

def tagger? : SExp → Option Tagger
  | .atom "opn" => some .opn
  | .atom "cls" => some .cls
  | .atom "ws" => some .ws
  | .list [.atom "op", lit, a, b, t, g, la] => do
    some (.op (← str? lit) (← a.bool?) (← b.bool?) (← opT? t) (← gk? g) (← la.bool?))
  | .list [.atom "ext", .list hits] => do
    let tbl ← hits.mapM hit?
    some (.ext fun p => (tbl.find? (·.1 == p)).map (·.2))
  | _ => none

def showTagged (x : Tagged) : String := s!"({showNode x.node} {x.startchar} {x.endchar})"

def handle : List SExp → String
  | [.atom "tag", .list cs, .list tgs] =>
    match cs.mapM qchar?, tgs.mapM tagger? with
    | some cs, some tgs => showExcept (showList showTagged) (tag tgs cs)
    | _, _ => "bad-op"
  | [.atom "filterize", c, .list ns] =>
    match cfg? c, ns.mapM node? with
    | some c, some ns => showExcept showNode (filterize c ns)
    | _, _ => "bad-op"
  | [.atom "filter", c, f, n] =>
    match cfg? c, filterId? f, node? n with
    | some c, some f, some n => showExcept showNode (applyFilter c f n)
    | _, _, _ => "bad-op"
  | [.atom "priorized", c] =>
    match cfg? c with
    | some c => toString (priorized c.filters).length
    | none => "bad-op"
  | [.atom "clean", n] =>
    match node? n with
    | some n => showBool (clean n)
    | none => "bad-op"
  | [.atom "spec", g, .list es] =>
    match gk? g, es.mapM expr? with
    | some g, some es =>
      s!"{showBool (es.all Expr.wf)} {showList showNode (toksSeq es)} {showNode (outSeq g es)}"
    | _, _ => "bad-op"
  | [.atom "eval", g, .list es, .list docs] =>
    -- one verdict per document; a document is the list of its true leaves
    match gk? g, es.mapM expr?, docs.mapM (SExp.listOf? fieldText?) with
    | some g, some es, some docs => showList (fun d => showBool (evalSeq g (tableVal d) es)) docs
    | _, _, _ => "bad-op"
  | [.atom "query", n, .list tbl] =>
    match node? n, tbl.mapM leafRes? with
    | some n, some tbl =>
      match query (tableOracle tbl) n with
      | .ok r => "ok " ++ showOpt showQ r ++ " " ++ showQ (finish r)
      | .error e => "err " ++ showErr e
    | _, _ => "bad-op"
  | _ => "bad-op"

end WM.Drv.C16
