import WM.Proto
import WM.Model.MatcherTree
import WM.Model.MatcherCombo
import WM.Model.MatcherScoring
import WM.Model.MatcherReads
/-!
Protocol handler of family `c11` (also used by `c12`): builds a matcher tree from an S-expression,
runs a program of matcher operations on it and prints what the harness observes on the real
matcher after every operation.

  c11 run  TREE (OP ...)   -> (OBS OBS ...)     one OBS after construction, one after every OP
  c11 den  TREE            -> ((id score) ...)  the meaning of the freshly built tree (Layer S)
  c11 bm25 idf tf fl avgfl B K1 -> score
  c11 reads TREE (OP ...)  -> (RD RD ...)      OP next/(skip t)/reset; RD ::= (id weight nterms) | (0) | (!Error)
  c11 denr TREE            -> (((id weight)..) ((id nterms)..))   Layer S lists of the reads of the fresh tree

TREE ::= (null) | (list (id..) (w..) scorer01) | (leaf SC tmw tml (blk maxid maxw minlen (id w len)..)..)
       | (union T T) | (dismax T T) | (dismax T T tiebreak) | (inter T T) | (andnot T T) | (andmaybe T T) | (require T T)
         (dismax T T tiebreak): `DisjunctionMaxMatcher(a, b, tiebreak=t)`; the class stores the option and no
         method reads it (score/block_quality/max_quality are the plain maximum), so the model value is the same
       | (boost b T) | (filter (id..) excl01 boost T) | (inverse limit (missing..) weight T) | (const score T)
       | (multi (offset T) ...)        MultiMatcher; the sub-matchers must all have the same tree shape
       | (aunion doccount boost partsize T ...)   ArrayUnionMatcher; sub-matchers of one shape
ROOT ::= TREE | (preload boost T ...)     (PreloadedUnionMatcher: `run` only; sub-matchers of one shape)
SC   ::= freq | (tfidf idf) | (bm25 idf avgfl B K1)
OP   ::= next | (skip t) | (skipq q) | (replace q) | (replace! q) | reset | (copy k) | (swap k) | (sem T OP) | allids
         allids: the class's own all_ids() run on a copy (the matcher does not move); answered with (A id ...)
         (replace! q): a replace whose result is a new object on the real side; the shape of the replacement is
         not an observable, so from here on the comparison is semantic: answered with (H (id score) ...), the
         remaining entries that score above q.
         (sem T OP), OP one of skip/skipq/replace: applied only if the matcher is active (skipq: and supports
         block quality); answered with (H ...), the remaining entries scoring above T.
OBS  ::= (1 id score supports blockq maxq) | (0) when exhausted | (!Error) when the operation raised | (H (id score)..)
-/
namespace WM.Drv.C11
open WM.Proto WM.Proto.SExp WM.Matcher

def errName : Err → String
  | .readTooFar => "ReadTooFar"
  | .index => "IndexError"
  | .assertion => "AssertionError"
  | .notImpl => "NotImplementedError"
  | .value => "ValueError"
  | .zeroDiv => "ZeroDivisionError"
  | .attr => "AttributeError"
  | .noBlock => "Exception"
  | .diverge => "DIVERGE"

def parseScorer : SExp → Option (Rat → Nat → Rat)
  | .atom "freq" => some freqScore
  | .list [.atom "tfidf", idf] => do
    let i ← idf.rat?
    pure (tfidfScore i)
  | .list [.atom "bm25", idf, avgfl, b, k1] => do
    let i ← idf.rat?
    let a ← avgfl.rat?
    let b ← b.rat?
    let k ← k1.rat?
    pure (bm25 i a b k)
  | _ => none

def parsePosting : SExp → Option Posting
  | .list [i, w, l] => do
    let i ← i.nat?
    let w ← w.rat?
    let l ← l.nat?
    pure ⟨i, w, l⟩
  | _ => none

def parseBlock : SExp → Option Block
  | .list (.atom "blk" :: mid :: mw :: ml :: ps) => do
    let mid ← mid.nat?
    let mw ← mw.rat?
    let ml ← ml.nat?
    let ps ← ps.mapM parsePosting
    pure ⟨ps, mid, mw, ml⟩
  | _ => none

def ratList? (e : SExp) : Option (List Rat) := listOf? rat? e

/-- sub-matchers of one shape, from parsed trees -/
def sameShape : List Any → R ((c : Shape) × List (St c))
  | [] => pure ⟨.null, []⟩
  | a :: rest => do
    let more ← rest.mapM fun b =>
      if h : b.1 = a.1 then (pure (h ▸ b.2) : R (St a.1)) else .error .notImpl
    pure ⟨a.1, a.2 :: more⟩

/-- `none`: unparseable; `some (.error e)`: the constructor raised -/
partial def parseTree : SExp → Option (R Any)
  | .list [.atom "null"] => some (pure Any.null)
  | .list [.atom "list", ids, ws, sc] => do
    let ids ← ids.natList?
    let ws ← ratList? ws
    let sc ← sc.bool?
    pure (pure ⟨.list, ⟨ids, ws, 0, sc⟩⟩)
  | .list (.atom "leaf" :: sc :: tmw :: tml :: blocks) => do
    let sc ← parseScorer sc
    let tmw ← tmw.rat?
    let tml ← tml.nat?
    let bs ← blocks.mapM parseBlock
    pure (pure ⟨.leaf, ⟨bs, sc, tmw, tml, 0, 0, false⟩⟩)
  | .list [.atom "union", a, b] => do
    let a ← parseTree a
    let b ← parseTree b
    pure (do let a ← a; let b ← b; pure (mkUnion a b))
  | .list [.atom "dismax", a, b] => do
    let a ← parseTree a
    let b ← parseTree b
    pure (do let a ← a; let b ← b; pure (mkDisMax a b))
  | .list [.atom "dismax", a, b, tb] => do
    -- `DisjunctionMaxMatcher.__init__(a, b, tiebreak)`: stored, carried by copy(), read by no method
    let _ ← tb.rat?
    let a ← parseTree a
    let b ← parseTree b
    pure (do let a ← a; let b ← b; pure (mkDisMax a b))
  | .list [.atom "inter", a, b] => do
    let a ← parseTree a
    let b ← parseTree b
    pure (do let a ← a; let b ← b; mkInter a b)
  | .list [.atom "andnot", a, b] => do
    let a ← parseTree a
    let b ← parseTree b
    pure (do let a ← a; let b ← b; mkAndNot a b)
  | .list [.atom "andmaybe", a, b] => do
    let a ← parseTree a
    let b ← parseTree b
    pure (do let a ← a; let b ← b; mkAndMaybe a b)
  | .list [.atom "require", a, b] => do
    let a ← parseTree a
    let b ← parseTree b
    pure (do let a ← a; let b ← b; mkRequire a b)
  | .list [.atom "boost", w, c] => do
    let w ← w.rat?
    let c ← parseTree c
    pure (do let c ← c; pure (mkBoost c w))
  | .list [.atom "filter", ids, ex, w, c] => do
    let ids ← ids.natList?
    let ex ← ex.bool?
    let w ← w.rat?
    let c ← parseTree c
    pure (do let c ← c; mkFilter c ids ex w)
  | .list [.atom "inverse", lim, miss, w, c] => do
    let lim ← lim.nat?
    let miss ← miss.natList?
    let w ← w.rat?
    let c ← parseTree c
    pure (do let c ← c; mkInverse c lim miss w 0)
  | .list [.atom "const", s, c] => do
    let s ← s.rat?
    let c ← parseTree c
    pure (do let c ← c; pure (mkConst c s))
  | .list (.atom "aunion" :: dc :: b :: ps :: subs) => do
    let dc ← dc.nat?
    let b ← b.rat?
    let ps ← ps.nat?
    let ts ← subs.mapM parseTree
    pure (do
      let anys ← ts.mapM id
      let ⟨c, ss⟩ ← sameShape anys
      mkAUnion c ss dc b ps)
  | .list (.atom "multi" :: segs) => do
    let ps ← segs.mapM fun e =>
      match e with
      | .list [o, t] => do
        let o ← o.nat?
        let t ← parseTree t
        pure (o, t)
      | _ => none
    pure (do
      let anys ← ps.mapM fun (o, t) => do let a ← t; pure (o, a)
      match anys with
      | [] => pure (mkMulti .null [])
      | (o, a) :: rest => do
        let c := a.1
        -- sub-matchers of another shape are outside the model
        let more ← rest.mapM fun (o', b) =>
          if h : b.1 = c then (pure (h ▸ b.2, o') : R (St c × Nat)) else .error .notImpl
        pure (mkMulti c ((a.2, o) :: more)))
  | _ => none

inductive Op where
  | next | skip (t : Nat) | skipq (q : Rat) | replace (q : Rat) | replaceR (q : Rat) | reset | copy (k : Nat)
  | swap (k : Nat) | sem (T : Rat) (op : Op) | allids

partial def parseOp : SExp → Option Op
  | .atom "next" => some .next
  | .atom "reset" => some .reset
  | .atom "allids" => some .allids
  | .list [.atom "skip", t] => .skip <$> t.nat?
  | .list [.atom "skipq", q] => .skipq <$> q.rat?
  | .list [.atom "replace", q] => .replace <$> q.rat?
  | .list [.atom "replace!", q] => .replaceR <$> q.rat?
  | .list [.atom "copy", k] => .copy <$> k.nat?
  | .list [.atom "swap", k] => .swap <$> k.nat?
  | .list [.atom "sem", t, op] => do
    let t ← t.rat?
    let op ← parseOp op
    match op with
    | .skip _ | .skipq _ | .replace _ => pure (.sem t op)
    | _ => none
  | _ => none

def showR {α} (f : α → String) : R α → String
  | .ok a => f a
  | .error e => "!" ++ errName e

/-- what the program runner needs of a matcher value: trees (`Any`), and the array matchers of combo.py, which
    are not tree nodes (they only occur at the root: `Or` with `matcher_type`) -/
structure Iface (σ : Type) where
  O : Ops σ
  repl : σ → Rat → R σ
  allIds : σ → R (List Nat)
  den : σ → Den

def anyOps : Ops Any where
  isActive m := (ops m.1).isActive m.2
  id m := (ops m.1).id m.2
  score m := (ops m.1).score m.2
  next m := do let s ← (ops m.1).next m.2; pure ⟨m.1, s⟩
  skipTo m t := do let s ← (ops m.1).skipTo m.2 t; pure ⟨m.1, s⟩
  supportsBQ m := (ops m.1).supportsBQ m.2
  blockQuality m := (ops m.1).blockQuality m.2
  maxQuality m := (ops m.1).maxQuality m.2
  skipToQuality m q := do let (s, k) ← (ops m.1).skipToQuality m.2 q; pure (⟨m.1, s⟩, k)
  reset m := do let s ← (ops m.1).reset m.2; pure ⟨m.1, s⟩
  rem m := (ops m.1).rem m.2

def anyIface : Iface Any := ⟨anyOps, Any.replace, fun m => allIdsO m.1 m.2, Any.den⟩

def plIface : Iface Preload := ⟨Preload.ops, fun m _ => pure m, Preload.allIds, fun _ => []⟩

section Run
variable {σ : Type} (I : Iface σ)

def observe (m : σ) : String :=
  let O := I.O
  if !O.isActive m then "(0)" else
  let sup := O.supportsBQ m
  let q (r : R Rat) : String := if sup then showR showRat r else "-"
  s!"({showBool (O.isActive m)} {showR toString (O.id m)} {showR showRat (O.score m)} {showBool sup} {q (O.blockQuality m)} {q (O.maxQuality m)})"

partial def applyOp (m : σ) (regs : List (Nat × σ)) : Op → R (σ × List (Nat × σ))
  | .next => do let m' ← I.O.next m; pure (m', regs)
  | .skip t => do let m' ← I.O.skipTo m t; pure (m', regs)
  | .skipq q => do let (m', _) ← I.O.skipToQuality m q; pure (m', regs)
  | .replace q => do let m' ← I.repl m q; pure (m', regs)
  | .replaceR q => do let m' ← I.repl m q; pure (m', regs)
  | .reset => do let m' ← I.O.reset m; pure (m', regs)
  | .allids => pure (m, regs)
  | .copy k => pure (m, (k, m) :: regs.filter (·.1 != k))
  | .swap k =>
    match regs.find? (·.1 == k) with
    | some (_, r) => pure (r, (k, m) :: regs.filter (·.1 != k))
    | none => pure (m, regs)
  | .sem _ op =>
    if !I.O.isActive m then pure (m, regs) else
    match op with
    | .skipq _ => if I.O.supportsBQ m then applyOp m regs op else pure (m, regs)
    | _ => applyOp m regs op

/-- the semantic observation: what is left above the threshold -/
def observeSem (m : σ) (t : Rat) : String :=
  "(H " ++ " ".intercalate ((hi t (I.den m)).map (fun p => s!"({p.1} {showRat p.2})")) ++ ")"

def runProg (m : σ) (prog : List Op) : List String :=
  let rec go (m : σ) (regs : List (Nat × σ)) (ops : List Op) (acc : List String) : List String :=
    match ops with
    | [] => acc.reverse
    | op :: rest =>
      match applyOp I m regs op with
      | .error e => (s!"(!{errName e})" :: acc).reverse
      | .ok (m', regs') =>
        match op with
        | .replaceR q => go m' regs' rest (observeSem I m' q :: acc)
        | .sem t _ => go m' regs' rest (observeSem I m' t :: acc)
        | .allids =>
          let o := match I.allIds m' with
            | .ok L => "(A" ++ String.join (L.map fun i => s!" {i}") ++ ")"
            | .error e => s!"(A !{errName e})"
          go m' regs' rest (o :: acc)
        | _ => go m' regs' rest (observe I m' :: acc)
  go m [] prog [observe I m]

end Run

def showDen (L : Den) : String :=
  showList (fun p => s!"({p.1} {showRat p.2})") L

/-- the root that is not a tree node: `(preload boost T ...)` -/
def runRoot (tree : SExp) (prog : List Op) : Option (List String) :=
  match tree with
  | .list (.atom "preload" :: b :: subs) => do
    let b ← b.rat?
    let ts ← subs.mapM parseTree
    pure (match (do let anys ← ts.mapM id
                    let ⟨c, ss⟩ ← sameShape anys
                    let m ← Preload.init (ops c) ss b
                    pure (runProg plIface m prog) : R (List String)) with
      | .ok out => out
      | .error e => [s!"(!{errName e})"])
  | _ =>
    match parseTree tree with
    | some (.ok m) => some (runProg anyIface m prog)
    | some (.error e) => some [s!"(!{errName e})"]
    | none => none

/-- `weight()` and the number of `matching_terms()` on the current entry -/
def observeReads (m : Any) : String :=
  if !(ops m.1).isActive m.2 then "(0)" else
  s!"({showR toString ((ops m.1).id m.2)} {showR showRat (read .weight m.1 m.2)} {showR showRat (read .terms m.1 m.2)})"

def runReads (m : Any) (prog : List Op) : List String :=
  let rec go (m : Any) (ops : List Op) (acc : List String) : List String :=
    match ops with
    | [] => acc.reverse
    | op :: rest =>
      match applyOp anyIface m [] op with
      | .error e => (s!"(!{errName e})" :: acc).reverse
      | .ok (m', _) => go m' rest (observeReads m' :: acc)
  go m prog [observeReads m]

def handle : List SExp → String
  | [.atom "reads", tree, .list prog] =>
    match prog.mapM parseOp, parseTree tree with
    | some prog, some (.ok m) => "(" ++ " ".intercalate (runReads m prog) ++ ")"
    | some _, some (.error e) => s!"((!{errName e}))"
    | _, _ => "bad-op"
  | [.atom "denr", tree] =>
    match parseTree tree with
    | some (.ok m) => s!"({showDen (denR .weight m.1 m.2)} {showDen (denR .terms m.1 m.2)})"
    | some (.error e) => s!"!{errName e}"
    | none => "bad-op"
  | [.atom "run", tree, .list prog] =>
    match prog.mapM parseOp with
    | some prog =>
      match runRoot tree prog with
      | some out => "(" ++ " ".intercalate out ++ ")"
      | none => "bad-op"
    | none => "bad-op"
  | [.atom "den", tree] =>
    match parseTree tree with
    | some (.ok m) => showDen m.den
    | some (.error e) => s!"!{errName e}"
    | none => "bad-op"
  | [.atom "bm25", idf, tf, fl, avgfl, b, k1] =>
    match idf.rat?, tf.rat?, fl.nat?, avgfl.rat?, b.rat?, k1.rat? with
    | some idf, some tf, some fl, some avgfl, some b, some k1 => showRat (bm25 idf avgfl b k1 tf fl)
    | _, _, _, _, _, _ => "bad-op"
  | _ => "bad-op"

end WM.Drv.C11
