import WM.Proto
import WM.Model.MatcherTree
import WM.Model.MatcherScoring
/-!
Protocol handler of family `c11` (also used by `c12`): builds a matcher tree from an S-expression,
runs a program of matcher operations on it and prints what the harness observes on the real
matcher after every operation.

  c11 run  TREE (OP ...)   -> (OBS OBS ...)     one OBS after construction, one after every OP
  c11 den  TREE            -> ((id score) ...)  the meaning of the freshly built tree (Layer S)
  c11 bm25 idf tf fl avgfl B K1 -> score

TREE ::= (null) | (list (id..) (w..) scorer01) | (leaf SC tmw tml (blk maxid maxw minlen (id w len)..)..)
       | (union T T) | (dismax T T) | (inter T T) | (andnot T T) | (andmaybe T T) | (require T T)
       | (boost b T) | (filter (id..) excl01 boost T) | (inverse limit (missing..) weight T) | (const score T)
SC   ::= freq | (tfidf idf) | (bm25 idf avgfl B K1)
OP   ::= next | (skip t) | (skipq q) | (replace q) | (replace! q) | reset | (copy k) | (swap k)
         (replace! q): a replace whose result is a new object on the real side; answered with (R 1 id score) or (R))
OBS  ::= (1 id score supports blockq maxq) | (0) when exhausted | (!Error) when the operation raised
-/
namespace WM.Drv.C11
open WM.Proto WM.Proto.SExp WM.Matcher

def errName : Err → String
  | .readTooFar => "ReadTooFar"
  | .index => "IndexError"
  | .assertion => "AssertionError"
  | .notImpl => "NotImplementedError"
  | .value => "ValueError"
  | .zeroDiv => "ZeroDivisionError"
  | .attr => "AttributeError"
  | .noBlock => "Exception"
  | .diverge => "DIVERGE"

def parseScorer : SExp → Option (Rat → Nat → Rat)
  | .atom "freq" => some freqScore
  | .list [.atom "tfidf", idf] => do
    let i ← idf.rat?
    pure (tfidfScore i)
  | .list [.atom "bm25", idf, avgfl, b, k1] => do
    let i ← idf.rat?
    let a ← avgfl.rat?
    let b ← b.rat?
    let k ← k1.rat?
    pure (bm25 i a b k)
  | _ => none

def parsePosting : SExp → Option Posting
  | .list [i, w, l] => do
    let i ← i.nat?
    let w ← w.rat?
    let l ← l.nat?
    pure ⟨i, w, l⟩
  | _ => none

def parseBlock : SExp → Option Block
  | .list (.atom "blk" :: mid :: mw :: ml :: ps) => do
    let mid ← mid.nat?
    let mw ← mw.rat?
    let ml ← ml.nat?
    let ps ← ps.mapM parsePosting
    pure ⟨ps, mid, mw, ml⟩
  | _ => none

def ratList? (e : SExp) : Option (List Rat) := listOf? rat? e

/-- `none`: unparseable; `some (.error e)`: the constructor raised -/
partial def parseTree : SExp → Option (R Any)
  | .list [.atom "null"] => some (pure Any.null)
  | .list [.atom "list", ids, ws, sc] => do
    let ids ← ids.natList?
    let ws ← ratList? ws
    let sc ← sc.bool?
    pure (pure ⟨.list, ⟨ids, ws, 0, sc⟩⟩)
  | .list (.atom "leaf" :: sc :: tmw :: tml :: blocks) => do
    let sc ← parseScorer sc
    let tmw ← tmw.rat?
    let tml ← tml.nat?
    let bs ← blocks.mapM parseBlock
    pure (pure ⟨.leaf, ⟨bs, sc, tmw, tml, 0, 0, false⟩⟩)
  | .list [.atom "union", a, b] => do
    let a ← parseTree a
    let b ← parseTree b
    pure (do let a ← a; let b ← b; pure (mkUnion a b))
  | .list [.atom "dismax", a, b] => do
    let a ← parseTree a
    let b ← parseTree b
    pure (do let a ← a; let b ← b; pure (mkDisMax a b))
  | .list [.atom "inter", a, b] => do
    let a ← parseTree a
    let b ← parseTree b
    pure (do let a ← a; let b ← b; mkInter a b)
  | .list [.atom "andnot", a, b] => do
    let a ← parseTree a
    let b ← parseTree b
    pure (do let a ← a; let b ← b; mkAndNot a b)
  | .list [.atom "andmaybe", a, b] => do
    let a ← parseTree a
    let b ← parseTree b
    pure (do let a ← a; let b ← b; mkAndMaybe a b)
  | .list [.atom "require", a, b] => do
    let a ← parseTree a
    let b ← parseTree b
    pure (do let a ← a; let b ← b; mkRequire a b)
  | .list [.atom "boost", w, c] => do
    let w ← w.rat?
    let c ← parseTree c
    pure (do let c ← c; pure (mkBoost c w))
  | .list [.atom "filter", ids, ex, w, c] => do
    let ids ← ids.natList?
    let ex ← ex.bool?
    let w ← w.rat?
    let c ← parseTree c
    pure (do let c ← c; mkFilter c ids ex w)
  | .list [.atom "inverse", lim, miss, w, c] => do
    let lim ← lim.nat?
    let miss ← miss.natList?
    let w ← w.rat?
    let c ← parseTree c
    pure (do let c ← c; mkInverse c lim miss w 0)
  | .list [.atom "const", s, c] => do
    let s ← s.rat?
    let c ← parseTree c
    pure (do let c ← c; pure (mkConst c s))
  | _ => none

inductive Op where
  | next | skip (t : Nat) | skipq (q : Rat) | replace (q : Rat) | replaceR (q : Rat) | reset | copy (k : Nat)
  | swap (k : Nat)

def parseOp : SExp → Option Op
  | .atom "next" => some .next
  | .atom "reset" => some .reset
  | .list [.atom "skip", t] => .skip <$> t.nat?
  | .list [.atom "skipq", q] => .skipq <$> q.rat?
  | .list [.atom "replace", q] => .replace <$> q.rat?
  | .list [.atom "replace!", q] => .replaceR <$> q.rat?
  | .list [.atom "copy", k] => .copy <$> k.nat?
  | .list [.atom "swap", k] => .swap <$> k.nat?
  | _ => none

def showR {α} (f : α → String) : R α → String
  | .ok a => f a
  | .error e => "!" ++ errName e

def observe (m : Any) : String :=
  let O := ops m.1
  if !O.isActive m.2 then "(0)" else
  let sup := O.supportsBQ m.2
  let q (r : R Rat) : String := if sup then showR showRat r else "-"
  s!"({showBool (O.isActive m.2)} {showR toString (O.id m.2)} {showR showRat (O.score m.2)} {showBool sup} {q (O.blockQuality m.2)} {q (O.maxQuality m.2)})"

def applyOp (m : Any) (regs : List (Nat × Any)) : Op → R (Any × List (Nat × Any))
  | .next => do let m' ← (ops m.1).next m.2; pure (⟨m.1, m'⟩, regs)
  | .skip t => do let m' ← (ops m.1).skipTo m.2 t; pure (⟨m.1, m'⟩, regs)
  | .skipq q => do let (m', _) ← (ops m.1).skipToQuality m.2 q; pure (⟨m.1, m'⟩, regs)
  | .replace q => do let m' ← m.replace q; pure (m', regs)
  | .replaceR q => do let m' ← m.replace q; pure (m', regs)
  | .reset => do let m' ← (ops m.1).reset m.2; pure (⟨m.1, m'⟩, regs)
  | .copy k => pure (m, (k, m) :: regs.filter (·.1 != k))
  | .swap k =>
    match regs.find? (·.1 == k) with
    | some (_, r) => pure (r, (k, m) :: regs.filter (·.1 != k))
    | none => pure (m, regs)

/-- after a reshaping `replace(q)` only the entry the replacement is on is compared, and only if it scores
    above `q` (the shape of the replacement is not an observable, DESIGN Appendix F) -/
def observeReshaped (m : Any) (q : Rat) : String :=
  let O := ops m.1
  if O.isActive m.2 then
    match O.id m.2, O.score m.2 with
    | .ok x, .ok s => if q < s then s!"(R 1 {x} {showRat s})" else "(R)"
    | _, .error e => s!"(R !{errName e})"
    | .error e, _ => s!"(R !{errName e})"
  else "(R)"

def runProg (m : Any) (prog : List Op) : List String :=
  let rec go (m : Any) (regs : List (Nat × Any)) (ops : List Op) (acc : List String) : List String :=
    match ops with
    | [] => acc.reverse
    | op :: rest =>
      match applyOp m regs op with
      | .error e => (s!"(!{errName e})" :: acc).reverse
      | .ok (m', regs') =>
        match op with
        | .replaceR q => go m' regs' rest (observeReshaped m' q :: acc)
        | _ => go m' regs' rest (observe m' :: acc)
  go m [] prog [observe m]

def showDen (L : Den) : String :=
  showList (fun p => s!"({p.1} {showRat p.2})") L

def handle : List SExp → String
  | [.atom "run", tree, .list prog] =>
    match parseTree tree, prog.mapM parseOp with
    | some (.ok m), some prog => "(" ++ " ".intercalate (runProg m prog) ++ ")"
    | some (.error e), some _ => s!"((!{errName e}))"
    | _, _ => "bad-op"
  | [.atom "den", tree] =>
    match parseTree tree with
    | some (.ok m) => showDen m.den
    | some (.error e) => s!"!{errName e}"
    | none => "bad-op"
  | [.atom "bm25", idf, tf, fl, avgfl, b, k1] =>
    match idf.rat?, tf.rat?, fl.nat?, avgfl.rat?, b.rat?, k1.rat? with
    | some idf, some tf, some fl, some avgfl, some b, some k1 => showRat (bm25 idf avgfl b k1 tf fl)
    | _, _, _, _, _, _ => "bad-op"
  | _ => "bad-op"

end WM.Drv.C11
