import WM.Proto
namespace WM.Drv.C11
open WM.Proto

/-- Protocol handler of family `c11` (requests arrive without the family token). -/
def handle : List SExp → String
  | _ => "bad-op"

end WM.Drv.C11
