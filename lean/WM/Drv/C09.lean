import WM.Proto
import WM.Drv.C01
import WM.Model.LengthByte
namespace WM.Drv.C09
open WM.Proto

/-- Protocol handler of family `c09`: the length byte (`l2b n`, `b2l b`, `approx n`, `table`) and
    the search requests of `c01` (`hits`, `rank`, `compile`, …). -/
def handle (args : List SExp) : String :=
  match args with
  | [.atom "l2b", n] =>
    match n.nat? with
    | some k => toString (WM.LengthByte.lengthToByte k)
    | none => "bad-op"
  | [.atom "b2l", b] =>
    match b.nat? with
    | some k => showOpt toString (WM.LengthByte.byteToLength k)
    | none => "bad-op"
  | [.atom "approx", n] =>
    match n.nat? with
    | some k => toString (WM.LengthByte.approx k)
    | none => "bad-op"
  | [.atom "table"] => showNatList WM.LengthByte.table
  | _ => WM.Drv.C01.handle args

end WM.Drv.C09
