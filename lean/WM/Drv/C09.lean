import WM.Proto
namespace WM.Drv.C09
open WM.Proto

/-- Protocol handler of family `c09` (requests arrive without the family token). -/
def handle : List SExp → String
  | _ => "bad-op"

end WM.Drv.C09
