import WM.Proto
import WM.Drv.C01
import WM.Model.LengthByte
import WM.Spec.SearchStats
namespace WM.Drv.C09
open WM.Proto

/-- Protocol handler of family `c09`: the length byte (`l2b n`, `b2l b`, `approx n`, `table`) and
    the search requests of `c01` (`hits`, `rank`, `compile`, …). -/
def handle (args : List SExp) : String :=
  match args with
  | [.atom "l2b", n] =>
    match n.nat? with
    | some k => toString (WM.LengthByte.lengthToByte k)
    | none => "bad-op"
  | [.atom "b2l", b] =>
    match b.nat? with
    | some k => showOpt toString (WM.LengthByte.byteToLength k)
    | none => "bad-op"
  | [.atom "approx", n] =>
    match n.nat? with
    | some k => toString (WM.LengthByte.approx k)
    | none => "bad-op"
  | [.atom "table"] => showNatList WM.LengthByte.table
  -- stats INDEX ((field hexterm) ...) -> ((docCount docFreq collFreq fieldLength) ...)
  | [.atom "stats", idx, .list fts] =>
    let ft? (e : SExp) : Option (String × WM.Search.Term) :=
      match e with
      | .list [.atom f, t] => (WM.Drv.C01.term? t).map (fun tb => (f, tb))
      | _ => none
    match WM.Drv.C01.index? idx, fts.mapM ft? with
    | some ix, some fts =>
      showList (fun (f, t) =>
        let st := WM.Search.termStats ix f t
        s!"({st.docCount} {st.docFreq} {showRat st.collFreq} {st.fieldLength})") fts
    | _, _ => "bad-op"
  | _ => WM.Drv.C01.handle args

end WM.Drv.C09
